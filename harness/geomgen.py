"""Grammar-directed generator of domain expressions shared by the geometry checks
(C01, C05, C06, C10, C11, C17, C18).  One expression tree has three views:
  * `tokens()`  — prefix notation for the Lean drivers (lean/TPV/Model/GeomTerm.lean)
  * `to_tp(tp)` — the torchphysics object built with the public constructors
  * `describe()` — JSON for evidence / replay files (round-trips through `from_json`)
All numbers are dyadic rationals so that float32 represents every input exactly."""
from fractions import Fraction as Fr

import common
from common import q

DIM = {"x": 2, "y": 1, "z": 3, "t": 1, "D": 1, "s": 1}

# A harness may realise a multi-dimensional variable as a product of 1-D variables (e.g. 'x' as R1('xa')*R1('xb')):
# set SPLIT_VARS = {'x': ['xa', 'xb']} around `to_tp` / when building query Points.  The Lean side is unaffected
# (the model reads the joined coordinates under the name 'x').
SPLIT_VARS = {}


# ---------------------------------------------------------------------------------------------
# parameter terms

def c(k):
    return ("c", Fr(k))


def v(name, i=0):
    return ("v", name, i)


def pt_tokens(t):
    k = t[0]
    if k == "c":
        return "c " + q(t[1])
    if k == "v":
        return f"v {t[1]} {t[2]}"
    if k == "n":
        return "n " + pt_tokens(t[1])
    return f"{k} {pt_tokens(t[1])} {pt_tokens(t[2])}"


def pt_vars(t):
    k = t[0]
    if k == "c":
        return []
    if k == "v":
        return [t[1]]
    if k == "n":
        return pt_vars(t[1])
    return pt_vars(t[1]) + pt_vars(t[2])


def pt_py(t):
    k = t[0]
    if k == "c":
        return repr(float(t[1]))
    if k == "v":
        return f"{t[1]}[:, {t[2]}:{t[2] + 1}]"
    if k == "n":
        return f"(-{pt_py(t[1])})"
    return f"({pt_py(t[1])} {k} {pt_py(t[2])})"


def pt_eval(t, env):
    k = t[0]
    if k == "c":
        return t[1]
    if k == "v":
        return Fr(env[t[1]][t[2]])
    if k == "n":
        return -pt_eval(t[1], env)
    a, b = pt_eval(t[1], env), pt_eval(t[2], env)
    return a + b if k == "+" else a - b if k == "-" else a * b


class PF:
    """a domain parameter: one term per component"""

    def __init__(self, terms, defaulted=None):
        self.terms = list(terms)
        # name of a variable that the generated Python function declares WITH a (bogus) default value;
        # the data always supplies it, so the supplied value must win (opt-in: Gen(p_default=...))
        self.defaulted = defaulted

    def vars(self):
        out = []
        for t in self.terms:
            for x in pt_vars(t):
                if x not in out:
                    out.append(x)
        return out

    def tokens(self):
        return common.lst(self.terms, pt_tokens)

    def eval(self, env):
        return [pt_eval(t, env) for t in self.terms]

    def py(self, scalar=False, matrix=False):
        """constant → number / list (what users write); else a callable with the variables as named args"""
        vs = self.vars()
        if not vs:
            vals = [float(t[1]) if t[0] == "c" else float(pt_eval(t, {})) for t in self.terms]
            if scalar:
                return vals[0]
            if matrix:
                return [[vals[0], vals[1]], [vals[2], vals[3]]]
            return vals
        import torch
        first = f"{vs[0]}[:, :1]"
        comps = [pt_py(t) if pt_vars(t) else f"torch.full_like({first}, {float(pt_eval(t, {}))!r}, dtype=torch.promote_types({first}.dtype, torch.float32))" for t in self.terms]
        if self.defaulted in vs and len(vs) >= 2:
            # Python requires defaulted parameters last; the first variable stays required (it sizes constants)
            vs = [x for x in vs if x != self.defaulted] + [self.defaulted]
            sig = ", ".join(vs[:-1]) + f", {self.defaulted}=torch.full((1, 1), 7.25)"
        else:
            sig = ", ".join(vs)
        # the components may have different numbers of rows (a variable fixed by an evaluation arrives as ONE row next to
        # the N rows of the others): broadcast them, as a user's function written with tensor arithmetic would
        src = f"def _f({sig}):\n    return torch.column_stack(torch.broadcast_tensors({', '.join(comps)}))\n"
        ns = {"torch": torch}
        exec(src, ns)
        f = ns["_f"]
        f._src = src
        return f

    def describe(self):
        d = [pt_tokens(t) for t in self.terms]
        if self.defaulted:
            d.append("default " + self.defaulted)
        return d


# ---------------------------------------------------------------------------------------------
# expression tree

class Node:
    def __init__(self, kind, var=None, pfs=(), kids=(), flags=None):
        self.kind, self.var, self.pfs, self.kids = kind, var, list(pfs), list(kids)
        self.flags = flags or {}

    # -- views
    def tokens(self):
        k = self.kind
        if k in ("interval", "par", "tri", "circle", "sphere"):
            return " ".join([k, self.var] + [p.tokens() for p in self.pfs])
        if k in ("union", "cut", "inter", "prod"):
            return f"{k} {self.kids[0].tokens()} {self.kids[1].tokens()}"
        if k == "translate":
            return f"translate {self.var} {self.kids[0].tokens()} {self.pfs[0].tokens()}"
        if k == "rotate":
            return f"rotate {self.var} {self.kids[0].tokens()} {self.pfs[0].tokens()} {self.pfs[1].tokens()}"
        if k in ("bdry", "bdryL", "bdryR"):
            return f"{k} {self.kids[0].tokens()}"
        raise ValueError(k)

    def space(self, tp):
        sp = None
        for name in self.vars():
            if name in SPLIT_VARS:
                for part in SPLIT_VARS[name]:
                    s = tp.spaces.R1(part)
                    sp = s if sp is None else sp * s
                continue
            s = {1: tp.spaces.R1, 2: tp.spaces.R2, 3: tp.spaces.R3}[DIM[name]](name)
            sp = s if sp is None else sp * s
        return sp

    def vars(self):
        k = self.kind
        if k in ("interval", "par", "tri", "circle", "sphere"):
            return [self.var]
        if k == "prod":
            return self.kids[0].vars() + self.kids[1].vars()
        return self.kids[0].vars()

    def free_vars(self):
        k = self.kind
        out = []
        for p in self.pfs:
            out += p.vars()
        if k == "prod":
            out += [x for x in self.kids[0].free_vars() if x not in self.kids[1].vars()] + self.kids[1].free_vars()
        else:
            for kid in self.kids:
                out += kid.free_vars()
        res = []
        for x in out:
            if x not in res:
                res.append(x)
        return res

    def to_tp(self, tp):
        k = self.kind
        D = tp.domains
        if k == "interval":
            return D.Interval(self.space(tp), self.pfs[0].py(scalar=True), self.pfs[1].py(scalar=True))
        if k == "par":
            return D.Parallelogram(self.space(tp), *[p.py() for p in self.pfs])
        if k == "tri":
            return D.Triangle(self.space(tp), *[p.py() for p in self.pfs])
        if k == "circle":
            return D.Circle(self.space(tp), self.pfs[0].py(), self.pfs[1].py(scalar=True))
        if k == "sphere":
            return D.Sphere(self.space(tp), self.pfs[0].py(), self.pfs[1].py(scalar=True))
        if k in ("union", "cut", "inter"):
            a, b = self.kids[0].to_tp(tp), self.kids[1].to_tp(tp)
            if k == "union":
                if self.flags.get("disjoint"):
                    from torchphysics.problem.domains.domainoperations.union import UnionDomain
                    return UnionDomain(a, b, disjoint=True)
                return a + b
            if k == "cut":
                if self.flags.get("contained"):
                    from torchphysics.problem.domains.domainoperations.cut import CutDomain
                    return CutDomain(a, b, contained=True)
                return a - b
            return a & b
        if k == "prod":
            return self.kids[0].to_tp(tp) * self.kids[1].to_tp(tp)
        if k == "translate":
            return D.Translate(self.kids[0].to_tp(tp), self.pfs[0].py())
        if k == "rotate":
            return D.Rotate(self.kids[0].to_tp(tp), self.pfs[0].py(matrix=True), self.pfs[1].py())
        if k == "bdry":
            return self.kids[0].to_tp(tp).boundary
        if k == "bdryL":
            return self.kids[0].to_tp(tp).boundary_left
        if k == "bdryR":
            return self.kids[0].to_tp(tp).boundary_right
        raise ValueError(k)

    def describe(self):
        return dict(kind=self.kind, var=self.var, pfs=[p.describe() for p in self.pfs],
                    kids=[k.describe() for k in self.kids], flags=self.flags)

    def depth(self):
        return 1 + max([k.depth() for k in self.kids], default=0)

    def kinds(self):
        out = [self.kind]
        for k in self.kids:
            out += k.kinds()
        return out

    def is_prim(self):
        return self.kind in ("interval", "par", "tri", "circle", "sphere")


def parse_pt(toks):
    t = toks.pop(0)
    if t == "c":
        return ("c", Fr(toks.pop(0)))
    if t == "v":
        return ("v", toks.pop(0), int(toks.pop(0)))
    if t == "n":
        return ("n", parse_pt(toks))
    return (t, parse_pt(toks), parse_pt(toks))


def from_json(d):
    pfs = []
    for terms in d["pfs"]:
        dflt = [t.split()[1] for t in terms if t.startswith("default ")]
        pfs.append(PF([parse_pt(s.split()) for s in terms if not s.startswith("default ")], dflt[0] if dflt else None))
    return Node(d["kind"], d["var"], pfs, [from_json(k) for k in d["kids"]], d.get("flags"))


# ---------------------------------------------------------------------------------------------
# generation

def dy(rng, lo, hi, den=8):
    return Fr(rng.randint(int(lo * den), int(hi * den)), den)


class Gen:
    """params: names of scalar parameter variables the expression may depend on (values in [0, 1])"""

    def __init__(self, rng, params=("t",), p_dep=0.4, allow_rotate=True, allow_translate=True, p_default=0.0):
        self.rng, self.params, self.p_dep = rng, list(params), p_dep
        self.allow_rotate, self.allow_translate = allow_rotate, allow_translate
        self.p_default = p_default

    def aff(self, base, spread=1):
        """constant, or base + a*param with small dyadic a (parameter-dependent)"""
        rng = self.rng
        if self.params and rng.random() < self.p_dep:
            p = rng.choice(self.params)
            a = dy(rng, -spread, spread, 4)
            if a != 0:
                t = ("+", c(base), ("*", c(a), v(p)))
                if (self.p_default or getattr(self, "p_two", False)) and len(self.params) >= 2 and rng.random() < 0.5:
                    # a second parameter in the same function (so that one of them can be declared with a default)
                    p2 = rng.choice([x for x in self.params if x != p])
                    a2 = dy(rng, -spread, spread, 4)
                    if a2 != 0:
                        t = ("+", t, ("*", c(a2), v(p2)))
                return t
        return c(base)

    def pos_aff(self, base):
        """positive for all parameter values in [0,1]"""
        rng = self.rng
        if self.params and rng.random() < self.p_dep:
            p = rng.choice(self.params)
            a = dy(rng, 0, 1, 4)
            if a != 0:
                return ("+", c(base), ("*", c(a), v(p)))
        return c(base)

    def _dflt(self, pf):
        """opt-in: declare one of >= 2 variables of the generated function with a default value"""
        vs = pf.vars()
        if self.p_default and len(vs) >= 2 and self.rng.random() < self.p_default:
            pf.defaulted = self.rng.choice(vs[1:])
        return pf

    def vec(self, base, spread=1):
        return self._dflt(PF([self.aff(b, spread) for b in base]))

    def prim2(self, var="x"):
        rng = self.rng
        kind = rng.choice(["par", "tri", "circle", "par", "tri"])
        if kind == "circle":
            return Node("circle", var, [self.vec([dy(rng, -2, 2), dy(rng, -2, 2)]), PF([self.pos_aff(dy(rng, 0.25, 2))])])
        while True:
            o = [dy(rng, -2, 2), dy(rng, -2, 2)]
            d1 = [dy(rng, -3, 3), dy(rng, -3, 3)]
            d2 = [dy(rng, -3, 3), dy(rng, -3, 3)]
            det = d1[0] * d2[1] - d1[1] * d2[0]
            if abs(det) >= Fr(1, 2) and max(map(abs, d1)) >= Fr(1, 2) and max(map(abs, d2)) >= Fr(1, 2):
                break
        # both orientations occur; a shared parameter-dependent shift keeps the shape non-degenerate
        shift = [self.aff(0), self.aff(0)]
        def corner(pt):
            return self._dflt(PF([("+", c(pt[0]), shift[0]) if shift[0] != c(0) else c(pt[0]),
                                  ("+", c(pt[1]), shift[1]) if shift[1] != c(0) else c(pt[1])]))
        c1 = [o[0] + d1[0], o[1] + d1[1]]
        c2 = [o[0] + d2[0], o[1] + d2[1]]
        return Node(kind, var, [corner(o), corner(c1), corner(c2)])

    def prim1(self, var="y"):
        rng = self.rng
        lb = dy(rng, -2, 1)
        w = dy(rng, 0.5, 3)
        lo = self.aff(lb)
        return Node("interval", var, [PF([lo]), self._dflt(PF([("+", lo, self.pos_aff(w))]))])

    def prim3(self, var="z"):
        rng = self.rng
        return Node("sphere", var, [self.vec([dy(rng, -1, 1), dy(rng, -1, 1), dy(rng, -1, 1)]), PF([self.pos_aff(dy(rng, 0.5, 2))])])

    def prim(self, var):
        return {1: self.prim1, 2: self.prim2, 3: self.prim3}[DIM[var]](var)

    def solid(self, depth, var="x"):
        """a solid (non-boundary) expression in the space of `var`"""
        rng = self.rng
        if depth <= 1 or rng.random() < 0.25:
            return self.prim(var)
        ops = ["union", "cut", "inter"]
        if self.allow_translate:
            ops.append("translate")
        if self.allow_rotate and DIM[var] == 2:
            ops.append("rotate")
        op = rng.choice(ops)
        if op in ("union", "cut", "inter"):
            return Node(op, None, [], [self.solid(depth - 1, var), self.solid(depth - 1, var)])
        if op == "translate":
            n = DIM[var]
            return Node("translate", var, [self.vec([dy(rng, -2, 2) for _ in range(n)])], [self.solid(depth - 1, var)])
        # rotation by a rational angle (Pythagorean triples) or the identity / quarter turns
        cs = rng.choice([(Fr(3, 5), Fr(4, 5)), (Fr(4, 5), Fr(3, 5)), (Fr(0), Fr(1)), (Fr(5, 13), Fr(12, 13)),
                         (Fr(-3, 5), Fr(4, 5)), (Fr(1), Fr(0)), (Fr(-4, 5), Fr(-3, 5))])
        co, si = cs
        m = PF([c(co), c(-si), c(si), c(co)])
        ctr = PF([c(dy(rng, -1, 1)), c(dy(rng, -1, 1))])
        return Node("rotate", var, [m, ctr], [self.solid(depth - 1, var)])


def env_tokens(env):
    """env: dict name -> list of numbers"""
    return common.lst(env.items(), lambda kv: f"{kv[0]} {common.lst(kv[1], q)}")
