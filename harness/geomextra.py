"""C05, additional correspondence streams for the public constructors that are not constructors of the model's `Dom`
(lean/TPV/Model/GeomExtra.lean, theorems lean/TPV/Props/C05Ext.lean, driver ops `pprod`, `rot3`, `rot3bdry`, `mesh` of
lean/drivers/C05.lean):

  * point   — `Point` (1-, 2-, 3-D; constant or parameter-dependent coordinates) alone and as factor(s) of a product with a
              generated domain expression, factors in any order; queries at the point, at ±0.0005 / ±0.002 / ±0.01 from it in
              one or all coordinates, and far away
  * rot3    — `Rotate(D, M, c)` with a 3x3 matrix (rational rotations from integer quaternions, constant or parameter-dependent
              shear of them, any pivot) around Booleans / translations of balls, and its `.boundary`
  * mesh    — `TrimeshPolyhedron` for meshes assembled from convex bodies (affine images of a box, tetrahedra; one or two
              disjoint bodies; optionally a box cavity), vertices merged, faces in scrambled order and with scrambled winding
              (the constructor repairs the winding); the model gets the outward-wound triangles

The verdict rule is C05's: where every comparison the exact algorithm makes is decided with a margin, the implementation's
Boolean must agree with the exact one (a difference is a failing input); one truth value per row; an exception on a
well-formed input is a failing input."""
import itertools
from fractions import Fraction as Fr

import common
import geomgen
from geomgen import Gen, Node, PF, c, v, dy, env_tokens

ATOL, RTOL, BATOL = "1/100000000", "1/100000", "1/100000"
MARGIN = Fr(1, 2000)            # normalised slack of the domain expression (as in c05.py)
POINT_ATOL = Fr(1, 1000)        # `atol=0.001` in Point._contains
POINT_MARGIN = Fr(1, 20000)     # |‖x − p‖ − tol| above which float32 must agree
MESH_MARGIN = Fr(1, 1000)       # distance / |face normal| above which the ray test must agree


def f32(x):
    import numpy as np
    return Fr(float(np.float32(float(x))))


def _space(tp, names):
    sp = None
    for n in names:
        s = {1: tp.spaces.R1, 2: tp.spaces.R2, 3: tp.spaces.R3}[geomgen.DIM[n]](n)
        sp = s if sp is None else sp * s
    return sp


def _param_points(tp, torch, params, envs):
    if not params:
        return tp.spaces.Points.empty()
    return tp.spaces.Points(torch.tensor([[float(Fr(e[p][0])) for p in params] for e in envs], dtype=torch.float32), _space(tp, params))


# ------------------------------------------------------------------------------------------------------------------
# point stream

def gen_point_case(ctx, idx):
    rng = ctx.rng
    params = rng.choice([[], [], ["t"], ["t", "D"]])
    g = Gen(rng, params=params)
    pvars = rng.choice([["y"], ["x"], ["z"], ["y", "s"], ["s", "x"], ["y"], ["s"]])
    points = []
    for pv in pvars:
        d = geomgen.DIM[pv]
        points.append(dict(var=pv, pf=PF([g.aff(dy(rng, -3, 3)) for _ in range(d)]).describe()))
    rest = None
    if rng.random() < 0.6:
        rv = rng.choice([x for x in ["x", "y", "z"] if x not in pvars])
        gr = Gen(rng, params=params + ([pvars[0]] if geomgen.DIM[pvars[0]] == 1 and rng.random() < 0.3 else []),
                 allow_rotate=(rv == "x"))
        rest = gr.solid(rng.choice([1, 2, 2]), rv).describe()
    order = list(range(len(points) + (1 if rest else 0)))
    rng.shuffle(order)
    if rest and any(x in pvars for x in geomgen.from_json(rest).free_vars()):
        # a product puts the dependent factor first (the library refuses the other order)
        order = [len(points)] + [i for i in order if i != len(points)]
    k = rng.choice([1, 2, 3]) if params else 1
    prow = [{p: [str(Fr(rng.randint(0, 16), 16))] for p in params} for _ in range(k)]
    rows = []
    n = ctx.scale(24, 48)
    deltas = [Fr(0), Fr(1, 2000), Fr(-1, 2000), Fr(1, 500), Fr(-1, 500), Fr(1, 100), Fr(-1, 100)]
    for i in range(n):
        env = prow[i % len(prow)]
        e = {p_: [Fr(a) for a in v_] for p_, v_ in env.items()}
        pt = {}
        if rest:
            rn = geomgen.from_json(rest)
            for var in rn.vars():
                pt[var] = [Fr(rng.randint(-3 * 32, 3 * 32), 32) for _ in range(geomgen.DIM[var])]
        mode = rng.choice(["at", "near", "near1", "far"])
        for p in points:
            pv = p["var"]
            # a point that depends on another point's variable is not generated: coordinates depend on parameters only
            pvals = _pf(p["pf"]).eval(e)
            if mode == "at":
                pt[pv] = [f32(a) for a in pvals]
            elif mode == "near":
                pt[pv] = [f32(a + rng.choice(deltas)) for a in pvals]
            elif mode == "near1":
                j = rng.randrange(len(pvals))
                pt[pv] = [f32(a + (rng.choice(deltas) if i_ == j else 0)) for i_, a in enumerate(pvals)]
            else:
                pt[pv] = [Fr(rng.randint(-4 * 32, 4 * 32), 32) for _ in pvals]
        rows.append(({k_: [str(a) for a in v_] for k_, v_ in pt.items()}, env))
    return dict(stream="geomextra", kind="point", id=idx, params=params, points=points, rest=rest, order=order, rows=rows)


def _pf(desc):
    toks_list = [d for d in desc if not d.startswith("default ")]
    return PF([geomgen.parse_pt(t.split()) for t in toks_list])


def point_lines(case):
    pts_tok = common.lst([f"{p['var']} {_pf(p['pf']).tokens()} {common.q(POINT_ATOL)}" for p in case["points"]])
    rest_tok = ("1 " + geomgen.from_json(case["rest"]).tokens()) if case["rest"] else "0"
    lines = []
    for pt, env in case["rows"]:
        pe = {k: [Fr(a) for a in v_] for k, v_ in pt.items()}
        ee = {k: [Fr(a) for a in v_] for k, v_ in env.items()}
        lines.append(f"pprod {ATOL} {RTOL} {BATOL} {pts_tok} {rest_tok} {env_tokens(pe)} {env_tokens(ee)}")
    return lines


def point_impl(case):
    tp = common.use_repo()
    import torch
    factors = []
    for p in case["points"]:
        pf = _pf(p["pf"])
        d = geomgen.DIM[p["var"]]
        factors.append((tp.domains.Point(_space(tp, [p["var"]]), pf.py(scalar=(d == 1))), [p["var"]]))
    if case["rest"]:
        rn = geomgen.from_json(case["rest"])
        factors.append((rn.to_tp(tp), rn.vars()))
    dom, names = None, []
    for i in case["order"]:
        f, vs = factors[i]
        dom = f if dom is None else dom * f
        names += vs
    qnames = names if case["id"] % 2 == 0 else names[::-1]     # query points may list the variables in another order
    rows = case["rows"]
    pts = tp.spaces.Points(torch.tensor([[float(Fr(a)) for n_ in qnames for a in pt[n_]] for pt, _ in rows], dtype=torch.float32),
                           _space(tp, qnames))
    pr = _param_points(tp, torch, case["params"], [e for _, e in rows])
    try:
        res = dom._contains(pts, pr)
    except Exception as e:  # noqa
        return dict(error=f"{type(e).__name__}: {str(e)[:200]}")
    return dict(bools=[bool(b) for b in res.reshape(-1).tolist()], shape=tuple(res.shape))


# ------------------------------------------------------------------------------------------------------------------
# 3-D rotation stream

def quat_matrix(a, b, c_, d):
    n = a * a + b * b + c_ * c_ + d * d
    m = [[a * a + b * b - c_ * c_ - d * d, 2 * (b * c_ - a * d), 2 * (b * d + a * c_)],
         [2 * (b * c_ + a * d), a * a - b * b + c_ * c_ - d * d, 2 * (c_ * d - a * b)],
         [2 * (b * d - a * c_), 2 * (c_ * d + a * b), a * a - b * b - c_ * c_ + d * d]]
    return [[Fr(x, n) for x in r] for r in m]


def gen_rot3_case(ctx, idx):
    rng = ctx.rng
    params = rng.choice([[], ["t"], ["t"]])
    g = Gen(rng, params=params, allow_rotate=False)
    inner = g.solid(rng.choice([1, 2, 2, 3]), "z")
    while True:
        qv = [rng.randint(-3, 3) for _ in range(4)]
        if any(qv):
            break
    M = quat_matrix(*qv)
    if rng.random() < 0.25:
        M = [[Fr(1), Fr(0), Fr(0)], [Fr(0), Fr(0), Fr(-1)], [Fr(0), Fr(1), Fr(0)]]   # quarter turn about the first axis
    terms = []
    dep = bool(params) and rng.random() < 0.5
    for i in range(3):
        for j in range(3):
            t = c(M[i][j])
            if dep and j > i and rng.random() < 0.7:
                t = ("+", t, ("*", c(dy(rng, -1, 1, 4) / 4), v("t")))     # a parameter-dependent shear keeps the matrix invertible
            terms.append(t)
    ctr = PF([g.aff(dy(rng, -1, 1)) for _ in range(3)]) if rng.random() < 0.7 else None
    k = rng.choice([1, 2, 3]) if params else 1
    prow = [{p: [str(Fr(rng.randint(0, 16), 16))] for p in params} for _ in range(k)]
    bdry = rng.random() < 0.3
    rows = []
    for i in range(ctx.scale(30, 60)):
        env = prow[i % len(prow)]
        rows.append(({"z": [str(Fr(rng.randint(-5 * 32, 5 * 32), 64)) for _ in range(3)]}, env))
    # points near the surface of every ball, mapped forward through the inner translations and the rotation
    for env in prow:
        e = {p_: [Fr(a) for a in v_] for p_, v_ in env.items()}
        Mv = PF(terms).eval(e)
        cv = ctr.eval(e) if ctr else [Fr(0)] * 3
        pts = []
        import c05
        c05.near_points(inner, e, rng, pts)
        for p in pts[:12]:
            if len(p) != 3:
                continue
            qv_ = [p[j] - cv[j] for j in range(3)]
            img = [sum(Mv[3 * i_ + j] * qv_[j] for j in range(3)) + cv[i_] for i_ in range(3)]
            rows.append(({"z": [str(f32(a)) for a in img]}, env))
    return dict(stream="geomextra", kind="rot3", id=idx, params=params, inner=inner.describe(), m=PF(terms).describe(),
                c=(ctr.describe() if ctr else None), bdry=bdry, rows=rows)


def rot3_lines(case):
    inner = geomgen.from_json(case["inner"])
    m = _pf(case["m"])
    ctr = _pf(case["c"]) if case["c"] else PF([c(0), c(0), c(0)])
    op = "rot3bdry" if case["bdry"] else "rot3"
    lines = []
    for pt, env in case["rows"]:
        pe = {k: [Fr(a) for a in v_] for k, v_ in pt.items()}
        ee = {k: [Fr(a) for a in v_] for k, v_ in env.items()}
        lines.append(f"{op} {ATOL} {RTOL} {BATOL} z {inner.tokens()} {m.tokens()} {ctr.tokens()} {env_tokens(pe)} {env_tokens(ee)}")
    return lines


def _matrix_py(pf):
    import torch
    vs = pf.vars()
    if not vs:
        vals = [float(geomgen.pt_eval(t, {})) for t in pf.terms]
        return [vals[0:3], vals[3:6], vals[6:9]]
    first = f"{vs[0]}[:, :1]"
    comps = [geomgen.pt_py(t) if geomgen.pt_vars(t) else f"torch.full_like({first}, {float(geomgen.pt_eval(t, {}))!r}, dtype=torch.promote_types({first}.dtype, torch.float32))" for t in pf.terms]
    src = f"def _m({', '.join(vs)}):\n    return torch.column_stack([{', '.join(comps)}]).reshape(-1, 3, 3)\n"
    ns = {"torch": torch}
    exec(src, ns)
    return ns["_m"]


def rot3_impl(case):
    tp = common.use_repo()
    import torch
    inner = geomgen.from_json(case["inner"]).to_tp(tp)
    args = [inner, _matrix_py(_pf(case["m"]))]
    if case["c"]:
        args.append(_pf(case["c"]).py())
    dom = tp.domains.Rotate(*args)
    if case["bdry"]:
        dom = dom.boundary
    rows = case["rows"]
    pts = tp.spaces.Points(torch.tensor([[float(Fr(a)) for a in pt["z"]] for pt, _ in rows], dtype=torch.float32), _space(tp, ["z"]))
    pr = _param_points(tp, torch, case["params"], [e for _, e in rows])
    try:
        res = dom._contains(pts, pr)
    except Exception as e:  # noqa
        return dict(error=f"{type(e).__name__}: {str(e)[:200]}")
    return dict(bools=[bool(b) for b in res.reshape(-1).tolist()], shape=tuple(res.shape))


# ------------------------------------------------------------------------------------------------------------------
# mesh stream

BOX_CORNER = lambda l, u, i, j, k: ((u if i else l)[0], (u if j else l)[1], (u if k else l)[2])   # noqa: E731
F_, T_ = False, True
BOX_TRIS = [((F_, F_, F_), (F_, F_, T_), (F_, T_, T_)), ((F_, F_, F_), (F_, T_, T_), (F_, T_, F_)),
            ((T_, F_, F_), (T_, T_, F_), (T_, T_, T_)), ((T_, F_, F_), (T_, T_, T_), (T_, F_, T_)),
            ((F_, F_, F_), (T_, F_, F_), (T_, F_, T_)), ((F_, F_, F_), (T_, F_, T_), (F_, F_, T_)),
            ((F_, T_, F_), (F_, T_, T_), (T_, T_, T_)), ((F_, T_, F_), (T_, T_, T_), (T_, T_, F_)),
            ((F_, F_, F_), (F_, T_, F_), (T_, T_, F_)), ((F_, F_, F_), (T_, T_, F_), (T_, F_, F_)),
            ((F_, F_, T_), (T_, F_, T_), (T_, T_, T_)), ((F_, F_, T_), (T_, T_, T_), (F_, T_, T_))]   # = boxTris of C05Ext.lean


def box_tris(l, u, A=None, b=None):
    """outward-wound triangles of the image of the box [l,u] under x -> A x + b (det A > 0 keeps the winding: side_image)"""
    def img(p):
        if A is None:
            return tuple(p)
        return tuple(sum(A[i][j] * p[j] for j in range(3)) + b[i] for i in range(3))
    return [tuple(img(BOX_CORNER(l, u, *cr)) for cr in tri) for tri in BOX_TRIS]


def det3(r0, r1, r2):
    return (r0[0] * (r1[1] * r2[2] - r1[2] * r2[1]) - r0[1] * (r1[0] * r2[2] - r1[2] * r2[0]) + r0[2] * (r1[0] * r2[1] - r1[1] * r2[0]))


def tetra_tris(vs):
    tris = []
    for skip in range(4):
        a, b, c_ = [vs[i] for i in range(4) if i != skip]
        d = vs[skip]
        side = det3([b[i] - a[i] for i in range(3)], [c_[i] - a[i] for i in range(3)], [d[i] - a[i] for i in range(3)])
        tris.append((a, b, c_) if side < 0 else (a, c_, b))     # the fourth vertex lies on the inner side
    return tris


def gen_mesh_case(ctx, idx):
    rng = ctx.rng

    def rand_body(offset):
        if rng.random() < 0.65:
            l = [dy(rng, -1, 0) for _ in range(3)]
            u = [l[i] + dy(rng, 1, 2) for i in range(3)]
            A = None
            b = None
            if rng.random() < 0.5:
                while True:
                    A = [[Fr(rng.randint(-4, 4), 4) for _ in range(3)] for _ in range(3)]
                    for i in range(3):
                        A[i][i] += 1
                    if det3(*A) >= Fr(1, 2):
                        break
                b = [Fr(0)] * 3
            tris = box_tris(l, u, A, b)
            kind = "box" if A is None else "sheared-box"
        else:
            while True:
                vs = [tuple(dy(rng, -2, 2) for _ in range(3)) for _ in range(4)]
                vol = det3(*[[vs[i][j] - vs[0][j] for j in range(3)] for i in (1, 2, 3)])
                if abs(vol) >= 1:
                    break
            tris = tetra_tris(vs)
            kind = "tetra"
        tris = [tuple(tuple(p[i] + offset[i] for i in range(3)) for p in t) for t in tris]
        return kind, tris

    solids, kinds = [], []
    k1, t1 = rand_body((Fr(0), Fr(0), Fr(0)))
    solids.append(t1); kinds.append(k1)
    if rng.random() < 0.35:
        k2, t2 = rand_body((Fr(12), Fr(rng.randint(-2, 2)), Fr(0)))    # far enough to be disjoint (bodies span < 10)
        solids.append(t2); kinds.append(k2)
    cavities = []
    if kinds[0] == "box" and rng.random() < 0.8:
        xs = [sorted({p[i] for t in solids[0] for p in t}) for i in range(3)]
        l = [xs[i][0] + (xs[i][-1] - xs[i][0]) / 4 for i in range(3)]
        u = [xs[i][0] + (xs[i][-1] - xs[i][0]) * 3 / 4 for i in range(3)]
        cavities.append(box_tris(l, u))
        kinds.append("cavity")
    allp = [p for body in solids for t in body for p in t]
    lo = [min(p[i] for p in allp) for i in range(3)]
    hi = [max(p[i] for p in allp) for i in range(3)]
    rows = []
    for _ in range(ctx.scale(40, 80)):
        rows.append([str(lo[i] - Fr(1, 2) + Fr(rng.randint(0, 64), 64) * (hi[i] - lo[i] + 1)) for i in range(3)])
    # near the faces: centroid of a face moved along the (un-normalised) normal by a small multiple
    for body in solids + cavities:
        for t in rng.sample(body, min(4, len(body))):
            a, b, c_ = t
            n = [(b[(i + 1) % 3] - a[(i + 1) % 3]) * (c_[(i + 2) % 3] - a[(i + 2) % 3]) - (b[(i + 2) % 3] - a[(i + 2) % 3]) * (c_[(i + 1) % 3] - a[(i + 1) % 3])
                 for i in range(3)]
            cen = [(a[i] + b[i] + c_[i]) / 3 for i in range(3)]
            for s in (Fr(1, 64), Fr(-1, 64), Fr(1, 8), Fr(-1, 8)):
                rows.append([str(Fr(float(cen[i] + s * n[i]))) for i in range(3)])
    return dict(stream="geomextra", kind="mesh", id=idx, kinds=kinds, seed=rng.randrange(10 ** 6),
                solids=[[[[str(x) for x in p] for p in t] for t in body] for body in solids],
                cavities=[[[[str(x) for x in p] for p in t] for t in body] for body in cavities], rows=rows)


def _tri_tokens(body):
    return common.lst([" ".join(common.q(Fr(x)) for p in t for x in p) for t in body])


def mesh_lines(case):
    head = f"mesh {common.lst(case['solids'], _tri_tokens)} {common.lst(case['cavities'], _tri_tokens)} z"
    return [f"{head} {env_tokens({'z': [Fr(a) for a in r]})}" for r in case["rows"]]


def mesh_impl(case):
    tp = common.use_repo()
    import random
    import torch
    rnd = random.Random(case["seed"])
    verts, index, faces = [], {}, []
    for body in case["solids"] + case["cavities"]:
        for t in body:
            f = []
            for p in t:
                key = tuple(p)
                if key not in index:
                    index[key] = len(verts)
                    verts.append([float(Fr(x)) for x in p])
                f.append(index[key])
            if rnd.random() < 0.3:
                f = [f[0], f[2], f[1]]          # scrambled winding: the constructor has to repair it
            r = rnd.randrange(3)
            faces.append(f[r:] + f[:r])
    rnd.shuffle(faces)
    try:
        from torchphysics.problem.domains.domain3D.trimesh_polyhedron import TrimeshPolyhedron
        dom = TrimeshPolyhedron(_space(tp, ["z"]), vertices=verts, faces=faces)
        pts = tp.spaces.Points(torch.tensor([[float(Fr(a)) for a in r] for r in case["rows"]], dtype=torch.float64), _space(tp, ["z"]))
        res = dom._contains(pts)
    except Exception as e:  # noqa
        return dict(error=f"{type(e).__name__}: {str(e)[:200]}")
    return dict(bools=[bool(b) for b in res.reshape(-1).tolist()], shape=tuple(res.shape))


# ------------------------------------------------------------------------------------------------------------------

GEN = {"point": gen_point_case, "rot3": gen_rot3_case, "mesh": gen_mesh_case}
LINES = {"point": point_lines, "rot3": rot3_lines, "mesh": mesh_lines}
IMPL = {"point": point_impl, "rot3": rot3_impl, "mesh": mesh_impl}


def _decided(kind, reply):
    """(model answer or None, decided with margin?)"""
    t = reply.split()
    if t[0] == "none" or t[0].startswith("bad-op"):
        return None, False
    b = t[0] == "1"
    if kind == "point":
        pm = Fr(t[1]) if t[1] != "none" else None
        dm = None if t[2] == "none" else (Fr(10 ** 9) if t[2] == "inf" else Fr(t[2]))
        return b, (pm is not None and dm is not None and pm > POINT_MARGIN and dm > MARGIN)
    if t[1] == "none":
        return b, False
    return b, Fr(t[1]) > (MESH_MARGIN if kind == "mesh" else MARGIN)


def run_cases(rep, cases):
    lines, spans = [], []
    for cs in cases:
        ls = LINES[cs["kind"]](cs)
        spans.append((len(lines), len(ls)))
        lines += ls
    replies = common.run_driver("C05", lines)
    for cs, (a, n) in zip(cases, spans):
        kind = cs["kind"]
        rep.count("extra:" + kind)
        if kind == "mesh":
            for kd in cs["kinds"]:
                rep.count("mesh-body:" + kd)
        if kind == "point":
            rep.count("point-factors:%d%s" % (len(cs["points"]), "+domain" if cs["rest"] else ""))
        res = IMPL[kind](cs)
        brief = {k_: v_ for k_, v_ in cs.items() if k_ != "rows"}
        rep.case(dict(case=brief, rows=len(cs["rows"])), True,
                 sample=dict(case=brief, first_query=cs["rows"][0], implementation=(res.get("bools") or [res])[0], model=replies[a]),
                 kind="extra-" + kind)
        one = lambda i: dict(cs, rows=[cs["rows"][i]])   # noqa: E731
        if "error" in res:
            if all(r.startswith("none") for r in replies[a:a + n]):
                rep.count("both-reject")
                continue
            rep.fail(f"_contains raised {res['error']} on a well-formed {kind} domain", dict(cs, rows=cs["rows"][:2]))
            continue
        if res["shape"] != (len(cs["rows"]), 1):
            rep.fail(f"_contains returned shape {res['shape']} for {len(cs['rows'])} rows (one truth value per row expected)",
                     dict(cs, rows=cs["rows"][:2]))
            continue
        for i, (got, rl) in enumerate(zip(res["bools"], replies[a:a + n])):
            b, decided = _decided(kind, rl)
            if b is None:
                rep.disagree(f"drivers/C05.lean {kind}: the model rejects an input the implementation accepts", one(i), got, rl)
                continue
            if not decided:
                rep.count("within-margin(skipped)")
                continue
            rep.count("decided-with-margin")
            rep.count(f"{kind}:{'inside' if b else 'outside'}")
            if got != b:
                rep.fail(f"{kind}: the membership test answers {got} but the point is {'inside' if b else 'outside'} the denoted set "
                         f"(exact evaluation, model reply `{rl}`)", one(i))


def run_stream(ctx, rep):
    cases = []
    for i in range(ctx.scale(20, 400)):
        cases.append(gen_point_case(ctx, i))
    for i in range(ctx.scale(12, 250)):
        cases.append(gen_rot3_case(ctx, i))
    for i in range(ctx.scale(12, 250)):
        cases.append(gen_mesh_case(ctx, i))
    run_cases(rep, cases)


def replay(ctx, rep, inp):
    run_cases(rep, [inp])
