"""C15 — static and adaptive samplers follow their documented state machines.

Correspondence (exact): seeded call histories (sample calls with device arguments, make_static / re-staticising
with arbitrary intervals, read-only questions about the sampler in between; adaptive calls with loss vectors of dyadic rationals incl. ties, constant vectors,
missing loss, wrong length) are executed on the real samplers and on the Lean model (drivers/C15.lean);
the sequence of returned point sets is canonicalised to ids (static) resp. row origins (adaptive) and compared.
Property oracles (independent of the model) judge every case directly on the implementation's outputs."""
import json
import math
from fractions import Fraction
from unittest import mock

import common
from common import q, lst

DEN = 64          # losses are m/64
RDEN = 16         # ratios r/16, injected thresholds u/16


# ------------------------------------------------------------------------------------------
# observation helpers (recording subclasses created by the harness; nothing in /repo is touched)

def _recording_sampler(cls):
    """subclass of a sampler class that records every set it hands out and the device it was asked for"""

    def sample_points(self, params=None, device="cpu", **kw):
        tp = common.use_repo()
        if params is None:
            params = tp.spaces.Points.empty()
        p = cls.sample_points(self, params, device=device, **kw)
        self.rec_draws.append(p.as_tensor.detach().clone())
        self.rec_devs.append(device)
        return p

    return type("Rec" + cls.__name__, (cls,), dict(sample_points=sample_points))


def _recording_domain(cls):
    def sample_random_uniform(self, n=None, d=None, params=None, device="cpu"):
        tp = common.use_repo()
        if params is None:
            params = tp.spaces.Points.empty()
        self.rec_depth = getattr(self, "rec_depth", 0) + 1
        try:
            p = cls.sample_random_uniform(self, n=n, d=d, params=params, device=device)
        finally:
            self.rec_depth -= 1
        if self.rec_depth == 0:     # the density branch of a product domain calls itself again: record the outer call only
            self.rec_draws.append(p.as_tensor.detach().clone())
        return p

    return type("Rec" + cls.__name__, (cls,), dict(sample_random_uniform=sample_random_uniform))


def _stamp_sampler_class(tp, torch):
    class Stamp(tp.samplers.PointSampler):
        """user-written sampler: draw number in column 0, row index in column 1"""

        def __init__(self, n, space):
            super().__init__(n_points=n)
            self.space, self.calls = space, 0

        def sample_points(self, params=tp.spaces.Points.empty(), device="cpu", **kw):
            t = torch.zeros(self.n_points, 2, device=device)
            t[:, 0] = self.calls
            t[:, 1] = torch.arange(self.n_points)
            self.calls += 1
            return tp.spaces.Points(t, self.space)

    return Stamp


def _devices(torch):
    """every legal spelling of the devices of this machine (CPU only).  Note torch.device("cpu") != torch.device("cpu:0")
    although both name the same memory: a state machine that keys anything on the device argument shows here."""
    return {0: "cpu", 1: torch.device("cpu"), 2: "cpu:0", 3: torch.device("cpu", 0)}


def _interval_arg(case, k):
    k = _ival(k)
    return float(k) if case.get("float_iv") and k != math.inf else k


def _make_static(tp, case, sampler, k, form="make"):
    """the ways a static sampler comes into being / is re-staticised"""
    if form == "ctor":
        return tp.samplers.StaticSampler(sampler, _interval_arg(case, k))
    if form == "default" and k == "inf":
        return sampler.make_static()                       # default argument = math.inf
    if form == "kw":
        return sampler.make_static(resample_interval=_interval_arg(case, k))
    return sampler.make_static(_interval_arg(case, k))


def _ival(k):
    return math.inf if k == "inf" else k


def _make_underlying(case, tp, torch):
    X = tp.spaces.R2("x")
    n = case["n"]
    u = case["under"]
    if u == "stamp":
        cls = _recording_sampler(_stamp_sampler_class(tp, torch))
        s = cls(n, X)
    elif u == "empty":
        cls = _recording_sampler(tp.samplers.EmptySampler)
        s = cls()
    elif u == "empty_cls":
        cls = _recording_sampler(tp.samplers.EmptySampler)
        s = cls()          # placeholder for the recorder fields; the sampler under test is PointSampler.empty()
    else:
        rect = tp.domains.Parallelogram(X, [0, 0], [2, 0], [0, 1])
        if u == "uniform":
            s = _recording_sampler(tp.samplers.RandomUniformSampler)(rect, n_points=n)
        elif u == "uniform_pdep":     # disc whose radius depends on the parameter q that every call hands in (other values each time)
            disc = tp.domains.Circle(X, [0.0, 0.0], lambda q: q + 0.5)
            s = _recording_sampler(tp.samplers.RandomUniformSampler)(disc, n_points=n)
        elif u == "gauss":
            s = _recording_sampler(tp.samplers.GaussianSampler)(rect, n, [1.0, 0.5], 0.4)
        elif u == "lhs":
            s = _recording_sampler(tp.samplers.LHSSampler)(rect, n)
        elif u == "prod":
            T = tp.spaces.R1("t")
            a = tp.samplers.RandomUniformSampler(rect, n_points=n)
            b = tp.samplers.RandomUniformSampler(tp.domains.Interval(T, 0, 1), n_points=2)
            s = _recording_sampler(tp.samplers.ProductSampler)(a, b)
        elif u == "concat":
            a = tp.samplers.RandomUniformSampler(rect, n_points=n)
            b = tp.samplers.GridSampler(rect, n_points=3)
            s = _recording_sampler(tp.samplers.ConcatSampler)(a, b)
        else:
            raise ValueError(u)
    s.rec_draws, s.rec_devs = [], []
    return s


# ------------------------------------------------------------------------------------------
# static / non-static histories

def run_static(case):
    """execute the history on the real sampler; returns the canonical text (same format as the driver's reply)
    and the list of property failures found by the direct oracle"""
    tp = common.use_repo()
    import torch
    torch.manual_seed(case.get("tseed", 0))
    DEV = _devices(torch)
    under = _make_underlying(case, tp, torch)
    cur = under
    start = case["start"]
    k = None                       # interval in effect; None = not static
    if case["under"] == "empty_cls":
        cur = tp.samplers.PointSampler.empty()          # the library's own empty static sampler (interval inf)
        k = "inf"
    elif start[0] == "static":
        cur = _make_static(tp, case, cur, start[1], start[2] if len(start) > 2 else "make")
        k = start[1]
    P1 = tp.spaces.Points(torch.tensor([[0.25]]), tp.spaces.R1("p"))   # a parameter row some calls pass along
    empty = case["n"] == 0
    seen = []                      # distinct returned sets, in order of first appearance
    since = []                     # ids returned since the sampler became static
    f0 = 0                         # number of distinct sets returned before the sampler became static
    spec_checks = []               # (op index, call number, f0, interval, ids since static, returned id): judged by Lean's specNext
    prev = None
    toks, problems = [], []
    ncall = 0
    for j, op in enumerate(case["ops"]):
        if op[0] == "q":
            _query(tp, torch, cur, op[1])
            continue
        if op[0] == "m":
            was_static = cur.is_static
            cur = _make_static(tp, case, cur, op[1], "ctor" if (len(op) > 2 and not was_static) else
                               ("default" if len(op) > 2 else "make"))
            if not cur.is_static:
                problems.append((j, "make_static did not return a static sampler"))
            if not was_static:
                since = []
                f0 = len(seen)
            k = op[1]
            continue
        d = op[1]
        before = len(under.rec_draws)
        ncall += 1
        try:
            if case["under"] == "uniform_pdep":
                qv = [((7 * j) % 40 + 1) / 8, ((11 * j + 3) % 40 + 1) / 8]
                out = cur.sample_points(tp.spaces.Points(torch.tensor([[v] for v in qv]), tp.spaces.R1("q")), device=DEV[d])
            elif len(op) > 2 and op[2]:          # with a parameter row (positional or by keyword)
                out = cur.sample_points(P1, DEV[d]) if op[2] == 1 else cur.sample_points(device=DEV[d], params=P1)
            elif d == 0 and case.get("default_dev") and j % 2 == 0:
                out = cur.sample_points()
            else:
                out = cur.sample_points(device=DEV[d])
        except Exception as e:  # noqa: a sample call of a valid history must not raise
            problems.append((j, f"sample call {ncall} raised {type(e).__name__}: {e}"))
            toks.append("raised")
            break
        t = out.as_tensor.detach().clone()
        drawn = len(under.rec_draws) > before
        dev_ok = all(torch.device(x) == torch.device(DEV[d]) for x in under.rec_devs[before:])
        on_dev = t.device.type == torch.device(DEV[d]).type
        if empty:
            if len(out) != 0:
                problems.append((j, f"sample call {ncall}: an empty sampler returned {len(out)} rows"))
            toks.append("E")
            continue
        ident = None
        for i in range(len(seen) - 1, -1, -1):
            if seen[i].shape == t.shape and torch.equal(seen[i], t):
                ident = i
                break
        fresh = ident is None
        if fresh:
            ident = len(seen)
            seen.append(t)
        if fresh:
            # the device the underlying sampler was asked for when it produced this set -- wherever that draw happened (in this
            # call, as coded, or earlier): the trace does not depend on the internal order of calls
            src = [i for i in range(len(under.rec_draws) - 1, -1, -1)
                   if under.rec_draws[i].shape == t.shape and torch.equal(under.rec_draws[i], t)]
            dev_ok = bool(src) and torch.device(under.rec_devs[src[0]]) == torch.device(DEV[d])
        toks.append((f"{ident}@{d if dev_ok else 'X'}" if fresh else f"{ident}") + f":{d if on_dev else 'X'}")
        # ---- property oracle, directly on what was returned
        if case["under"] == "uniform_pdep":
            bad = [tuple(round(v, 4) for v in r) for r in t.tolist() if math.hypot(r[0], r[1]) > r[2] + 0.5 + 1e-5]
            if bad:
                problems.append((j, f"sample call {ncall}: returned row {bad[0]} lies outside the domain at the parameter value it carries (last column)"))
        if len(out) != len(seen[0]):
            problems.append((j, f"sample call {ncall} returned {len(out)} rows, the first call {len(seen[0])}"))
        if not on_dev:
            problems.append((j, f"sample call {ncall}: returned set is on {t.device}, requested {DEV[d]}"))
        if k is None:
            if not fresh:
                problems.append((j, f"non-static sampler: sample call {ncall} returned the same point set as an earlier call "
                                    f"(set #{ident}); every call must draw fresh points"))
        else:
            if not since:
                expect_cached = False
                why = "first call of the static sampler"
            else:
                uses = 1
                while uses < len(since) and since[-1 - uses] == since[-1]:
                    uses += 1
                expect_cached = (k == "inf") or uses < max(k, 1)
                why = f"current set #{since[-1]} has been returned {uses} consecutive time(s), resample_interval={k}"
            if expect_cached and (fresh or ident != since[-1] or not torch.equal(t, prev)):
                problems.append((j, f"static sampler: sample call {ncall} returned "
                                    f"{'a fresh set' if fresh else 'set #%d' % ident} but {why}: the identical set must be returned"))
            if not expect_cached and not fresh:
                problems.append((j, f"static sampler: sample call {ncall} returned the old set #{ident} again but {why}: "
                                    f"a fresh set must be drawn"))
            spec_checks.append((j, ncall, f0, k, list(since), ident))
            since.append(ident)
        if fresh and not any(dr.shape == t.shape and torch.equal(dr, t) for dr in reversed(under.rec_draws)):
            problems.append((j, f"sample call {ncall} returned a new point set that is not a set drawn from the underlying sampler"))
        prev = t
    return dict(text=" ".join(toks), problems=problems, spec_checks=spec_checks)


QUERIES = ["len", "bool", "repr", "is_static/is_adaptive", "iter", "len(product)", "len(concat)", "len(append)",
           "PeriodicCondition(non_periodic_sampler=s)", "AdaptiveWeightsCondition(sampler=s)", "set_length"]


def _query(tp, torch, s, kind):
    """a read-only question about the sampler (what user code and the library itself ask between draws);
    whatever it answers or raises, it is not a use of the point set"""
    try:
        if kind == 0:
            len(s)
        elif kind == 1:
            bool(s)
        elif kind == 2:
            repr(s), str(s)
        elif kind == 3:
            s.is_static, s.is_adaptive
        elif kind == 4:
            iter(s)
        elif kind in (5, 6, 7):
            X = tp.spaces.R2("y")
            other = tp.samplers.RandomUniformSampler(tp.domains.Parallelogram(X, [0, 0], [1, 0], [0, 1]), n_points=2)
            comp = (s * other) if kind == 5 else (s + other) if kind == 6 else s.append(other)
            len(comp)
            len((other * s) if kind == 5 else (other + s) if kind == 6 else other.append(s))
        elif kind in (8, 9):
            X, T, U = tp.spaces.R2("x"), tp.spaces.R1("t"), tp.spaces.R1("u")
            model = tp.models.FCN(X * T, U, hidden=(2,))
            if kind == 8:
                tp.conditions.PeriodicCondition(model, tp.domains.Interval(T, 0, 1), lambda u_left, u_right: u_left - u_right,
                                                non_periodic_sampler=s)
            else:
                tp.conditions.AdaptiveWeightsCondition(model, s, lambda u: u)
        elif kind == 10:
            s.set_length(len(s))      # fixes what len() reports (to its present value); nothing else
    except Exception:  # noqa: e.g. len() of a density sampler is unknown, adaptive weights need a static sampler
        pass


def static_line(case):
    st = case["start"]
    start = "plain" if st[0] == "plain" else f"static {st[1]}"
    if case["under"] == "empty_cls":
        start = "static inf"
    ops = " ".join(f"{o[0]} {o[1]}" for o in case["ops"])
    return f"static {0 if case['n'] == 0 else 1} {start} {len(case['ops'])} {ops}".rstrip()


def canon_model_static(case, reply):
    if case["n"] == 0 and not reply.startswith(("bad-op", "err")):
        return " ".join("E" for _ in reply.split())
    return reply


# ------------------------------------------------------------------------------------------
# adaptive samplers

def _make_domain(case, tp, torch):
    X = tp.spaces.R2("x")
    kind = case["dom"]
    if kind == "rect":
        dom = _recording_domain(tp.domains.Parallelogram)(X, [0.5, -1], [2.5, -1], [0.5, 0.5])
        inside = lambda p: (0.5 - 1e-5 <= p[0] <= 2.5 + 1e-5) and (-1 - 1e-5 <= p[1] <= 0.5 + 1e-5)
    elif kind == "circle":
        dom = _recording_domain(tp.domains.Circle)(X, [1.0, 2.0], 1.5)
        inside = lambda p: math.hypot(p[0] - 1.0, p[1] - 2.0) <= 1.5 + 1e-5
    elif kind == "pcircle":       # disc whose radius depends on the parameter q handed in with `params=`
        dom = _recording_domain(tp.domains.Circle)(X, [0.0, 0.0], lambda q: q + 0.5)
        inside = lambda p: math.hypot(p[0], p[1]) <= p[2] + 0.5 + 1e-5          # at the parameter value the row carries
    elif kind == "sphere":
        X = tp.spaces.R3("x")
        dom = _recording_domain(tp.domains.Sphere)(X, [0.0, 1.0, -1.0], 2.0)
        inside = lambda p: math.sqrt(p[0] ** 2 + (p[1] - 1.0) ** 2 + (p[2] + 1.0) ** 2) <= 2.0 + 1e-5
    elif kind in ("prodbox", "depdisc"):
        T = tp.spaces.R1("t")
        from torchphysics.problem.domains.domainoperations.product import ProductDomain
        P = _recording_domain(ProductDomain)
        if kind == "prodbox":     # fixed rectangle x time interval
            dom = P(tp.domains.Parallelogram(X, [0, 0], [2, 0], [0, 1]), tp.domains.Interval(T, 0, 1.5))
            inside = lambda p: (-1e-5 <= p[0] <= 2 + 1e-5) and (-1e-5 <= p[1] <= 1 + 1e-5) and (-1e-5 <= p[2] <= 1.5 + 1e-5)
            vol = 3.0
        else:                     # disc whose radius grows in time: the first factor depends on the second one
            dom = P(tp.domains.Circle(X, [0, 0], lambda t: t + 1), tp.domains.Interval(T, 0, 1))
            inside = lambda p: (-1e-5 <= p[2] <= 1 + 1e-5) and math.hypot(p[0], p[1]) <= p[2] + 1 + 1e-5
            vol = 7 * math.pi / 3
        if case.get("setvol"):
            dom.set_volume(vol)
    else:
        raise ValueError(kind)
    dom.rec_draws = []
    return dom, inside


def _loss_tensor(torch, case, ms, dtype):
    """the loss vector of a call: m/64, or (scale = [offset, spread]) offset + spread * m/64 rounded to the tensor's dtype;
    returns the tensor and its entries as exact rationals (every float is one)"""
    if case.get("scale"):
        off, spread = case["scale"]
        t = torch.tensor([off + spread * (m / DEN) for m in ms], dtype=torch.float64).to(dtype)
    else:
        t = torch.tensor([m / DEN for m in ms], dtype=dtype)
    return t, [Fraction(v) for v in t.to(torch.float64).tolist()]


def _fmt(x):
    return str(x) if x.denominator <= 1024 else repr(float(x))


def _ratio_of(case):
    """the resample_ratio exactly as the sampler receives it (a double)"""
    return Fraction(float(Fraction(case["ratio"])))


def _margin(case, lo, hi, factor, exact):
    """bound for the floating-point error of `min + (max - min) * factor` as torch evaluates it (unit roundoff u of the loss
    dtype: difference, product, conversion of the factor, sum), times 4.  0 where the arithmetic is exact (dyadic m/64 losses
    with dyadic k/16 factors): there ties loss == threshold are decided exactly."""
    if exact:
        return Fraction(0)
    u = Fraction(1, 2 ** 53) if case.get("f64") else Fraction(1, 2 ** 24)
    f = max(abs(factor), 1)
    return 4 * u * (4 * (hi - lo) * f + max(abs(lo), abs(hi)))


def run_adaptive(case):
    tp = common.use_repo()
    import torch
    torch.manual_seed(case.get("tseed", 0))
    rnd = case["kind"] == "adaptr"
    dom, inside = _make_domain(case, tp, torch)
    filt = None
    if case.get("filter"):
        filt = lambda x: x[:, 0] > 1.0
    kw = dict(n_points=case["n"]) if not case.get("density") else dict(density=case["density"])
    if rnd:
        s = tp.samplers.AdaptiveRandomRejectionSampler(dom, filter_fn=filt, **kw)
    else:
        s = tp.samplers.AdaptiveThresholdRejectionSampler(dom, float(Fraction(case["ratio"])), filter_fn=filt, **kw)
    dtype = torch.float64 if case.get("f64") else torch.float32
    DEV = _devices(torch)
    palette = case.get("devs") or [0]
    extra = {}
    Q = tp.spaces.R1("q")

    def params_of(tj):
        """two parameter rows (n points per row): the same in every call, or (pseq) other values in every call"""
        if case.get("pseq"):
            a, b = case["pseq"][tj % len(case["pseq"])]
            return [a / 8, b / 8]
        return [0.5, 1.5]
    direct = not case.get("filter")            # draws of the domain are the fresh sample, row by row
    problems, texts, model_calls = [], [], []
    n0 = None
    prev = None                                 # previous returned tensor
    prev_org = None
    all_rows = set()
    undecided = unobserved = accepted_malformed = False
    orig_rand_like, orig_rand = torch.rand_like, torch.rand
    tj = -1                                      # number of the sample_points call (queries in between do not count)
    for j, call in enumerate(case["calls"]):
        if call is not None and "q" in call:
            _query(tp, torch, s, call["q"])      # len(), repr(), ... of the adaptive sampler: not a call
            continue
        tj += 1
        if call is not None and "loss" not in call:
            # the number of points of a density sampler is only known after its first draw: expand the loss vector now
            import random
            call = dict(call, loss=_gen_loss(random.Random(f"loss:{call['loss_seed']}"), n0 or 1))
        loss_t = None
        if call is None:
            loss = None
        else:
            loss_t, loss = _loss_tensor(torch, case, call["loss"], dtype)
            if case.get("grad"):
                loss_t.requires_grad_(True)      # as a condition passes it: the un-detached loss of the last step
        pcur = None
        if case.get("params"):
            pcur = params_of(tj)
            extra["params"] = tp.spaces.Points(torch.tensor([[v] for v in pcur]), Q)
        dev = DEV[palette[tj % len(palette)]]
        if palette != [0] or tj % 3:
            extra["device"] = dev
        else:
            extra.pop("device", None)
        us = []           # candidates for the per-row thresholds: uniform draws with one value per loss entry made during the
        #                   call OUTSIDE the domain's own sampling (wherever in the call: before or after the candidate points,
        #                   torch.rand or torch.rand_like, any dtype/device arguments)
        injected = [False]

        def _thresholds(u):
            """record (and, if the case prescribes them, replace by the injected dyadic values) a threshold draw"""
            if loss is None or getattr(dom, "rec_depth", 0) > 0 or u.numel() != len(loss):
                return u          # a draw of the domain's sampling, or not one value per loss entry
            if call.get("u") is not None and len(call["u"]) == u.numel() and not us:
                u = torch.tensor([float(Fraction(v, RDEN)) for v in call["u"]], dtype=u.dtype, device=u.device).reshape(u.shape)
                injected[0] = True
            us.append(u.detach().clone().reshape(-1))
            return u

        def rand_like(x, *a, **k):
            return _thresholds(orig_rand_like(x, *a, **k))

        def rand(*a, **k):
            return _thresholds(orig_rand(*a, **k))

        before = len(dom.rec_draws)
        try:
            with mock.patch("torch.rand_like", rand_like), mock.patch("torch.rand", rand):
                if loss is None:
                    out = s.sample_points(**extra) if j % 2 else s.sample_points(unreduced_loss=None, **extra)
                elif case.get("pos"):
                    out = s.sample_points(loss_t, **extra)
                else:
                    out = s.sample_points(unreduced_loss=loss_t, **extra)
        except Exception as e:  # noqa: only a loss vector of the wrong length may be rejected
            texts.append("err:shape")
            if loss is None or len(loss) == (n0 or len(loss)):
                problems.append((j, f"adaptive call {tj + 1} raised {type(e).__name__}: {e}"))
            model_calls.append(_model_call(rnd, loss, [Fraction(0)] * len(loss or [])))
            continue
        t = out.as_tensor.detach().clone()
        if n0 is None:
            n0 = t.shape[0]
        if loss is not None and prev is not None and len(loss) != n0:
            # malformed call (outside the property) that the implementation did not reject, e.g. because a loss vector of
            # length 1 broadcasts: nothing to judge, the history ends here (the generator puts such a call last)
            texts.append("err:shape")
            model_calls.append(_model_call(rnd, loss, [Fraction(0)] * len(loss)))
            accepted_malformed = True
            break
        uvals = None
        if rnd and loss is not None and prev is not None:
            if len(us) == 1:
                uvals = [Fraction(float(v)) for v in us[0].tolist()]
            else:
                # none or several candidates: the thresholds of this call are not observable.  Only what the statement
                # determines without them is judged (rows of maximal loss / constant loss are kept, count, kept rows are the old
                # rows, replaced rows are fresh rows inside the domain); the keep probability is covered by `adaptr_stat`
                unobserved = True
        model_calls.append(_model_call(rnd, loss, uvals))
        # ---- property oracles
        if t.shape[0] != n0:
            problems.append((j, f"adaptive call {tj + 1} returned {t.shape[0]} points, the first call {n0}: the number of points must stay constant"))
            texts.append("?")
            break           # the history has failed here; later calls cannot be judged against a set of another size
        rows = [tuple(r) for r in t.tolist()]
        same = [prev is not None and rows[i] == tuple(prev[i].tolist()) for i in range(n0)]
        draw = None
        if direct and len(dom.rec_draws) == before + 1 and dom.rec_draws[-1].shape[0] == n0:
            d = dom.rec_draws[-1]
            if d.shape == t.shape:
                draw = [tuple(r) for r in d.tolist()]
            elif pcur is not None and n0 % len(pcur) == 0 and d.shape[1] + 1 == t.shape[1]:
                # the fresh sample = the domain's points joined with the parameter row they were drawn for
                per = n0 // len(pcur)
                draw = [tuple(r) + (float(torch.tensor(pcur[i // per], dtype=t.dtype)),) for i, r in enumerate(d.tolist())]
        # every returned row -- kept or replaced -- must lie in the domain at the parameter value it is returned with
        for i in range(n0):
            if not inside(rows[i]):
                what = "kept" if same[i] else "replaced"
                problems.append((j, f"adaptive call {tj + 1}: returned row {i} = {tuple(round(v, 4) for v in rows[i])} ({what}) lies outside the "
                                    f"domain" + (" at the parameter value it carries (last column)" if pcur is not None else "")))
                break
        # expectation per row: "keep" / "replace" / "either" (not decidable from what was observed)
        if prev is None or loss is None:
            expect = ["replace"] * n0
        else:
            lo, hi = min(loss), max(loss)
            ratio = _ratio_of(case) if not rnd else None
            dyadic = not case.get("scale") and (injected[0] if rnd else ratio.denominator <= RDEN)
            expect = []
            for i in range(n0):
                if rnd and uvals is None:
                    # thresholds lie in [lo, hi): a row of maximal loss is always kept
                    expect.append("keep" if loss[i] == hi else "either")
                    continue
                factor = ratio if not rnd else uvals[i]
                thr = lo + (hi - lo) * factor
                # exact rational threshold; rows closer to it than the rounding error of torch's evaluation are not decidable
                if abs(loss[i] - thr) <= _margin(case, lo, hi, factor, exact=dyadic or hi == lo) and not (dyadic or hi == lo):
                    expect.append("either")
                    undecided = True
                else:
                    expect.append("keep" if loss[i] >= thr else "replace")
        org = []
        for i in range(n0):
            if expect[i] == "keep" and not same[i]:
                problems.append((j, f"adaptive call {tj + 1}: row {i} has previous loss {_fmt(loss[i])} >= threshold and must be kept, but it was replaced"))
            if expect[i] == "replace" and same[i]:
                why = "no loss was passed" if (prev is None or loss is None) else f"previous loss {_fmt(loss[i])} is below the threshold {_fmt(lo + (hi - lo) * (_ratio_of(case) if not rnd else uvals[i]))} (min {_fmt(lo)}, max {_fmt(hi)})"
                problems.append((j, f"adaptive call {tj + 1}: row {i} must be replaced by a fresh point ({why}) but it was kept"))
            if not same[i] and expect[i] != "keep":
                if rows[i] in all_rows:
                    problems.append((j, f"adaptive call {tj + 1}: replacement for row {i} is not a fresh point (it was returned before)"))
                if filt is not None and not rows[i][0] > 1.0:
                    problems.append((j, f"adaptive call {tj + 1}: replacement for row {i} = {rows[i]} violates the sampler's filter"))
            if same[i] and prev_org:
                org.append(prev_org[i])
            elif draw is not None:
                # which row of the fresh uniform sample is it?  (the model says: the row with the same index; any fresh point
                # inside the domain satisfies the property, so a different index is a correspondence matter only)
                src = [r for r in range(n0) if draw[r] == rows[i]]
                org.append((tj, i if i in src else (src[0] if src else "?")))
            else:
                org.append((tj, i))
        all_rows.update(rows)
        texts.append(" ".join(f"{a}.{b}" for a, b in org))
        prev, prev_org = t, org
    return dict(text=" | ".join(texts), problems=problems, calls=model_calls, n=n0, undecided=undecided, unobserved=unobserved,
                accepted_malformed=accepted_malformed)


STAT_LEVELS = [0, 16, 32, 48, 64]      # losses m/64: normalised loss 0, 1/4, 1/2, 3/4, 1
STAT_TOL = 0.08                        # Hoeffding: P(|freq - p| > 0.08) <= 2 exp(-2 * 2400 * 0.08^2) < 1e-13 per level


def run_adaptive_stat(case):
    """random variant WITHOUT intercepting any random draw: the same loss vector is passed `reps` times, a row counts as kept
    if it is unchanged; the keep frequency per loss level is compared with the documented probability (loss-min)/(max-min).
    Only a failing-input search / fallback for thresholds the recorder cannot see; the tolerance makes a false alarm on a
    correct sampler less likely than 1e-12 per run."""
    tp = common.use_repo()
    import torch
    torch.manual_seed(case.get("tseed", 0))
    dom, inside = _make_domain(dict(case, dom="rect"), tp, torch)
    n, reps = case["n"], case["reps"]
    s = tp.samplers.AdaptiveRandomRejectionSampler(dom, n_points=n)
    loss_m = [STAT_LEVELS[i % len(STAT_LEVELS)] for i in range(n)]
    dtype = torch.float64 if case.get("f64") else torch.float32
    loss, exact = _loss_tensor(torch, case, loss_m, dtype)
    lo, hi = min(exact), max(exact)
    pdoc = {m: (exact[STAT_LEVELS.index(m)] - lo) / (hi - lo) for m in STAT_LEVELS}     # from the values the tensor really holds
    problems = []
    prev = s.sample_points().as_tensor.detach().clone()
    kept = {m: 0 for m in STAT_LEVELS}
    total = {m: 0 for m in STAT_LEVELS}
    for r in range(reps):
        t = s.sample_points(unreduced_loss=loss).as_tensor.detach().clone()
        if t.shape != prev.shape:
            problems.append((0, f"adaptive call {r + 2} returned {t.shape[0]} points, the first call {prev.shape[0]}: the number of points must stay constant"))
            break
        same = (t == prev).all(dim=1).tolist()
        for i, m in enumerate(loss_m):
            total[m] += 1
            kept[m] += 1 if same[i] else 0
            if m == STAT_LEVELS[-1] and not same[i]:
                problems.append((0, f"random variant, call {r + 2}: row {i} has the maximal loss and must be kept (every threshold is below the maximum), but it was replaced"))
            if not same[i] and not inside(tuple(t[i].tolist())):
                problems.append((0, f"random variant, call {r + 2}: replacement for row {i} lies outside the domain"))
        prev = t
        if problems:
            break
    freq = {}
    if not problems:
        for m in STAT_LEVELS:
            f = kept[m] / max(1, total[m])
            freq[f"{float(pdoc[m]):.3f}"] = round(f, 4)
            if abs(f - float(pdoc[m])) > STAT_TOL:
                problems.append((0, f"random variant, loss vector {sorted(set(loss.tolist()))} ({'float64' if case.get('f64') else 'float32'}): rows with loss "
                                    f"{float(exact[STAT_LEVELS.index(m)])!r} (normalised {float(pdoc[m]):.3f}) were kept in {kept[m]} of {total[m]} calls "
                                    f"(frequency {f:.3f}); the documented keep probability is {float(pdoc[m]):.3f} (tolerance {STAT_TOL})"))
    return dict(text=f"keep frequencies (scale {case.get('scale')}) " + json.dumps(freq, sort_keys=True), problems=problems, line=None)


def _model_call(rnd, loss, uvals):
    if loss is None:
        return "none"
    s = "l " + lst(loss, q)
    if rnd:
        s += " " + lst(uvals if uvals is not None else [Fraction(0)] * len(loss), q)
    return s


def adaptive_line(case, res):
    n = res["n"] or case["n"]
    if case["kind"] == "adaptr":
        return f"adaptr {n} {len(res['calls'])} " + " ".join(res["calls"])
    return f"adapt {n} {q(_ratio_of(case))} {len(res['calls'])} " + " ".join(res["calls"])


# ------------------------------------------------------------------------------------------
# generators

def _gen_interval(rng):
    return rng.choice(["inf", 0, 1, 1, 2, 2, 3, 3, 4, 5, 7, rng.randint(1, 12)])


def gen_static(rng, big=False):
    under = rng.choice(["stamp"] * 6 + ["uniform"] * 3 + ["gauss", "lhs", "prod", "concat", "empty", "stamp0", "empty_cls", "uniform_pdep"])
    n = rng.choice([1, 2, 3, 5]) if under == "stamp" else rng.choice([2, 3, 6])
    if under in ("empty", "empty_cls"):
        n = 0
    if under == "stamp0":
        under, n = "stamp", 0
    start = ["plain"] if rng.random() < 0.3 else ["static", _gen_interval(rng)]
    if start[0] == "static":
        start.append(rng.choice(["make", "make", "kw", "ctor", "default" if start[1] == "inf" else "make"]))
    if under == "empty_cls":
        start = ["static", "inf", "make"]
    # the device spellings used within this history
    palette = rng.choice([[0], [0, 0, 1], [0, 2], [0, 2], [1, 3], [2], [3], [0, 1, 2, 3], [0, 1, 2, 3]])
    with_params = under == "stamp" and n > 0 and rng.random() < 0.15
    length = rng.randint(1, 60 if not big else 400)
    p_m = rng.choice([0.0, 0.0, 0.05, 0.15])
    p_q = rng.choice([0.0, 0.1, 0.1, 0.3])
    ops = []
    if p_q and rng.random() < 0.6:
        ops.append(["q", rng.randrange(len(QUERIES))])     # a question before the first draw
    for _ in range(length):
        x = rng.random()
        if x < p_m:
            ops.append(["m", _gen_interval(rng)] + ([1] if rng.random() < 0.3 else []))
        elif x < p_m + p_q:
            ops.append(["q", rng.randrange(len(QUERIES))])
        elif with_params:
            ops.append(["s", rng.choice(palette), rng.choice([0, 1, 2])])
        else:
            ops.append(["s", rng.choice(palette)])
    if not any(o[0] == "s" for o in ops):
        ops.append(["s", 0])
    return dict(kind="static", under=under, n=n, start=start, ops=ops, tseed=rng.randint(0, 10 ** 6),
                default_dev=rng.random() < 0.5, float_iv=rng.random() < 0.2)


def _gen_loss(rng, n):
    mode = rng.choice(["rand", "rand", "ties", "const", "two", "neg"])
    if mode == "rand":
        return [rng.randint(0, 512) for _ in range(n)]
    if mode == "ties":
        vals = [rng.randint(0, 8) * 16 for _ in range(3)]
        return [rng.choice(vals) for _ in range(n)]
    if mode == "const":
        return [rng.randint(0, 512)] * n
    if mode == "two":
        a, b = rng.randint(0, 100), rng.randint(0, 512)
        return [rng.choice([a, b]) for _ in range(n)]
    return [rng.randint(-512, 512) for _ in range(n)]


SCALES = [[0.0, 1e-12], [0.0, 1e-9], [0.0, 1e-6], [0.0, 1e-3], [0.0, 1e3], [0.0, 1e6], [1e3, 8e-3], [1e3, 1.0], [-1e3, 1e-2],
          [1e6, 1.0], [1.0, 1e-7], [5.0, 3e-5]]      # [offset, spread]: loss = offset + spread * m/64


def gen_adaptive(rng, rnd):
    n = rng.choice([1, 2, 3, 4, 5, 8, 13])
    ncalls = rng.randint(1, 14)
    case = dict(kind="adaptr" if rnd else "adapt", dom=rng.choice(["rect", "rect", "circle", "sphere"]), n=n,
                tseed=rng.randint(0, 10 ** 6), f64=rng.random() < 0.2)
    if not rnd:
        case["ratio"] = str(Fraction(rng.choice([-4, 0, 1, 2, 4, 4, 8, 8, 8, 12, 15, 16, 16, 20]), RDEN))
        if rng.random() < 0.2:
            case["ratio"] = rng.choice(["1/10", "3/10", "1/3", "9/10", "99/100", "1/1000"])   # not dyadic: judged with margin
    if rng.random() < 0.35:
        case["scale"] = rng.choice(SCALES)          # losses across scales and offsets (judged exactly up to the rounding margin)
        if case["scale"] in ([1e6, 1.0], [1.0, 1e-7], [5.0, 3e-5]):
            case["f64"] = True                      # float32 cannot resolve these spreads
    case["devs"] = rng.choice([[0], [0], [0, 1], [0, 2], [2, 3, 0, 1], [3]])
    case["pos"] = rng.random() < 0.2
    case["grad"] = rng.random() < 0.25
    r = rng.random()
    if r < 0.12:
        case["filter"] = True
        case["dom"] = "rect"
    elif r < 0.22:
        case["density"] = rng.choice([1.0, 2.5])
        case["dom"] = "rect"          # volume 3 -> 3 resp. 8 points
        n = case["n"] = {1.0: 3, 2.5: 8}[case["density"]]
    lazy = False
    if r >= 0.22 and r < 0.5:
        case["dom"] = rng.choice(["prodbox", "depdisc", "depdisc"])
        if rng.random() < 0.6:
            case["density"] = rng.choice([1.5, 2.0, 3.0])       # 4..22 points, count known after the first draw
            lazy = True
        if rng.random() < 0.4:
            case["setvol"] = True
    if r >= 0.5 and r < 0.7:
        case["params"] = True           # two parameter rows: 2n points, known after the first call
        lazy = True
        x = rng.random()
        if x < 0.75:
            case["dom"] = "pcircle"     # the domain depends on the parameter
        if x < 0.55 or x > 0.9:         # parameter VALUES that change from call to call (k/8)
            case["pseq"] = [[rng.randint(1, 40), rng.randint(1, 40)] for _ in range(ncalls)]
    elif r < 0.12 and rng.random() < 0.3:
        case["params"] = True           # filter x constant parameter rows
        lazy = True
    calls = []
    bad = rng.random() < 0.06 and not lazy
    for j in range(ncalls):
        x = rng.random()
        if j == 0 and x < 0.7 or x < 0.08:
            calls.append(None)
            continue
        if lazy:
            calls.append(dict(loss_seed=rng.randint(0, 10 ** 9)))
            continue
        m = n
        if bad and j > 0 and (rng.random() < 0.3 or j == ncalls - 1):
            m = rng.choice([n + 1, n + 2, max(1, n - 1)])
        loss = _gen_loss(rng, m)
        call = dict(loss=loss)
        if rnd:
            if rng.random() < 0.5:
                # injected thresholds (dyadic: float32 arithmetic exact), incl. exact ties loss == threshold
                lo, hi = min(loss), max(loss)
                us = []
                for v in loss:
                    if hi > lo and rng.random() < 0.3 and (v - lo) * RDEN % (hi - lo) == 0 and v < hi:
                        us.append((v - lo) * RDEN // (hi - lo))
                    else:
                        us.append(rng.randint(0, RDEN - 1))
                call["u"] = us
            else:
                call["u"] = None
        calls.append(call)
        if m != n:
            break           # a malformed call ends the history
    if rng.random() < 0.3:      # read-only questions between the calls
        mixed = []
        for c in calls:
            while rng.random() < 0.3:
                mixed.append(dict(q=rng.choice([0, 1, 2, 3, 4, 5, 6, 7])))
            mixed.append(c)
        calls = mixed
    case["calls"] = calls
    return case


FIXED = [
    dict(kind="static", under="stamp", n=2, start=["static", 1], ops=[["s", 0]] * 5),
    dict(kind="static", under="stamp", n=2, start=["static", 2], ops=[["s", 0]] * 7),
    dict(kind="static", under="stamp", n=3, start=["static", 3], ops=[["s", 0], ["s", 1]] * 20),
    dict(kind="static", under="uniform", n=4, start=["static", 5], ops=[["s", 0]] * 32),
    dict(kind="static", under="stamp", n=2, start=["static", "inf"], ops=[["s", 0]] * 30),
    dict(kind="static", under="stamp", n=2, start=["static", 0], ops=[["s", 0]] * 4),
    dict(kind="static", under="uniform", n=3, start=["plain"], ops=[["s", 0]] * 6),
    dict(kind="static", under="stamp", n=2, start=["plain"], ops=[["s", 0], ["s", 0], ["m", 3]] + [["s", 0]] * 8),
    dict(kind="static", under="stamp", n=2, start=["static", 5],
         ops=[["s", 0]] * 3 + [["m", 2]] + [["s", 0]] * 4 + [["m", 4]] + [["s", 1]] * 7 + [["m", "inf"]] + [["s", 0]] * 5),
    dict(kind="static", under="stamp", n=2, start=["static", "inf"], ops=[["s", 0]] * 4 + [["m", 1]] + [["s", 0]] * 3),
    dict(kind="static", under="uniform", n=3, start=["static", 2], ops=[["s", 0], ["s", 2]] * 4),
    dict(kind="static", under="stamp", n=2, start=["static", 3, "ctor"], ops=[["s", d] for d in (0, 1, 2, 3, 2, 0, 3, 1, 0, 2, 2, 1)]),
    dict(kind="static", under="uniform", n=3, start=["static", 2], ops=[["q", 0]] + [["s", 0]] * 5),
    dict(kind="static", under="stamp", n=2, start=["static", 3], ops=[["q", 5]] + [["s", 0]] * 7),
    dict(kind="static", under="stamp", n=2, start=["static", 3], ops=[["s", 0], ["q", 0], ["s", 0], ["q", 9], ["s", 0], ["s", 0], ["q", 8], ["s", 0]]),
    dict(kind="static", under="stamp", n=2, start=["plain"], ops=[["q", 0], ["s", 0], ["m", 2], ["q", 6], ["s", 0], ["s", 0], ["s", 0]]),
    dict(kind="adapt", dom="depdisc", n=5, density=3.0, ratio="1/2", calls=[None, dict(loss_seed=1), dict(loss_seed=2), None, dict(loss_seed=3)]),
    dict(kind="adapt", dom="depdisc", n=5, density=2.0, setvol=True, ratio="1/4", calls=[None, dict(loss_seed=4), dict(loss_seed=5)]),
    dict(kind="adaptr", dom="prodbox", n=5, density=4.0, calls=[None, dict(loss_seed=6), dict(loss_seed=7)]),
    dict(kind="adapt", dom="pcircle", n=4, ratio="1/2", params=True, pseq=[[1, 2], [40, 30], [2, 1], [24, 40]],
         calls=[None, dict(loss_seed=11), dict(loss_seed=12), dict(loss_seed=13)]),
    dict(kind="adaptr", dom="pcircle", n=4, params=True, pseq=[[1, 1], [40, 40], [8, 8]], calls=[None, dict(loss_seed=14), dict(loss_seed=15)]),
    dict(kind="adapt", dom="rect", n=5, ratio="1/2", scale=[0.0, 1e-9], calls=[None, dict(loss=[0, 64, 32, 16, 48]), dict(loss=[7, 7, 7, 7, 7])]),
    dict(kind="adapt", dom="rect", n=5, ratio="1/2", scale=[1e3, 8e-3], f64=True, calls=[None, dict(loss=[0, 64, 32, 16, 48])]),
    dict(kind="adapt", dom="circle", n=4, ratio="1/4", scale=[1e3, 8e-3], devs=[0, 2], calls=[None, dict(loss=[0, 512, 100, 300])]),
    dict(kind="adaptr", dom="rect", n=4, scale=[0.0, 1e-12], f64=True, calls=[None, dict(loss=[0, 64, 32, 16], u=[0, 15, 8, 4])]),
    dict(kind="adapt", dom="rect", n=5, ratio="1/2", calls=[None, dict(loss=[0, 64, 32, 16, 48]), dict(loss=[64] * 5), None,
                                                            dict(loss=[10, 10, 20, 20, 15])]),
    dict(kind="adapt", dom="circle", n=4, ratio="1", calls=[None, dict(loss=[0, 64, 32, 64])]),
    dict(kind="adapt", dom="rect", n=3, ratio="0", calls=[dict(loss=[1, 2, 3]), dict(loss=[1, 2, 3])]),
    dict(kind="adaptr", dom="rect", n=4, calls=[None, dict(loss=[0, 64, 32, 16], u=[0, 15, 8, 4]), dict(loss=[5, 5, 5, 5], u=[0, 3, 9, 15])]),
]


def gen_cases(ctx):
    rng = ctx.rng
    cases = [dict(c) for c in FIXED]
    # every interval 1..8 at lengths that end exactly on / one after / one before a block boundary, many cycles
    for k in range(1, ctx.scale(9, 17)):
        for cycles in (1, 2, ctx.scale(6, 25)):
            for extra in (-1, 0, 1):
                m = k * cycles + extra
                if m >= 1:
                    cases.append(dict(kind="static", under="stamp", n=2, start=["static", k], ops=[["s", 0]] * m))
    for _ in range(ctx.scale(1200, 14000)):
        cases.append(gen_static(rng))
    for _ in range(ctx.scale(0, 60)):
        cases.append(gen_static(rng, big=True))
    for _ in range(ctx.scale(350, 4000)):
        cases.append(gen_adaptive(rng, False))
    for _ in range(ctx.scale(350, 4000)):
        cases.append(gen_adaptive(rng, True))
    stat = [dict(), dict(scale=[0.0, 1e-9]), dict(scale=[1e3, 8e-3], f64=True), dict(scale=[1e3, 8e-3]), dict(scale=[0.0, 1e6]),
            dict(scale=[0.0, 1e-12], f64=True), dict(scale=[-1e3, 1e-2]), dict(scale=[1.0, 1e-7], f64=True)]
    for extra in stat[: ctx.scale(4, 8)]:
        cases.append(dict(kind="adaptr_stat", n=60, reps=200, tseed=rng.randint(0, 10 ** 6), **extra))
    return cases


# ------------------------------------------------------------------------------------------

def evaluate(case):
    if case["kind"] == "adaptr_stat":
        return run_adaptive_stat(case)
    if case["kind"] == "static":
        res = run_static(case)
        res["line"] = static_line(case)
    else:
        res = run_adaptive(case)
        res["line"] = adaptive_line(case, res)
    return res


def _truncate(case, j):
    c = dict(case)
    if case["kind"] == "adaptr_stat":
        return c
    if case["kind"] == "static":
        c["ops"] = case["ops"][: j + 1]
    else:
        c["calls"] = case["calls"][: j + 1]
    return c


def judge(rep, case, res, model_reply):
    kind = case["kind"]
    if kind == "adaptr_stat":
        rep.count("adaptive-random:keep-frequency-experiment (no interception)")
        rep.notes.append(res["text"])
        for j, p in res["problems"][:1]:
            rep.fail(p, case)
        return
    if kind == "static":
        rep.count("static:" + case["under"] + (":empty" if case["n"] == 0 else ""))
        rep.count("start:" + ("plain" if case["start"][0] == "plain" else f"static/{_bucket(case['start'][1])}"))
        nm = sum(1 for o in case["ops"] if o[0] == "m")
        rep.count("restatic:" + ("0" if nm == 0 else "1-2" if nm <= 2 else "3+"))
        rep.count("calls:" + _lenbucket(len(case["ops"])))
        devs = sorted({o[1] for o in case["ops"] if o[0] == "s"})
        rep.count("devices:" + ("one spelling" if len(devs) == 1 else
                                "cpu+torch.device(cpu)" if devs == [0, 1] else "spellings that are different torch.device objects"))
        if len(case["start"]) > 2:
            rep.count("static-created-by:" + case["start"][2] + (":float-interval" if case.get("float_iv") else ""))
        if any(o[0] == "s" and len(o) > 2 and o[2] for o in case["ops"]):
            rep.count("static:calls-with-params")
        nq = sum(1 for o in case["ops"] if o[0] == "q")
        rep.count("queries:" + ("0" if nq == 0 else "1-3" if nq <= 3 else "4+"))
        first_s = next((i for i, o in enumerate(case["ops"]) if o[0] == "s"), 0)
        if any(o[0] == "q" for o in case["ops"][:first_s]):
            rep.count("queries:before-first-draw")
        for o in case["ops"]:
            if o[0] == "q":
                rep.count("query:" + QUERIES[o[1]])
        model = canon_model_static(case, model_reply) if model_reply is not None else None
        what = "static/non-static history: drivers/C15.lean `static` (TPV.SamplerState.run) vs ids of the sets returned by the real sampler"
    else:
        rep.count(kind + ":" + case["dom"] + (":filter" if case.get("filter") else ":density" if case.get("density") else ":n_points")
                  + (":set_volume" if case.get("setvol") else ""))
        rep.count("adaptive-calls:" + _lenbucket(len(case["calls"])))
        rep.count("loss-scale:" + (f"offset {case['scale'][0]:g} spread {case['scale'][1]:g}" if case.get("scale") else "m/64")
                  + (" f64" if case.get("f64") else " f32"))
        if not kind == "adaptr":
            rep.count("ratio:" + ("dyadic" if _ratio_of(case).denominator <= RDEN else "not dyadic"))
        dv = sorted(set(case.get("devs") or [0]))
        rep.count("adaptive-devices:" + ("one spelling" if len(dv) == 1 else "several spellings"))
        if case.get("params"):
            rep.count("adaptive-params:" + ("values change between calls" if case.get("pseq") else "constant")
                      + (" x parameter-dependent domain" if case["dom"] == "pcircle" else " x independent domain")
                      + (" x filter" if case.get("filter") else ""))
        for flag in ("pos", "grad", "params"):
            if case.get(flag):
                rep.count("adaptive:" + {"pos": "loss passed positionally", "grad": "loss requires grad", "params": "with parameter rows"}[flag])
        if any(c is not None and "q" in c for c in case["calls"]):
            rep.count("adaptive:with-queries")
        if "err:shape" in res["text"]:
            rep.count("adaptive:wrong-length-loss")
        if res.get("undecided"):
            rep.count("adaptive:row-within-rounding-margin-of-threshold (case not compared exactly)")
        if res.get("accepted_malformed"):
            rep.count("adaptive:wrong-length-loss-not-rejected (outside the property, not judged)")
        model = model_reply
        what = f"adaptive history: drivers/C15.lean `{kind}` (TPV.SamplerState.adaptiveRun) vs row origins decoded from the real sampler's output"
    if res.get("unobserved"):
        # no canonical per-row comparison is possible; the structural oracle has judged the case, the law is judged by adaptr_stat
        rep.count("adaptive-random:thresholds-unobservable")
    elif model is not None and not res.get("undecided") and res["text"] != model:
        rep.disagree(what, case, res["text"], model)
    seen = set()
    for j, p in res["problems"]:
        if p in seen:
            continue
        seen.add(p)
        rep.fail(p, _truncate(case, j))
        break   # the first failing call of a history is the failing input


def _bucket(k):
    return "inf" if k == "inf" else str(k) if k <= 3 else "4+"


def _lenbucket(n):
    return "1-5" if n <= 5 else "6-20" if n <= 20 else "21-60" if n <= 60 else "61+"


def _nontrivial(case):
    if case["kind"] == "adaptr_stat":
        return True
    if case["kind"] == "static":
        return sum(1 for o in case["ops"] if o[0] == "s") >= 3 and case["n"] > 0
    real = [c for c in case["calls"] if c is None or "q" not in c]
    return sum(1 for c in real if c is not None) >= 1 and len(real) >= 2 and case["n"] >= 2


def run(ctx, rep, cases=None, oracle_only=False):
    rep.rule = ("seeded call histories; static: >= 3 sample calls on a non-empty sampler (intervals inf/0/1..12, plain or static start, "
                "re-staticising, device arguments, read-only questions such as len()/repr()/containing samplers' len() between and before "
                "the draws, stamped user sampler and real random samplers); adaptive (n_points and density; simple, product and "
                "dependent-product domains, with/without set_volume): >= 2 calls, >= 1 loss vector, "
                ">= 2 points (threshold and random variant, dyadic losses with ties/constant vectors, missing and wrong-length loss); "
                "distinct = distinct histories")
    cases = cases if cases is not None else gen_cases(ctx)
    results = [evaluate(c) for c in cases]
    replies = None
    failure = None
    if not oracle_only:
        try:
            idx = [i for i, r in enumerate(results) if r["line"] is not None]
            answers = common.run_driver("C15", [results[i]["line"] for i in idx])
            replies = [None] * len(results)
            for i, a in zip(idx, answers):
                replies[i] = a
        except common.DriverFailure as e:
            failure = e
    if failure is None and not oracle_only:
        # the documented rule as stated in Lean (`specNext`, the right-hand side of theorem static_history), evaluated by the
        # driver on the ids the IMPLEMENTATION returned: an oracle that does not go through the model's state machine
        checks = [(r, ch) for r in results for ch in r.get("spec_checks", [])]
        try:
            answers = common.run_driver("C15", [f"spec {f0} {k} {lst(since)}" for _, (_, _, f0, k, since, _) in checks])
            for (r, (j, ncall, f0, k, since, ident)), a in zip(checks, answers):
                rep.count("static:calls-judged-by-Lean-specNext")
                if a != str(ident):
                    r["problems"].append((j, f"static sampler: sample call {ncall} returned set #{ident}; after the sets {since} "
                                             f"(since it became static) and with resample_interval={k} the documented rule "
                                             f"(Lean: specNext, theorem static_history) requires set #{a}"))
                    r["problems"].sort(key=lambda p: p[0])
        except common.DriverFailure as e:
            failure = e
    for i, (c, r) in enumerate(zip(cases, results)):
        m = replies[i] if replies is not None else None
        rep.case(c, _nontrivial(c), sample=dict(case=c, implementation=r["text"], model=m), kind=c["kind"] + c.get("under", c.get("dom", "")))
        judge(rep, c, r, m)
    if failure is not None:
        raise failure


def search_only(ctx, rep):
    """the driver is broken: the oracles have already judged every case inside run()"""
    return


def replay(ctx, obj):
    rep = common.Report(ctx)
    inp = obj.get("failing_input") or obj.get("first")
    case = inp["input"]
    lean = common.lean_check("C15")
    run(ctx, rep, [case])
    return common.finish(ctx, rep, lean)
