"""C12 — Points / Space as a table with named column groups.

Correspondence: seeded histories of operations on the real `Points`/`Space` objects; every step is
sent, with its operands taken from the IMPLEMENTATION's current state, to the Lean driver
(lean/drivers/C12.lean, which runs TPV.Model.Space / TPV.Model.Points, the definitions the
theorems of TPV.Props.C12 are about).  Tensors hold small integers (float64), everything is compared
exactly: space (names, dims, order), batch shape, every cell, or "the call is rejected".

Property oracles (run on every step, independent of the Lean model and of `_compute_slice` /
`_variable_slices`): the result is recomputed with plain torch operations on `as_tensor` and column
numbers derived by the harness from `list(space.items())`.
"""
import itertools
from fractions import Fraction

import common
from common import q

NAMES = ["x", "y", "z", "t", "u", "v", "D", "k"]


# ------------------------------------------------------------------------------------------
# (de)serialisation

def pts_json(p):
    t = p.as_tensor
    return dict(space=[[n, int(d)] for n, d in p.space.items()], shape=[int(s) for s in t.shape],
                vals=[float(v) for v in t.reshape(-1).tolist()])


def mk_space(tp, items):
    return tp.spaces.Space({n: d for n, d in items})


def torch_dtype(torch, tag):
    return {"f64": torch.float64, "f32": torch.float32, "i64": torch.int64}[tag]


def dtype_tag(torch, dt):
    return {torch.float64: "f64", torch.float32: "f32", torch.int64: "i64"}.get(dt, str(dt))


def mk_points(tp, torch, j):
    t = torch.tensor(j["vals"], dtype=torch_dtype(torch, j.get("dtype", "f64"))).reshape(j["shape"])
    return tp.spaces.Points(t, mk_space(tp, j["space"]))


def space_tok(items):
    return " ".join([str(len(items))] + [f"{n} {d}" for n, d in items])


def pts_tok(j):
    """`<space> <nshape> batch-shape… <ncells> cells…`"""
    sh = j["shape"][:-1]
    return f"{space_tok(j['space'])} {' '.join([str(len(sh))] + [str(s) for s in sh])} " \
           f"{' '.join([str(len(j['vals']))] + [q(v) for v in j['vals']])}"


def canon_pts(p):
    t = p.as_tensor
    items = list(p.space.items())
    vals = [float(v) for v in t.reshape(-1).tolist()]
    return f"P {space_tok(items)} | {' '.join(str(int(s)) for s in t.shape[:-1])} | {' '.join(q(v) for v in vals)}"


def canon_tpts(torch, p):
    """typed canonical form: element type, then space | shape | cells as exact rationals"""
    t = p.as_tensor
    vals = t.reshape(-1).tolist()
    return f"{dtype_tag(torch, t.dtype)} P {space_tok(list(p.space.items()))} | {' '.join(str(int(x)) for x in t.shape[:-1])} | " \
           f"{' '.join(q(v) for v in vals)}"


def canon_space(s):
    return space_tok(list(s.items()))


def bound_tok(b):
    if b is None:
        return "_"
    if isinstance(b, str):
        return "$" + b
    return "#" + str(b)


def item_tok(it):
    k = it[0]
    if k == "I":
        return f"I {it[1]}"
    if k == "S":
        return f"S {bound_tok(it[1])} {bound_tok(it[2])} {'_' if it[3] is None else it[3]}"
    if k == "E":
        return "E"
    if k == "M":
        return "M " + " ".join([str(len(it[1]))] + ["1" if b else "0" for b in it[1]])
    if k == "L":
        return "L " + " ".join([str(len(it[1]))] + [str(i) for i in it[1]])
    if k == "V":
        return f"V {it[1]}"
    if k == "W":
        return "W " + " ".join([str(len(it[1]))] + list(it[1]))
    raise ValueError(k)


def normalise_index(ix, nd):
    """Python cannot tell an empty list/tuple of names from an empty list of integers: as a column
    key `[]`/`()` selects no variable, on a batch axis it selects no row"""
    if ix["kind"] != "tup" or not ix["items"]:
        return ix
    its = [list(i) for i in ix["items"]]
    has_ell = any(i[0] == "E" for i in its)
    keyed = len(its) == nd or (has_ell and its[-1][0] != "E")
    for n, it in enumerate(its):
        is_key = keyed and n == len(its) - 1
        if is_key and it[0] == "L" and not it[1] and (len(it) < 3 or it[2] == "list"):
            its[n] = ["W", [], "list"]
        if not is_key and it[0] == "W" and not it[1]:
            its[n] = ["L", [], "list"]
    return dict(kind="tup", items=its)


def index_tok(ix):
    if ix["kind"] == "one":
        return "one " + item_tok(ix["items"][0])
    if ix["kind"] == "lst":
        return "lst " + " ".join([str(len(ix["items"]))] + [str(i) for i in ix["items"]])
    return "tup " + " ".join([str(len(ix["items"]))] + [item_tok(i) for i in ix["items"]])


def item_py(torch, np, it):
    k = it[0]
    if k == "I":
        return it[1]
    if k == "S":
        return slice(it[1], it[2], it[3])
    if k == "E":
        return Ellipsis
    if k == "M":
        return torch.tensor(it[1], dtype=torch.bool) if (len(it) < 3 or it[2] != "array") else np.array(it[1], dtype=bool)
    if k == "L":
        how = it[2] if len(it) > 2 else "list"
        if how == "tensor":
            return torch.tensor(it[1], dtype=torch.long)
        if how == "array":
            return np.array(it[1], dtype=np.int64)
        return list(it[1])
    if k == "V":
        return it[1]
    if k == "W":
        return tuple(it[1]) if (len(it) < 3 or it[2] == "tuple") else list(it[1])
    raise ValueError(k)


def index_py(torch, np, ix):
    if ix["kind"] == "one":
        it = ix["items"][0]
        if it[0] == "L":
            it = ["L", it[1], "tensor" if len(it) < 3 or it[2] == "list" else it[2]]
        return item_py(torch, np, it)
    if ix["kind"] == "lst":
        return list(ix["items"])
    return tuple(item_py(torch, np, it) for it in ix["items"])


# ------------------------------------------------------------------------------------------
# independent reference (plain torch + column numbers computed here)

def ref_cols(items, names):
    off, table = 0, {}
    for n, d in items:
        table[n] = (off, d)
        off += d
    cols = []
    for n in names:
        o, d = table[n]
        cols += list(range(o, o + d))
    return cols


def split_index(ix, nd):
    """(batch items, column-key item or None) by the documented rule: the last entry of a tuple is a
    column key when the tuple has one entry per axis or contains an Ellipsis that is not last"""
    if ix["kind"] != "tup":
        return None
    its = ix["items"]
    if not its:
        return None
    has_ell = any(i[0] == "E" for i in its)
    if len(its) == nd or (has_ell and its[-1][0] != "E"):
        return its[:-1], its[-1]
    return its, None


def key_names(items, key):
    """variable names a column key stands for (requested order), or None if not a valid key"""
    names = [n for n, _ in items]
    if key[0] == "V":
        return [key[1]] if key[1] in names else None
    if key[0] == "W":
        out = []
        for n in key[1]:
            if n not in names:
                return None
            if n not in out:
                out.append(n)
        return out
    if key[0] == "S":
        a, b, c = key[1], key[2], key[3]
        if any(isinstance(v, int) for v in (a, b)) or c == 0:
            return None
        if (a is not None and a not in names) or (b is not None and b not in names):
            return None
        return names[slice(None if a is None else names.index(a), None if b is None else names.index(b), c)]
    return None


def ref_getitem(torch, np, p_json, ix):
    """expected (tensor, space items) of points[ix] for the index forms whose meaning is unambiguous:
    tuple indices `rows…, key` and `rows…` / single row indices; None if outside that fragment"""
    items = [tuple(x) for x in p_json["space"]]
    T = torch.tensor(p_json["vals"], dtype=torch.float64).reshape(p_json["shape"])
    nd = len(p_json["shape"])
    if ix["kind"] == "lst":
        return None
    if ix["kind"] == "one":
        it = ix["items"][0]
        if it[0] in ("V", "W"):
            return None
        bitems, key = [it], None
    else:
        sp = split_index(ix, nd)
        if sp is None:
            return None
        bitems, key = sp
    if any(i[0] in ("V", "W") for i in bitems):
        return None
    if sum(1 for i in bitems if i[0] in ("L", "M")) > 1:
        return None
    if sum(1 for i in bitems if i[0] == "E") > 1:
        return None   # torch's treatment of a second `...` depends on the position: no claim
    if sum(1 for i in bitems if i[0] != "E") > nd - 1:
        return None
    if any(i[0] == "S" and (isinstance(i[1], str) or isinstance(i[2], str)) for i in bitems):
        return None
    if key is None:
        names = [n for n, _ in items]
    else:
        names = key_names(items, key)
        if names is None:
            return None
    cols = ref_cols(items, names)
    sub = T[..., cols] if cols else T[..., :0]
    bidx = tuple(item_py(torch, np, ["L", i[1], "tensor"] if i[0] == "L" else i) for i in bitems)
    # the column axis is never touched by the row index
    bidx = bidx + ((slice(None),) if any(i[0] == "E" for i in bitems) else (Ellipsis,))
    out = sub[bidx]
    return out, [(n, dict(items)[n]) for n in names], bidx, cols


def tensor_eq(torch, a, b):
    return tuple(a.shape) == tuple(b.shape) and bool(torch.equal(a.to(torch.float64), b.to(torch.float64)))


# ------------------------------------------------------------------------------------------
# one step on the implementation

class Guard:
    """oracle code runs inside `with guard:` — an exception there is a problem of the oracle on this
    input (recorded, never mistaken for a rejection by the API)"""

    def __init__(self):
        self.crashes = []

    def __enter__(self):
        return self

    def __exit__(self, et, ev, tb):
        if et is not None and issubclass(et, Exception) and not issubclass(et, common.HarnessTrouble):
            self.crashes.append(f"{et.__name__}: {str(ev)[:160]}")
            return True
        return False


def exec_step(step):
    """runs one step on the implementation, then the oracles.
    returns dict(text=canonical result or 'err', problems=[…], result=Points json or None)"""
    tp = common.use_repo()
    import torch
    import numpy as np
    if step["op"] == "live":
        return exec_live(tp, torch, np, step)
    if step["op"] == "dt":
        return exec_dt(tp, torch, np, step)
    try:
        text, res_json, objs = call_impl(tp, torch, np, step)
    except common.HarnessTrouble:
        raise
    except Exception as e:  # the API rejects the request
        return dict(text="err", problems=[], result=None, exc=f"{type(e).__name__}: {str(e)[:120]}", crashes=[])
    problems = []
    g = Guard()
    with g:
        oracles(tp, torch, np, step, objs, problems)
    return dict(text=text, problems=problems, result=res_json, crashes=g.crashes)


# ------------------------------------------------------------------------------------------
# element types: the library never converts itself; torch.cat / arithmetic promote, assignment keeps
# the type of the target.  Cells are compared as exact rationals, so any narrowing shows.

PROMOTE_RANK = {"i64": 0, "f32": 1, "f64": 2}


def promote_py(tags):
    return max(tags, key=lambda t: PROMOTE_RANK[t])


def fits_py(tag, x):
    import numpy as np
    x = Fraction(x)
    if tag == "i64":
        return x.denominator == 1 and abs(x) < 2 ** 63
    try:
        d = float(x)
    except OverflowError:
        return False
    if Fraction(d) != x:
        return False
    return tag == "f64" or Fraction(float(np.float32(d))) == x


def _rows(j):
    w = j["shape"][-1]
    n = _prod(j["shape"][:-1])
    return [[Fraction(v) for v in j["vals"][i * w:(i + 1) * w]] for i in range(n)]


def _is_empty(j):
    return _prod(j["shape"][:-1]) == 0 and j["shape"][-1] == 0


def exec_dt(tp, torch, np, step):
    Points = tp.spaces.Points
    kind = step["kind"]

    def P(j):
        return mk_points(tp, torch, j)
    problems, g = [], Guard()
    try:
        if kind == "join":
            r = P(step["p"]).join(P(step["q"]))
        elif kind == "cat":
            r = P(step["p"]) | P(step["q"])
        elif kind == "joined":
            r = Points.joined(*[P(j) for j in step["ps"]])
        elif kind == "arith":
            a, b = P(step["p"]), P(step["q"])
            r = {"add": lambda: a + b, "sub": lambda: a - b, "mul": lambda: a * b}[step["f"]]()
        elif kind == "set":
            r = P(step["p"])
            r[index_py(torch, np, step["ix"])] = P(step["q"])
        elif kind == "get":
            r = P(step["p"])[index_py(torch, np, step["ix"])]
        elif kind == "repeat":
            r = P(step["p"]).repeat(*step["ns"])
        elif kind == "from":
            r = Points.from_coordinates({c["name"]: torch.tensor(c["vals"], dtype=torch_dtype(torch, c["dtype"])).reshape(c["shape"])
                                         for c in step["cs"]})
        else:
            raise common.HarnessTrouble("dt kind " + kind)
    except common.HarnessTrouble:
        raise
    except Exception as e:
        return dict(text="err", problems=[], result=None, crashes=[], exc=f"{type(e).__name__}: {str(e)[:120]}")
    text = canon_tpts(torch, r)
    with g:
        got_tag = dtype_tag(torch, r.as_tensor.dtype)
        got = [Fraction(v) for v in r.as_tensor.reshape(-1).tolist()]
        exp_tag, exp = None, None       # exp: list of exact cells (None = no claim for this cell)
        if kind in ("join", "cat", "joined", "from"):
            if kind == "from":
                parts = [dict(space=[[c["name"], c["shape"][-1]]], shape=c["shape"], vals=c["vals"], dtype=c["dtype"]) for c in step["cs"]]
            else:
                parts = [step["p"], step["q"]] if kind != "joined" else step["ps"]
                parts = [j for j in parts if not _is_empty(j)]
            if parts:
                exp_tag = promote_py([j.get("dtype", "f64") for j in parts])
                rows = [_rows(j) for j in parts]
                if kind == "cat":
                    cells = [c for rs in rows for row in rs for c in row]
                else:
                    cells = [c for k in range(len(rows[0])) for rs in rows for c in rs[k]]
                exp = cells
        elif kind == "arith":
            exp_tag = promote_py([step["p"]["dtype"], step["q"]["dtype"]])
            fn = {"add": lambda x, y: x + y, "sub": lambda x, y: x - y, "mul": lambda x, y: x * y}[step["f"]]
            # torch converts both operands to the promoted type, then computes there: a claim only where
            # neither conversion nor the result rounds
            exp = [fn(Fraction(x), Fraction(y)) if fits_py(exp_tag, x) and fits_py(exp_tag, y) else None
                   for x, y in zip(step["p"]["vals"], step["q"]["vals"])]
        elif kind in ("set", "get", "repeat") and all(fits_py("f64", v) for v in step["p"]["vals"] + step.get("q", {}).get("vals", [])):
            exp_tag = step["p"]["dtype"]
            p64 = dict(step["p"], vals=[float(v) for v in step["p"]["vals"]])
            ref_t = None
            if kind == "repeat":
                t = torch.tensor(p64["vals"], dtype=torch.float64).reshape(p64["shape"])
                ref_t = torch.cat([t] * step["ns"][0], dim=0)
            else:
                ref = ref_getitem(torch, np, p64, step["ix"])
                if ref is not None and kind == "get":
                    ref_t = ref[0] if ref[0].dim() > 1 else ref[0].unsqueeze(0)
                elif ref is not None:
                    _, _, bidx, cols = ref
                    t = torch.tensor(p64["vals"], dtype=torch.float64).reshape(p64["shape"])
                    sel = t[..., cols].clone() if cols else t[..., :0].clone()
                    rhs = torch.tensor([float(v) for v in step["q"]["vals"]], dtype=torch.float64).reshape(step["q"]["shape"])
                    # what an assignment into a tensor of the target's element type stores
                    sel[bidx] = rhs.to(torch_dtype(torch, exp_tag)).to(torch.float64)
                    if cols:
                        t[..., cols] = sel
                    ref_t = t
            if ref_t is not None:
                exp = [Fraction(v) for v in ref_t.reshape(-1).tolist()]
        if exp_tag is not None and got_tag != exp_tag:
            problems.append(f"{kind}: the result has element type {got_tag}; the operands {describe_dt(step)} promote to {exp_tag} "
                            f"(assignment/indexing keep the type of the table)")
        if exp is not None:
            if len(got) != len(exp):
                problems.append(f"{kind}: {len(got)} cells, expected {len(exp)}")
            else:
                tag = exp_tag
                for n, (a, b) in enumerate(zip(got, exp)):
                    if b is not None and fits_py(tag, b) and a != b:
                        what = "the exact result" if kind == "arith" else "the cell of the operand"
                        problems.append(f"{kind} of {describe_dt(step)}: cell {n} is {float(a)!r} (= {a}), but {what} is "
                                        f"{float(b)!r} (= {b}), which is a value of the resulting type {tag}: the values were narrowed")
                        break
    return dict(text=text, problems=problems, result=None, crashes=g.crashes)


def describe_dt(step):
    if step["kind"] == "joined":
        return "(" + ", ".join(j.get("dtype", "f64") for j in step["ps"]) + ")"
    if step["kind"] == "from":
        return "(" + ", ".join(c["dtype"] for c in step["cs"]) + ")"
    if "q" in step:
        return f"({step['p']['dtype']}, {step['q']['dtype']})"
    return f"({step['p']['dtype']})"


def tpts_tok(j):
    return f"{j.get('dtype', 'f64')} {pts_tok(j)}"


def dt_vals(rng, tag, n):
    import numpy as np
    if tag == "i64":
        pool = [0, 1, -2, 3, 7, -8, 16777217, -16777219, 2 ** 40 + 1]
        if rng.random() < 0.05:
            pool = pool + [2 ** 53 + 1]
        return [rng.choice(pool) for _ in range(n)]
    if tag == "f32":
        pool = [0.0, 1.0, -2.0, 0.5, -3.75, 0.25, float(np.float32(0.1)), float(np.float32(1 / 3)), 16777216.0, 1024.5]
        return [rng.choice(pool) for _ in range(n)]
    pool = [0.0, 1.0, -2.0, 0.5, 0.1, 0.3, 1 / 3, 16777217.0, 123456789.125, -1e-3, 2.5]
    return [rng.choice(pool) for _ in range(n)]


def gen_tpoints(rng, items, bshape, tag):
    w = sum(d for _, d in items)
    return dict(space=[list(x) for x in items], shape=list(bshape) + [w], vals=dt_vals(rng, tag, _prod(bshape) * w), dtype=tag)


def gen_dtype(rng, n):
    tags = ["f32", "f64", "i64"]
    steps = []
    for _ in range(n):
        base = gen_space_items(rng, 2, 4)
        cut = rng.randint(1, len(base) - 1)
        a_items, b_items = base[:cut], base[cut:]
        bshape = [rng.randint(1, 3) for _ in range(rng.choice([1, 1, 2]))]
        ta, tb = rng.choice(tags), rng.choice(tags)
        if rng.random() < 0.7:
            while tb == ta:
                tb = rng.choice(tags)
        c = rng.random()
        empty = dict(space=[], shape=[0, 0], vals=[], dtype="f32")
        if c < 0.3:
            p, qq = gen_tpoints(rng, a_items, bshape, ta), gen_tpoints(rng, b_items, bshape, tb)
            if rng.random() < 0.06:
                p, qq = rng.choice([(empty, qq), (p, empty)])
            steps.append(dict(op="dt", kind="join", p=p, q=qq))
        elif c < 0.4:
            ps = [gen_tpoints(rng, a_items, bshape, ta), gen_tpoints(rng, b_items, bshape, tb)]
            if len(b_items) >= 2 and rng.random() < 0.5:
                ps = [ps[0], gen_tpoints(rng, b_items[:1], bshape, tb), gen_tpoints(rng, b_items[1:], bshape, rng.choice(tags))]
            if rng.random() < 0.15:
                ps.insert(rng.randint(1, len(ps)), empty)
            steps.append(dict(op="dt", kind="joined", ps=ps))
        elif c < 0.55:
            steps.append(dict(op="dt", kind="cat", p=gen_tpoints(rng, base, bshape, ta),
                              q=gen_tpoints(rng, base, [rng.randint(1, 2)] + bshape[1:], tb)))
        elif c < 0.7:
            steps.append(dict(op="dt", kind="arith", f=rng.choice(["add", "sub", "mul"]),
                              p=gen_tpoints(rng, base, bshape, ta), q=gen_tpoints(rng, base, bshape, tb)))
        elif c < 0.85:
            p = gen_tpoints(rng, base, bshape, ta)
            names = [nm for nm, _ in base]
            key = rng.choice([None, ["V", rng.choice(names)], ["W", rng.sample(names, rng.randint(1, len(names))), "tuple"]])
            rows = _row_items(rng, bshape, True)
            if key is None and any(i[0] == "E" for i in rows) and rows[-1][0] != "E":
                rows = [["E"]]
            ix = dict(kind="tup", items=rows + ([key] if key else []))
            p64 = dict(p, vals=[float(v) for v in p["vals"]])
            rs = result_shape_and_space(p64, ix)
            if rs is None:
                continue
            sh, sp = rs
            steps.append(dict(op="dt", kind="set", p=p, ix=ix, q=gen_tpoints(rng, sp, sh or [1], tb)))
        elif c < 0.93:
            cs = []
            for nm, d in base:
                t = rng.choice(tags)
                cs.append(dict(name=nm, shape=bshape + [d], vals=dt_vals(rng, t, _prod(bshape) * d), dtype=t))
            steps.append(dict(op="dt", kind="from", cs=cs))
        else:
            p = gen_tpoints(rng, base, bshape, rng.choice(["f32", "i64"]))
            if rng.random() < 0.5:
                steps.append(dict(op="dt", kind="repeat", p=p, ns=[rng.randint(1, 2)]))
            else:
                p64 = dict(p, vals=[float(v) for v in p["vals"]])
                ix = gen_index(rng, p64)
                steps.append(dict(op="dt", kind="get", p=p, ix=ix))
    return steps


def dt_line(step):
    k = step["kind"]
    if k in ("join", "cat"):
        return f"dt.{k} {tpts_tok(step['p'])} {tpts_tok(step['q'])}"
    if k == "joined":
        return f"dt.joined {len(step['ps'])} " + " ".join(tpts_tok(j) for j in step["ps"])
    if k == "arith":
        return f"dt.arith {step['f']} {tpts_tok(step['p'])} {tpts_tok(step['q'])}"
    nd = len(step["p"]["shape"]) if "p" in step else 0
    if k == "set":
        return f"dt.set {tpts_tok(step['p'])} {index_tok(normalise_index(step['ix'], nd))} {tpts_tok(step['q'])}"
    if k == "get":
        return f"dt.get {tpts_tok(step['p'])} {index_tok(normalise_index(step['ix'], nd))}"
    if k == "repeat":
        return f"dt.repeat {tpts_tok(step['p'])} {' '.join([str(len(step['ns']))] + [str(x) for x in step['ns']])}"
    parts = [str(len(step["cs"]))]
    for c in step["cs"]:
        sh = c["shape"][:-1]
        parts.append(f"{c['dtype']} {c['name']} {' '.join([str(len(sh))] + [str(x) for x in sh])} {c['shape'][-1]} "
                     f"{' '.join([str(len(c['vals']))] + [q(v) for v in c['vals']])}")
    return "dt.from " + " ".join(parts)


def observe(tp, torch, live, exp, items, where, problems, grad=False):
    """ALL read accessors of a live object against the state it must be in (`exp`, tracked with plain
    torch by the harness): a stale cache behind any accessor shows up here"""
    Points = tp.spaces.Points
    bshape = list(exp.shape[:-1])

    def bad(msg):
        problems.append(f"{where}: {msg}")
    if list(live.space.items()) != [tuple(x) for x in items]:
        bad(f"space is {list(live.space.items())}, expected {items}")
        return
    if not tensor_eq(torch, live.as_tensor, exp):
        bad(f"as_tensor is {live.as_tensor.tolist()}, the table must hold {exp.tolist()}")
    if live.as_tensor.dtype != exp.dtype:
        bad(f"as_tensor has element type {live.as_tensor.dtype}, the table has {exp.dtype}")
    if bool(live.requires_grad) != grad or bool(live.as_tensor.requires_grad) != grad:
        bad(f"requires_grad is {live.requires_grad}, it was set to {grad}")
    if int(len(live)) != _prod(bshape) or list(live.shape) != bshape or live.dim != exp.shape[-1]:
        bad(f"len/shape/dim = {int(len(live))}/{list(live.shape)}/{live.dim}, expected {_prod(bshape)}/{bshape}/{exp.shape[-1]}")
    if bool(live.isempty) != (_prod(bshape) == 0 and exp.shape[-1] == 0):
        bad("isempty is wrong")
    if live.variables != {n for n, _ in items}:
        bad("variables is not the set of names")
    c = live.coordinates
    if list(c.keys()) != [n for n, _ in items]:
        bad(f"coordinates has keys {list(c.keys())}")
    for n, _ in items:
        cols = ref_cols([tuple(x) for x in items], [n])
        want = exp[..., cols] if cols else exp[..., :0]
        if n in c and not tensor_eq(torch, c[n], want):
            bad(f"coordinates[{n!r}] = {c[n].tolist()} but the columns of {n} hold {want.tolist()}")
        if n in c and (c[n].dtype != exp.dtype or bool(c[n].requires_grad) != grad):
            bad(f"coordinates[{n!r}] has element type {c[n].dtype} / requires_grad {c[n].requires_grad}, "
                f"the table has {exp.dtype} / {grad}")
        got = live[..., n]
        if got.as_tensor.dtype != exp.dtype or bool(got.requires_grad) != grad:
            bad(f"points[..., {n!r}] has element type {got.as_tensor.dtype} / requires_grad {got.requires_grad}, "
                f"the table has {exp.dtype} / {grad}")
        if list(got.space.items()) != [(n, len(cols))] or not tensor_eq(torch, got.as_tensor, want):
            bad(f"points[..., {n!r}] = {got.as_tensor.tolist()} but the columns of {n} hold {want.tolist()}")
    if items:
        allnames = tuple(n for n, _ in items)
        got = live[..., allnames]
        if not tensor_eq(torch, got.as_tensor, exp):
            bad("points[..., all names] differs from the table")
        if not (Points.from_coordinates(dict(live.coordinates)) == live):
            bad("Points.from_coordinates(p.coordinates) != p")
    twin = Points(exp.clone(), mk_space(tp, items))
    if not (live == twin) or not (twin == live):
        bad("p == (a fresh Points with the same space and cells) is False")
    if exp.numel() and (live == Points(exp + 1, mk_space(tp, items))):
        bad("p == (Points with different cells) is True")
    if not grad:
        want_repr = "{}:\n{}".format("Points", {n: (exp[..., ref_cols([tuple(x) for x in items], [n])]) for n, _ in items})
        if repr(live) != want_repr:
            bad(f"repr shows {repr(live)!r}, the table is {want_repr!r}")
    rows = [r.as_tensor for r in live] if len(bshape) == 1 and bshape[0] <= 4 else None
    if rows is not None and (len(rows) != bshape[0] or any(not tensor_eq(torch, r, exp[i:i + 1]) for i, r in enumerate(rows))):
        bad("iteration does not yield the rows")


def exec_live(tp, torch, np, step):
    """one REAL object kept alive over a script of assignments and reads; every accessor is observed
    before the first and after every sub-step"""
    problems, g = [], Guard()
    items = step["p"]["space"]
    live = mk_points(tp, torch, step["p"])
    exp = torch.tensor(step["p"]["vals"], dtype=torch.float64).reshape(step["p"]["shape"])
    exp = exp.to(torch_dtype(torch, step["p"].get("dtype", "f64")))
    grad = False
    with g:
        observe(tp, torch, live, exp, items, "before the first operation", problems, grad)
    for k, sub in enumerate(step["script"]):
        cur = dict(space=items, shape=list(exp.shape), vals=[float(v) for v in exp.reshape(-1).tolist()])
        where = f"after step {k + 1} ({sub['op']} {describe_index(sub['ix']) if 'ix' in sub else sub.get('dtype', sub.get('value', ''))})"
        if sub["op"] in ("to", "grad", "track"):
            try:
                if sub["op"] == "to":
                    back = live.to(torch_dtype(torch, sub["dtype"]))
                    exp = exp.to(torch_dtype(torch, sub["dtype"]))
                    if back is not live:
                        problems.append(f"{where}: Points.to does not return the object itself")
                elif sub["op"] == "grad":
                    live.requires_grad = bool(sub["value"])
                    grad = bool(sub["value"])
                else:
                    cs, pts = live.track_coord_gradients()
                    with g:
                        for n, _ in items:
                            cols = ref_cols([tuple(x) for x in items], [n])
                            if not tensor_eq(torch, cs[n].detach(), exp[..., cols] if cols else exp[..., :0]) or not cs[n].requires_grad:
                                problems.append(f"{where}: track_coord_gradients()[0][{n!r}] is not the column block of {n} with requires_grad")
                        if not tensor_eq(torch, pts.as_tensor.detach(), exp) or list(pts.space.items()) != [tuple(x) for x in items]:
                            problems.append(f"{where}: the Points returned by track_coord_gradients do not hold the table")
            except Exception as e:
                return dict(text="err", problems=problems, result=None, crashes=g.crashes,
                            exc=f"step {k + 1}: {type(e).__name__}: {str(e)[:100]}")
        elif sub["op"] == "set":
            rhs = mk_points(tp, torch, sub["q"])
            try:
                live[index_py(torch, np, sub["ix"])] = rhs
            except Exception as e:
                return dict(text="err", problems=problems, result=None, crashes=g.crashes,
                            exc=f"step {k + 1}: {type(e).__name__}: {str(e)[:100]}")
            ref = ref_getitem(torch, np, cur, sub["ix"])
            if ref is None:
                raise common.HarnessTrouble("live script with an index outside the reference fragment")
            _, _, bidx, cols = ref
            sel = exp[..., cols].clone() if cols else exp[..., :0].clone()
            sel[bidx] = rhs.as_tensor.to(exp.dtype)
            if cols:
                exp = exp.clone()
                exp[..., cols] = sel
        else:
            sstep = dict(sub, p=cur)
            sstep["op"] = {"get": "pts.get", "coords": "pts.coords", "repeat": "pts.repeat", "unsq": "pts.unsq",
                           "eq": "pts.eq", "arith": "pts.arith", "cat": "pts.cat"}[sub["op"]]
            with g:
                try:
                    if sub["op"] == "get":
                        o = dict(r=live[index_py(torch, np, sub["ix"])], p=live, before=exp.clone())
                    elif sub["op"] == "coords":
                        o = dict(p=live, c=live.coordinates)
                    elif sub["op"] == "repeat":
                        o = dict(r=live.repeat(*sub["ns"]), p=live)
                    elif sub["op"] == "unsq":
                        o = dict(r=live.unsqueeze(sub["d"]), p=live)
                    elif sub["op"] == "cat":
                        other = mk_points(tp, torch, sub["q"])
                        o = dict(r=live | other, p=live, q=other)
                    else:
                        other = mk_points(tp, torch, sub["q"])
                        o = dict(r=live + other)
                        sstep["f"] = "add"
                except Exception:
                    o = None
                if o is not None:
                    sub_problems = []
                    oracles(tp, torch, np, sstep, o, sub_problems)
                    problems += [f"{where}: {m}" for m in sub_problems]
        with g:
            observe(tp, torch, live, exp, items, where, problems, grad)
    return dict(text=f"{canon_tpts(torch, live)} grad={'true' if live.requires_grad else 'false'}", problems=problems,
                result=None, crashes=g.crashes)


def gen_live(rng, n):
    steps = []
    for _ in range(n):
        items = gen_space_items(rng, 2, 5)
        names = [nm for nm, _ in items]
        bshape = [rng.randint(1, 3) for _ in range(rng.choice([1, 1, 1, 2]))]
        p = gen_points_json(rng, items, bshape)
        tag = rng.choice(["f64", "f64", "f32"])
        p["dtype"] = tag
        if rng.random() < 0.3:
            p["vals"] = [rng.choice([0.5, -2.25, 0.1 if tag == "f64" else 0.25, 3.0]) for _ in p["vals"]]
        script = []
        grad = False
        for _ in range(rng.randint(2, 7)):
            c = rng.random()
            if grad:
                # an object whose tensor requires grad: only reads, then the flag is cleared again
                # (track_coord_gradients refuses such an object: its views are not leaves)
                script.append(rng.choice([dict(op="coords"), dict(op="get", ix=gen_index(rng, p)),
                                          dict(op="grad", value=False)]))
                if script[-1]["op"] == "grad":
                    grad = False
                continue
            if c < 0.16:
                new = rng.choice([t for t in ["f32", "f64", "i64"] if t != tag] if rng.random() < 0.85 else [tag])
                if new == "i64" and rng.random() < 0.7:
                    new = "f32" if tag == "f64" else "f64"
                script.append(dict(op="to", dtype=new))
                tag = new
                continue
            if c < 0.24 and tag != "i64":
                script.append(dict(op="grad", value=True))
                grad = True
                continue
            if c < 0.28:
                script.append(dict(op="track") if tag != "i64" else dict(op="coords"))
                continue
            if c < 0.62:
                kc = rng.random()
                if kc < 0.55:
                    key = ["W", rng.sample(names, rng.randint(1, len(names))), rng.choice(["tuple", "list"])]
                elif kc < 0.7:
                    key = ["V", rng.choice(names)]
                elif kc < 0.85:
                    key = ["S", rng.choice([None, rng.choice(names)]), None, rng.choice([None, None, -1, 2])]
                else:
                    key = None
                rows = _row_items(rng, bshape, True)
                if key is None:
                    if any(i[0] == "E" for i in rows) and rows[-1][0] != "E":
                        rows = [["E"]]       # `..., item` would make the item a column key
                    ix = dict(kind="tup", items=rows)
                else:
                    ix = dict(kind="tup", items=rows + [key])
                rs = result_shape_and_space(p, ix)
                if rs is None:
                    continue
                sh, sp = rs
                if not sh or rng.random() < 0.15:
                    sh = [1]
                script.append(dict(op="set", ix=ix, q=dict(gen_points_json(rng, sp, sh), dtype=tag)))
            elif c < 0.7:
                script.append(dict(op="coords"))
            elif c < 0.82:
                script.append(dict(op="get", ix=gen_index(rng, p)))
            elif c < 0.88:
                script.append(dict(op="repeat", ns=[rng.randint(1, 2)]))
            elif c < 0.93:
                script.append(dict(op="unsq", d=rng.randint(0, len(bshape))))
            elif c < 0.97:
                script.append(dict(op="arith", q=gen_points_json(rng, items, bshape)))
            else:
                script.append(dict(op="cat", q=gen_points_json(rng, items, [rng.randint(1, 2)] + bshape[1:])))
        if grad:
            script.append(dict(op="grad", value=False))
        steps.append(dict(op="live", p=p, script=script))
    return steps


def call_impl(tp, torch, np, step):
    """the call under test; returns (canonical text, json of a resulting Points or None, objects for the oracles)"""
    Points = tp.spaces.Points
    op = step["op"]

    def P(j):
        return mk_points(tp, torch, j)

    def S(items):
        return mk_space(tp, items)

    def pts(r, **kw):
        return canon_pts(r), pts_json(r), dict(r=r, **kw)

    if op == "space.mul":
        a, b = S(step["a"]), S(step["b"])
        r = a * b
        return canon_space(r), None, dict(a=a, b=b, r=r, ba=b * a)
    if op == "space.has":
        a, b = S(step["a"]), S(step["b"])
        r = b in a
        return ("true" if r else "false"), None, dict(r=r)
    if op == "space.hasname":
        return ("true" if (step["n"] in S(step["a"])) else "false"), None, {}
    if op == "space.get":
        return str(S(step["a"])[step["n"]]), None, {}
    if op == "space.dim":
        return str(S(step["a"]).dim), None, dict(r=S(step["a"]).dim)
    if op == "space.eq":
        r = S(step["a"]) == S(step["b"])
        return ("true" if r else "false"), None, dict(r=r)
    if op == "space.sub":
        a = S(step["a"])
        r = a[list(step["ns"]) if step.get("how") == "list" else tuple(step["ns"])]
        return canon_space(r), None, dict(a=a, r=r)
    if op == "space.slice":
        a = S(step["a"])
        r = a[slice(step["lo"], step["hi"], step["st"])]
        return canon_space(r), None, dict(a=a, r=r)
    if op == "pts.mk":
        t = torch.tensor(step["vals"], dtype=torch.float64).reshape(step["shape"])
        return pts(Points(t.clone(), S(step["space"])), t=t)
    if op == "pts.coords":
        p = P(step["p"])
        c = p.coordinates
        text = " ; ".join(f"{n} {' '.join(q(float(v)) for v in c[n].reshape(-1).tolist())}" for n in c)
        return text, None, dict(p=p, c=c)
    if op == "pts.from":
        cs = {c["name"]: torch.tensor(c["vals"], dtype=torch.float64).reshape(c["shape"]) for c in step["cs"]}
        orig = {k: v.clone() for k, v in cs.items()}
        return pts(Points.from_coordinates(cs), orig=orig)
    if op == "pts.get":
        p = P(step["p"])
        before = p.as_tensor.clone()
        return pts(p[index_py(torch, np, step["ix"])], p=p, before=before)
    if op == "pts.set":
        p, rhs = P(step["p"]), P(step["q"])
        rhs_before, old = rhs.as_tensor.clone(), p.as_tensor.clone()
        p[index_py(torch, np, step["ix"])] = rhs
        return pts(p, rhs=rhs, rhs_before=rhs_before, old=old)
    if op == "pts.arith":
        p, r2 = P(step["p"]), P(step["q"])
        f = step["f"]
        return pts({"add": lambda: p + r2, "sub": lambda: p - r2, "mul": lambda: p * r2, "div": lambda: p / r2, "pow": lambda: p ** r2}[f]())
    if op == "pts.cat":
        p, r2 = P(step["p"]), P(step["q"])
        return pts(p | r2, p=p, q=r2)
    if op == "pts.join":
        p, r2 = P(step["p"]), P(step["q"])
        return pts(p.join(r2))
    if op == "pts.joined":
        return pts(Points.joined(*[P(j) for j in step["ps"]]))
    if op == "pts.repeat":
        p = P(step["p"])
        return pts(p.repeat(*step["ns"]), p=p)
    if op == "pts.unsq":
        p = P(step["p"])
        return pts(p.unsqueeze(step["d"]), p=p)
    if op == "pts.eq":
        r = bool(P(step["p"]) == P(step["q"]))
        return ("true" if r else "false"), None, dict(r=r)
    if op == "pts.len":
        return str(int(len(P(step["p"])))), None, {}
    if op == "pts.isempty":
        return ("true" if P(step["p"]).isempty else "false"), None, {}
    raise common.HarnessTrouble("unknown op " + op)


def oracles(tp, torch, np, step, o, problems):
    """the property, evaluated directly on what the implementation returned"""
    Points = tp.spaces.Points
    op = step["op"]
    r = o.get("r")
    if op == "space.mul":
        a, b = o["a"], o["b"]
        da, db = dict(step["a"]), dict(step["b"])
        if r.dim != a.dim + b.dim:
            problems.append(f"(a*b).dim = {r.dim} but a.dim + b.dim = {a.dim + b.dim}")
        want = [(n, da[n] + db.get(n, 0)) for n, _ in step["a"]] + [(n, d) for n, d in step["b"] if n not in da]
        want = [(n, d) for n, d in want if d > 0]
        if list(r.items()) != want:
            problems.append(f"a*b = {list(r.items())}, expected the left names in order (dimensions of equal names added) then the new right names: {want}")
        positive = all(d > 0 for _, d in step["a"] + step["b"])
        if positive and not (a in r and b in r):
            problems.append("a factor is not reported as a sub-space of the product (`a in a*b`)")
        if positive and da and db and not set(da) & set(db) and (r == o["ba"]):
            problems.append("a*b == b*a for spaces with different variable order: equality is not order-sensitive")
    elif op == "space.has":
        if all(d > 0 for _, d in step["a"] + step["b"]):
            da = dict(step["a"])
            want = all(da.get(n, 0) >= d for n, d in step["b"])
            if r != want:
                problems.append(f"`b in a` = {r}, but 'every variable of b has at most its dimension in a' is {want}")
    elif op == "space.dim":
        if r != sum(d for _, d in step["a"]):
            problems.append("dim is not the sum of the dimensions")
    elif op == "space.eq":
        if r != ([tuple(x) for x in step["a"]] == [tuple(x) for x in step["b"]]):
            problems.append(f"Space equality {r} for {step['a']} vs {step['b']}: must hold exactly for equal names, dims AND order")
    elif op == "space.sub":
        da = dict(step["a"])
        if all(n in da for n in step["ns"]):
            want = []
            for n in step["ns"]:
                if (n, da[n]) not in want:
                    want.append((n, da[n]))
            if list(r.items()) != want:
                problems.append(f"space[{step['ns']}] = {list(r.items())}, expected {want}")
            if all(d > 0 for _, d in step["a"]) and not (r in o["a"]):
                problems.append("a selected sub-space is not `in` the space")
    elif op == "space.slice":
        want = key_names([tuple(x) for x in step["a"]], ["S", step["lo"], step["hi"], step["st"]])
        if want is not None:
            da = dict(step["a"])
            if list(r.items()) != [(n, da[n]) for n in want]:
                problems.append(f"space slice gives {list(r.items())}, expected the key slice {want}")
            if r.dim > o["a"].dim or (all(d > 0 for _, d in step["a"]) and r not in o["a"]):
                problems.append("a slice of a space is not a sub-space of it / has a larger dim")
    elif op == "pts.mk":
        if not tensor_eq(torch, r.as_tensor, o["t"]) or len(r) != int(_prod(step["shape"][:-1])):
            problems.append("Points(data, space) does not hold the data it was built from")
    elif op == "pts.coords":
        p, c = o["p"], o["c"]
        items = [tuple(x) for x in step["p"]["space"]]
        if list(c.keys()) != [n for n, _ in items]:
            problems.append(f"coordinates has keys {list(c.keys())}, space has {[n for n, _ in items]}")
        else:
            for n, d in items:
                cols = ref_cols(items, [n])
                if not tensor_eq(torch, c[n], p.as_tensor[..., cols] if cols else p.as_tensor[..., :0]):
                    problems.append(f"coordinates[{n!r}] are not the columns of variable {n}")
            if items:
                back = Points.from_coordinates(dict(c))
                if not (back == p):
                    problems.append("Points.from_coordinates(p.coordinates) != p")
    elif op == "pts.from":
        if step["cs"]:
            orig = o["orig"]
            back = r.coordinates
            if list(back.keys()) != list(orig.keys()) or any(not tensor_eq(torch, back[k], orig[k]) for k in orig):
                problems.append("Points.from_coordinates(c).coordinates != c")
            if list(r.space.items()) != [(c["name"], c["shape"][-1]) for c in step["cs"]]:
                problems.append("from_coordinates: space is not (name, last axis) in dict order")
    elif op == "pts.get":
        if not torch.equal(o["before"], o["p"].as_tensor):
            problems.append("indexing changed the indexed Points")
        ref = ref_getitem(torch, np, step["p"], step["ix"])
        if ref is not None:
            out, sp, _, _ = ref
            if out.dim() == 1:
                out = out.unsqueeze(0)
            if list(r.space.items()) != [(n, d) for n, d in sp]:
                problems.append(f"points[{describe_index(step['ix'])}] has space {list(r.space.items())}, requested variables in order are {sp}")
            elif not tensor_eq(torch, r.as_tensor, out):
                problems.append(f"points[{describe_index(step['ix'])}] = {r.as_tensor.tolist()} but the selected rows restricted to the "
                                f"selected variables are {out.tolist()} (shape {tuple(out.shape)})")
    elif op == "pts.set":
        p, rhs, rhs_before, old = r, o["rhs"], o["rhs_before"], o["old"]
        if not torch.equal(rhs_before, rhs.as_tensor):
            problems.append("assignment changed the assigned Points")
        if list(p.space.items()) != [tuple(x) for x in step["p"]["space"]] or tuple(p.as_tensor.shape) != tuple(old.shape):
            problems.append("assignment changed space or shape of the target")
        ref = None if step.get("dup") else ref_getitem(torch, np, step["p"], step["ix"])
        if ref is not None:
            _, sp, bidx, cols = ref
            if [list(x) for x in sp] == [list(x) for x in step["q"]["space"]]:
                exp = old.clone()
                sub = exp[..., cols].clone() if cols else exp[..., :0].clone()
                sub[bidx] = rhs_before
                if cols:
                    exp[..., cols] = sub
                if not tensor_eq(torch, p.as_tensor, exp):
                    problems.append(f"points[{describe_index(step['ix'])}] = rhs gives {p.as_tensor.tolist()}, expected only the addressed cells "
                                    f"to change, to the cells of rhs by name: {exp.tolist()}")
    elif op == "pts.arith":
        f = step["f"]
        if step["p"]["shape"] == step["q"]["shape"]:
            exp = exact_arith(f, step["p"]["vals"], step["q"]["vals"])
            if exp is not None:
                got = [Fraction(float(v)) for v in r.as_tensor.reshape(-1).tolist()]
                if got != exp or list(r.space.items()) != [tuple(x) for x in step["p"]["space"]]:
                    problems.append(f"p {f} q is not the cell-wise result in the space of p: {r.as_tensor.tolist()}")
    elif op == "pts.cat":
        if step["p"]["space"] == step["q"]["space"] and step["p"]["space"]:
            exp = torch.cat([o["p"].as_tensor, o["q"].as_tensor], dim=0)
            if not tensor_eq(torch, r.as_tensor, exp) or list(r.space.items()) != [tuple(x) for x in step["p"]["space"]]:
                problems.append("p | q is not the rows of p followed by the rows of q in the common space")
    elif op == "pts.join":
        problems += join_oracle(torch, [step["p"], step["q"]], r)
    elif op == "pts.joined":
        problems += join_oracle(torch, step["ps"], r)
    elif op == "pts.repeat":
        p, ns = o["p"], step["ns"]
        if len(ns) == 1 and ns[0] >= 0:
            exp = torch.cat([p.as_tensor] * ns[0], dim=0) if ns[0] > 0 else p.as_tensor[:0]
            if not tensor_eq(torch, r.as_tensor, exp):
                problems.append(f"p.repeat({ns[0]}) is not {ns[0]} copies of the rows of p, block after block")
        if list(r.space.items()) != [tuple(x) for x in step["p"]["space"]]:
            problems.append("repeat changed the space")
    elif op == "pts.unsq":
        p = o["p"]
        sh = list(p.as_tensor.shape[:-1])
        d = step["d"]
        pos = d if d >= 0 else d + len(sh) + 1
        want = sh[:pos] + [1] + sh[pos:]
        if list(r.as_tensor.shape[:-1]) != want or not torch.equal(r.as_tensor.reshape(-1), p.as_tensor.reshape(-1)) \
                or list(r.space.items()) != [tuple(x) for x in step["p"]["space"]]:
            problems.append(f"unsqueeze({d}) gives batch shape {list(r.as_tensor.shape[:-1])}, expected {want} with unchanged rows and space")
    elif op == "pts.eq":
        want = step["p"] == step["q"]
        if r != want:
            problems.append(f"p == q is {r}; spaces {step['p']['space']} / {step['q']['space']}, shapes {step['p']['shape']} / {step['q']['shape']}: "
                            f"equality must hold exactly for equal variable order, shape and cells")


def describe_index(ix):
    def d(it):
        k = it[0]
        if k == "I":
            return str(it[1])
        if k == "S":
            return ":".join("" if v is None else repr(v) for v in it[1:3]) + ("" if it[3] is None else f":{it[3]}")
        if k == "E":
            return "..."
        if k == "M":
            return "mask" + str([int(b) for b in it[1]])
        if k == "L":
            return str(list(it[1]))
        if k == "V":
            return repr(it[1])
        return repr(tuple(it[1]))
    if ix["kind"] == "lst":
        return str(list(ix["items"]))
    if ix["kind"] == "one":
        return d(ix["items"][0])
    return ", ".join(d(i) for i in ix["items"]) + ("," if len(ix["items"]) == 1 else "")


def exact_arith(f, a, b):
    out = []
    for x, y in zip(a, b):
        x, y = Fraction(x), Fraction(y)
        if f == "add":
            v = x + y
        elif f == "sub":
            v = x - y
        elif f == "mul":
            v = x * y
        elif f == "div":
            if y == 0:
                return None
            v = x / y
        else:
            if y.denominator != 1 or y < 0 or y > 8:
                return None
            v = x ** int(y)
        if abs(v) > 2 ** 50 or Fraction(float(v)) != v:
            return None
        out.append(v)
    return out


def join_oracle(torch, parts, r):
    """the joined table holds, under every name, exactly the cells of the part that had the name"""
    problems = []
    live = [j for j in parts if not (int(_prod(j["shape"][:-1])) == 0 and j["shape"][-1] == 0)]
    if not live:
        return problems
    items = [tuple(x) for j in live for x in j["space"]]
    if list(r.space.items()) != items:
        problems.append(f"join: space {list(r.space.items())}, expected the variables of the parts in order {items}")
        return problems
    off = 0
    for j in live:
        w = j["shape"][-1]
        t = torch.tensor(j["vals"], dtype=torch.float64).reshape(j["shape"])
        if not tensor_eq(torch, r.as_tensor[..., off:off + w], t):
            problems.append(f"join: the columns of {[n for n, _ in j['space']]} are not the cells of that part")
        off += w
    return problems


def _prod(l):
    out = 1
    for x in l:
        out *= x
    return out


def model_line(step):
    op = step["op"]
    if op in ("space.mul", "space.has", "space.eq"):
        return f"{op} {space_tok(step['a'])} {space_tok(step['b'])}"
    if op in ("space.hasname", "space.get"):
        return f"{op} {space_tok(step['a'])} {step['n']}"
    if op == "space.dim":
        return f"{op} {space_tok(step['a'])}"
    if op == "space.sub":
        return f"{op} {space_tok(step['a'])} {' '.join([str(len(step['ns']))] + list(step['ns']))}"
    if op == "space.slice":
        return f"{op} {space_tok(step['a'])} {bound_tok(step['lo'])} {bound_tok(step['hi'])} {'_' if step['st'] is None else step['st']}"
    if op == "pts.mk":
        return f"{op} {space_tok(step['space'])} {' '.join([str(len(step['shape']))] + [str(s) for s in step['shape']])} " \
               f"{' '.join([str(len(step['vals']))] + [q(v) for v in step['vals']])}"
    if op == "pts.from":
        parts = [str(len(step["cs"]))]
        for c in step["cs"]:
            sh = c["shape"][:-1]
            parts.append(f"{c['name']} {' '.join([str(len(sh))] + [str(s) for s in sh])} {c['shape'][-1]} "
                         f"{' '.join([str(len(c['vals']))] + [q(v) for v in c['vals']])}")
        return f"{op} " + " ".join(parts)
    if op in ("pts.coords", "pts.len", "pts.isempty"):
        return f"{op} {pts_tok(step['p'])}"
    if op == "pts.get":
        return f"{op} {pts_tok(step['p'])} {index_tok(normalise_index(step['ix'], len(step['p']['shape'])))}"
    if op == "pts.set":
        return f"{op} {pts_tok(step['p'])} {index_tok(normalise_index(step['ix'], len(step['p']['shape'])))} {pts_tok(step['q'])}"
    if op == "dt":
        return dt_line(step)
    if op == "live":
        nd = len(step["p"]["shape"])
        muts = []
        for m in step["script"]:
            if m["op"] == "set":
                muts.append(f"S {index_tok(normalise_index(m['ix'], nd))} {tpts_tok(m['q'])}")
            elif m["op"] == "to":
                muts.append(f"T {m['dtype']}")
            elif m["op"] == "grad":
                muts.append(f"G {1 if m['value'] else 0}")
        return f"obj.run {tpts_tok(step['p'])} {len(muts)} " + " ".join(muts)
    if op == "pts.arith":
        return f"{op} {step['f']} {pts_tok(step['p'])} {pts_tok(step['q'])}"
    if op in ("pts.cat", "pts.join", "pts.eq"):
        return f"{op} {pts_tok(step['p'])} {pts_tok(step['q'])}"
    if op == "pts.joined":
        return f"{op} {len(step['ps'])} " + " ".join(pts_tok(j) for j in step["ps"])
    if op == "pts.repeat":
        return f"{op} {pts_tok(step['p'])} {' '.join([str(len(step['ns']))] + [str(n) for n in step['ns']])}"
    if op == "pts.unsq":
        return f"{op} {pts_tok(step['p'])} {step['d']}"
    raise ValueError(op)


# ------------------------------------------------------------------------------------------
# generators

def gen_space_items(rng, lo=1, hi=5, pool=NAMES, zero=0.0):
    k = rng.randint(lo, hi)
    names = rng.sample(pool, min(k, len(pool)))
    return [[n, 0 if rng.random() < zero else rng.randint(1, 3)] for n in names]


def gen_vals(rng, n):
    return [float(rng.randint(-8, 8)) for _ in range(n)]


def gen_points_json(rng, items, bshape):
    w = sum(d for _, d in items)
    return dict(space=[list(x) for x in items], shape=list(bshape) + [w], vals=gen_vals(rng, _prod(bshape) * w))


def gen_bshape(rng):
    k = rng.choice([1, 1, 1, 2, 2, 3])
    return [rng.choice([0, 1, 2, 2, 3, 3, 4]) if rng.random() < 0.9 else rng.randint(1, 4) for _ in range(k)]


def gen_batch_item(rng, size, allow_adv=True, for_set=False):
    r = rng.random()
    if r < 0.27:
        if size == 0 or rng.random() < 0.04:
            return ["I", rng.randint(-size - 2, size + 1)]
        return ["I", rng.randint(-size, size - 1)]
    if r < 0.70 or not allow_adv:
        def b():
            return None if rng.random() < 0.45 else rng.randint(-size - 1, size + 1)
        st = rng.choice([None, None, None, 1, 2, 3]) if rng.random() < 0.96 else rng.choice([0, -1])
        return ["S", b(), b(), st]
    if r < 0.87:
        n = rng.randint(0, 4)
        if size == 0:
            idxs = [] if rng.random() < 0.8 else [0]
        elif for_set:
            idxs = rng.sample(range(size), min(n, size))
            idxs = [i - size if rng.random() < 0.3 else i for i in idxs]
        else:
            idxs = [rng.randint(-size, size - 1) if rng.random() < 0.97 else size + 1 for _ in range(n)]
        return ["L", idxs, rng.choice(["list", "tensor", "array"])]
    n = size if rng.random() < 0.95 else size + 1
    return ["M", [rng.random() < 0.5 for _ in range(n)], rng.choice(["tensor", "tensor", "array"])]


def gen_col_key(rng, items):
    names = [n for n, _ in items]
    r = rng.random()
    if not names:
        return ["W", [], "tuple"]
    if r < 0.38:
        return ["V", rng.choice(names) if rng.random() < 0.96 else "zz"]
    if r < 0.72:
        k = rng.randint(0 if rng.random() < 0.1 else 1, len(names))
        ns = rng.sample(names, k)
        if ns and rng.random() < 0.06:
            ns.append(rng.choice(ns))
        if rng.random() < 0.03:
            ns.append("zz")
        return ["W", ns, rng.choice(["tuple", "list"])]
    def b():
        return None if rng.random() < 0.5 else rng.choice(names)
    st = rng.choice([None, None, None, None, 1, 2, -1, -2]) if rng.random() < 0.97 else 0
    return ["S", b(), b(), st]


def gen_index(rng, pj, for_set=False):
    items = pj["space"]
    bshape = pj["shape"][:-1]
    k = len(bshape)
    r = rng.random()
    if r < 0.17:
        it = gen_batch_item(rng, bshape[0], True, for_set)
        if rng.random() < 0.15:
            it = ["E"]
        if it[0] == "L":
            it = ["L", it[1], rng.choice(["tensor", "array"])]
        return dict(kind="one", items=[it])
    if r < 0.22:
        n = rng.randint(0, 4)
        size = bshape[0]
        idxs = rng.sample(range(size), min(n, size)) if for_set else ([rng.randint(-size, size - 1) for _ in range(n)] if size else [])
        return dict(kind="lst", items=idxs)
    with_key = rng.random() < 0.72
    adv_used = [False]

    def item(ax):
        it = gen_batch_item(rng, bshape[ax], allow_adv=(not adv_used[0]) or rng.random() < 0.03, for_set=for_set)
        if it[0] in ("L", "M"):
            adv_used[0] = True
        return it
    if rng.random() < 0.35:
        # with an Ellipsis: m leading and n trailing explicit batch items
        m = rng.randint(0, k)
        n = rng.randint(0, k - m)
        if rng.random() < 0.03:
            n += 1
        lead = [item(a) for a in range(m)]
        trail = [item(min(k - 1, k - n + a)) for a in range(n)]
        its = lead + [["E"]] + trail
    else:
        m = k if with_key else rng.randint(1, k)
        if rng.random() < 0.03:
            m = max(1, m + rng.choice([-1, 1]))
        its = [item(min(a, k - 1)) for a in range(m)]
    if with_key:
        key = gen_col_key(rng, items)
        if rng.random() < 0.02:
            key = rng.choice([["I", 0], ["E"], ["L", [0], "list"]])
        its = its + [key]
    if rng.random() < 0.02 and its:
        its[rng.randrange(len(its))] = ["V", rng.choice(NAMES)]
    return dict(kind="tup", items=its)


def result_shape_and_space(pj, ix):
    """batch shape (before the 1-row rule) and space items of points[ix], via the reference"""
    import torch
    import numpy as np
    try:
        ref = ref_getitem(torch, np, pj, ix)
    except Exception:
        return None
    if ref is None:
        return None
    out, sp, _, _ = ref
    return list(out.shape[:-1]), [list(x) for x in sp]


class History:
    """a pool of Points (json, taken from the implementation's results) and the steps applied"""

    def __init__(self, rng):
        self.rng = rng
        base = gen_space_items(rng, 2, 5)
        cut = rng.randint(1, len(base) - 1)
        self.bshape = gen_bshape(rng)
        if rng.random() < 0.8:
            self.bshape = [max(1, s) for s in self.bshape]
        a, b = base[:cut], base[cut:]
        self.pool = [gen_points_json(rng, a, self.bshape), gen_points_json(rng, b, self.bshape),
                     gen_points_json(rng, a, self.bshape), gen_points_json(rng, base, self.bshape)]
        if rng.random() < 0.25:
            self.pool.append(dict(space=[], shape=[0, 0], vals=[]))

    def pick(self):
        return self.rng.choice(self.pool)

    def pick_pair(self, pred):
        rng = self.rng
        pairs = [(a, b) for a in self.pool for b in self.pool if pred(a, b)]
        if pairs and rng.random() < 0.8:
            return rng.choice(pairs)
        return self.pick(), self.pick()

    def next_step(self):
        rng = self.rng
        r = rng.random()
        if r < 0.36:
            p = self.pick()
            return dict(op="pts.get", p=p, ix=gen_index(rng, p))
        if r < 0.50:
            p = self.pick()
            ix = gen_index(rng, p, for_set=True)
            rs = result_shape_and_space(p, ix)
            if rs is None:
                qj = self.pick()
            else:
                sh, sp = rs
                c = rng.random()
                if c < 0.12:
                    sh = [1]
                elif c < 0.2:
                    sh = [1] + sh
                elif c < 0.24:
                    sh = [s + 1 for s in sh] or [2]
                elif c < 0.36 and len(sh) >= 2:
                    # partial broadcasting: some axes of length 1, leading axes dropped
                    sh = [1 if rng.random() < 0.5 else s for s in sh][rng.randint(0, len(sh) - 1):]
                elif not sh:
                    sh = [1]
                if rng.random() < 0.05 and len(sp) >= 2:
                    sp = sp[::-1]
                qj = gen_points_json(rng, sp, sh)
            dup = any(i[0] == "L" and len({(x if x >= 0 else x + 10 ** 6) for x in i[1]}) < len(i[1]) for i in ix["items"] if isinstance(i, list)) if ix["kind"] != "lst" else len(set(ix["items"])) < len(ix["items"])
            return dict(op="pts.set", p=p, ix=ix, q=qj, dup=dup)
        if r < 0.58:
            a, b = self.pick_pair(lambda a, b: a["shape"][:-1] == b["shape"][:-1] and not {n for n, _ in a["space"]} & {n for n, _ in b["space"]})
            return dict(op="pts.join", p=a, q=b)
        if r < 0.61:
            ps = [self.pick() for _ in range(rng.randint(1, 3))]
            if rng.random() < 0.7:
                a, b = self.pick_pair(lambda a, b: a["shape"][:-1] == b["shape"][:-1] and not {n for n, _ in a["space"]} & {n for n, _ in b["space"]})
                ps = [a, b]
                if rng.random() < 0.3:
                    ps.insert(rng.randint(0, 2), dict(space=[], shape=[0, 0], vals=[]))
            return dict(op="pts.joined", ps=ps)
        if r < 0.69:
            a, b = self.pick_pair(lambda a, b: a["space"] == b["space"] and a["shape"][1:] == b["shape"][1:])
            return dict(op="pts.cat", p=a, q=b)
        if r < 0.75:
            p = self.pick()
            k = len(p["shape"])
            c = rng.random()
            if c < 0.6:
                ns = [rng.randint(0, 3)]
            elif c < 0.85:
                ns = [rng.randint(1, 2) for _ in range(rng.randint(0, k - 1))]
            elif c < 0.93:
                ns = [rng.randint(1, 2) for _ in range(k - 1)] + [1]
            else:
                ns = [rng.randint(-1, 2) for _ in range(rng.randint(1, k + 1))]
            if _prod(p["shape"]) * max(1, _prod([max(n, 1) for n in ns])) > 400:
                ns = [1]
            return dict(op="pts.repeat", p=p, ns=ns)
        if r < 0.81:
            p = self.pick()
            k = len(p["shape"]) - 1
            if k >= 4:
                return dict(op="pts.len", p=p)
            return dict(op="pts.unsq", p=p, d=rng.randint(-k - 2, k + 1))
        if r < 0.89:
            p = self.pick()
            f = rng.choice(["add", "sub", "mul", "div", "pow"])
            if rng.random() < 0.12:
                return dict(op="pts.arith", f=f, p=p, q=self.pick())
            n = len(p["vals"])
            if f == "div":
                vals = [rng.choice([1.0, -1.0, 2.0, -2.0, 4.0, 0.5]) for _ in range(n)]
            elif f == "pow":
                vals = [float(rng.randint(0, 3)) for _ in range(n)]
            else:
                vals = gen_vals(rng, n)
            return dict(op="pts.arith", f=f, p=p, q=dict(space=p["space"], shape=p["shape"], vals=vals))
        if r < 0.93:
            p = self.pick()
            c = rng.random()
            if c < 0.4:
                return dict(op="pts.eq", p=p, q=dict(p))
            if c < 0.7 and len(p["space"]) >= 2:
                # same cells, same variables as a set, different variable order
                return dict(op="pts.eq", p=p, q=dict(p, space=p["space"][1:] + p["space"][:1]))
            return dict(op="pts.eq", p=p, q=self.pick())
        if r < 0.97:
            return dict(op="pts.coords", p=self.pick())
        return dict(op=rng.choice(["pts.len", "pts.isempty"]), p=self.pick())


def gen_space_steps(rng, n):
    steps = []
    for _ in range(n):
        pool = rng.sample(NAMES, rng.randint(2, 6))
        zero = 0.15 if rng.random() < 0.15 else 0.0
        a = gen_space_items(rng, 0 if rng.random() < 0.05 else 1, 5, pool, zero)
        b = gen_space_items(rng, 0 if rng.random() < 0.05 else 1, 4, pool, zero)
        c = rng.random()
        if c < 0.3:
            steps.append(dict(op="space.mul", a=a, b=b))
        elif c < 0.5:
            bb = b
            r = rng.random()
            if r < 0.35 and a:
                bb = [[n, d] for n, d in rng.sample(a, rng.randint(0, len(a)))]
            elif r < 0.55 and a:
                bb = [[n, max(0, d + rng.choice([-1, 0, 1]))] for n, d in rng.sample(a, rng.randint(1, len(a)))]
                if zero == 0.0:
                    bb = [[n, max(1, d)] for n, d in bb]
            steps.append(dict(op="space.has", a=a, b=bb))
        elif c < 0.6:
            bb = a if rng.random() < 0.3 else (rng.sample(a, len(a)) if rng.random() < 0.5 else b)
            steps.append(dict(op="space.eq", a=a, b=bb))
        elif c < 0.75:
            names = [n for n, _ in a] or ["x"]
            ns = [rng.choice(names) if rng.random() < 0.93 else "zz" for _ in range(rng.randint(0, 4))]
            steps.append(dict(op="space.sub", a=a, ns=ns, how=rng.choice(["list", "tuple"])))
        elif c < 0.9:
            names = [n for n, _ in a] or ["x"]
            def bnd():
                r = rng.random()
                return None if r < 0.45 else (rng.choice(names) if r < 0.96 else "zz")
            st = rng.choice([None, None, None, 1, 2, -1, -2, 3]) if rng.random() < 0.97 else 0
            steps.append(dict(op="space.slice", a=a, lo=bnd(), hi=bnd(), st=st))
        else:
            names = [n for n, _ in a] or ["x"]
            steps.append(dict(op=rng.choice(["space.get", "space.hasname", "space.dim"]), a=a,
                              n=rng.choice(names) if rng.random() < 0.8 else "zz"))
    return steps


def gen_ctor_steps(rng, n):
    steps = []
    for _ in range(n):
        items = gen_space_items(rng, 1, 4)
        bshape = gen_bshape(rng)
        w = sum(d for _, d in items)
        if rng.random() < 0.5:
            shape = bshape + [w]
            c = rng.random()
            if c < 0.1:
                shape = [w]
            elif c < 0.2:
                shape = bshape + [w + 1]
            steps.append(dict(op="pts.mk", space=items, shape=shape, vals=gen_vals(rng, _prod(shape))))
        else:
            cs = []
            for nme, d in items:
                sh = list(bshape)
                if rng.random() < 0.05:
                    sh = sh[::-1] + [1] if rng.random() < 0.5 else []
                cs.append(dict(name=nme, shape=sh + [d], vals=gen_vals(rng, _prod(sh) * d)))
            if rng.random() < 0.04:
                cs = []
            steps.append(dict(op="pts.from", cs=cs))
    return steps


# ------------------------------------------------------------------------------------------
# targeted stream: the index forms that were wrong before the two index fixes (rows addressed by a
# list / mask together with a multi-name column key; integer tuples shorter than the rank)

def gen_targeted(rng, n):
    steps = []
    for _ in range(n):
        items = gen_space_items(rng, 1, 4)
        w = sum(d for _, d in items)
        names = [nm for nm, _ in items]
        c = rng.random()
        if c < 0.5:
            rows = rng.randint(1, 5)
            p = gen_points_json(rng, items, [rows])
            k = w if rng.random() < 0.6 else rng.randint(1, rows)
            idx = [rng.randrange(rows) for _ in range(k)]
            key = rng.choice([["S", None, None, None], ["W", rng.sample(names, len(names)), "tuple"], ["W", names, "list"]])
            row = ["L", idx, rng.choice(["list", "tensor"])] if rng.random() < 0.6 else ["M", [i in idx for i in range(rows)], "tensor"]
            steps.append(dict(op="pts.get", p=p, ix=dict(kind="tup", items=[row, key])))
        elif c < 0.8:
            bshape = [rng.randint(2, 3), rng.randint(2, 3)] + ([2] if rng.random() < 0.3 else [])
            p = gen_points_json(rng, items, bshape)
            m = rng.randint(2, len(bshape))
            ix = dict(kind="tup", items=[["I", rng.randrange(bshape[a])] for a in range(m)])
            if rng.random() < 0.5:
                steps.append(dict(op="pts.get", p=p, ix=ix))
            else:
                steps.append(dict(op="pts.set", p=p, ix=ix, q=gen_points_json(rng, items, [1] if m == len(bshape) else bshape[m:])))
        else:
            rows = rng.randint(2, 4)
            p = gen_points_json(rng, items, [rows])
            idx = rng.sample(range(rows), rng.randint(1, rows))
            ns = rng.sample(names, len(names))
            sp = [[nm, dict(items)[nm]] for nm in ns]
            steps.append(dict(op="pts.set", p=p, ix=dict(kind="tup", items=[["L", idx, "list"], ["W", ns, "tuple"]]),
                              q=gen_points_json(rng, sp, [len(idx)])))
    return steps


# ------------------------------------------------------------------------------------------
# multi-name column keys in EVERY order (read and assignment): any wrong column addressed by a key
# `(n1, n2, …)` shows up as a wrong cell.  Exhaustive over all ordered selections of the variables of
# two 4-variable spaces (4 resp. 8 columns) and of x,y,z,t,u (assignment), random ordered selections on spaces with up to 5
# variables / 15 columns, 1-3 batch axes, every kind of row index.

def _row_items(rng, bshape, for_set):
    """one row-index item per batch axis, or an Ellipsis form; at most one list/mask"""
    k = len(bshape)
    c = rng.random()
    if c < 0.35:
        return [["E"]]
    adv = [False]

    def item(ax):
        size = bshape[ax]
        r = rng.random()
        if r < 0.2:
            return ["I", rng.randrange(size) - (size if rng.random() < 0.3 else 0)]
        if r < 0.6 or adv[0]:
            return ["S", rng.choice([None, 0, 1 if size >= 2 else 0]), rng.choice([None, size]), rng.choice([None, None, 2])]
        adv[0] = True
        if r < 0.85:
            idx = rng.sample(range(size), rng.randint(1, size)) if for_set else [rng.randrange(size) for _ in range(rng.randint(1, 4))]
            return ["L", idx, rng.choice(["list", "tensor", "array"])]
        m = [rng.random() < 0.6 for _ in range(size)]
        m[rng.randrange(size)] = True
        return ["M", m, "tensor"]
    if c < 0.5 and k >= 2:
        return [item(0), ["E"]]
    if c < 0.6 and k >= 2:
        return [["E"], item(k - 1)]
    return [item(a) for a in range(k)]


def _multiname_step(rng, items, ns, setter, how=None):
    bshape = [rng.randint(1, 3) for _ in range(rng.choice([1, 1, 2, 3]))]
    p = gen_points_json(rng, items, bshape)
    ix = dict(kind="tup", items=_row_items(rng, bshape, setter) + [["W", list(ns), how or rng.choice(["tuple", "list"])]])
    if not setter:
        return dict(op="pts.get", p=p, ix=ix)
    rs = result_shape_and_space(p, ix)
    if rs is None:
        return dict(op="pts.get", p=p, ix=ix)
    sh, sp = rs
    if rng.random() < 0.15 or not sh:
        sh = [1]
    return dict(op="pts.set", p=p, ix=ix, q=gen_points_json(rng, sp, sh), dup=False)


def gen_multiname(rng, n_random):
    steps = []
    for items in ([["x", 1], ["y", 1], ["z", 1], ["t", 1]], [["u", 2], ["x", 1], ["t", 3], ["k", 2]]):
        names = [nm for nm, _ in items]
        for size in range(1, 5):
            for ns in itertools.permutations(names, size):
                steps.append(_multiname_step(rng, items, ns, True))
                if size >= 2:
                    steps.append(_multiname_step(rng, items, ns, False))
    items = [[nm, 1] for nm in ["x", "y", "z", "t", "u"]]
    for size in range(2, 6):
        for ns in itertools.permutations([nm for nm, _ in items], size):
            steps.append(_multiname_step(rng, items, ns, True))
    for _ in range(n_random):
        items = gen_space_items(rng, 3, 5)
        names = [nm for nm, _ in items]
        ns = rng.sample(names, rng.randint(2, len(names)))
        steps.append(_multiname_step(rng, items, ns, rng.random() < 0.7))
    return steps


# ------------------------------------------------------------------------------------------

def op_class(step):
    op = step["op"]
    if op == "dt":
        return f"dtype:{step['kind']}:{describe_dt(step)}"
    if op == "live":
        return "live:object-with-%d-assignments" % min(4, sum(1 for m in step["script"] if m["op"] == "set"))
    if op == "pts.get" or op == "pts.set":
        ix = step["ix"]
        kinds = "".join(sorted({i[0] for i in ix["items"] if isinstance(i, list)})) if ix["kind"] != "lst" else "pylist"
        return f"{op}:{ix['kind']}:{kinds}"
    if op == "pts.arith":
        return f"{op}:{step['f']}"
    return op


def judge(rep, step, res, reply, count=True):
    if count:
        rep.count(op_class(step))
        if step["op"] == "live":
            rep.count("live:sub-steps", len(step["script"]))
            rep.count("live:observations of all accessors", len(step["script"]) + 1)
            if res["text"] == "err":
                rep.count("live:script rejected")
        if step["op"] in ("pts.set", "pts.get") and step["ix"]["kind"] == "tup" and step["ix"]["items"] \
                and step["ix"]["items"][-1][0] == "W" and res["text"] != "err":
            key = list(step["ix"]["items"][-1][1])
            order = [n for n, _ in step["p"]["space"] if n in key]
            if len(key) >= 2:
                rep.count(f"{step['op']}:multi-name-key:" + ("storage-order" if key == order else "permuted"))
            if len(key) >= 3 and key != order and key != order[::-1]:
                rep.count(f"{step['op']}:multi-name-key:>=3 names non-monotone")
        rep.count("impl:rejected" if res["text"] == "err" else "impl:accepted")
    for pr in res["problems"]:
        rep.fail(pr, step, detail=dict(implementation=res["text"]))
    for c in res.get("crashes", []):
        rep.count("oracle-crashed")
        if len(rep.notes) < 5:
            rep.notes.append(f"oracle crashed on {model_line(step)[:160]}: {c}")
    if reply is None:
        return
    if reply == "err:index" and res["result"] is not None and not res["result"]["vals"]:
        # torch does not bounds-check an index list when the result has no cells (trusted base)
        rep.count("edge:empty-result-unchecked-index")
        return
    if step["op"] == "pts.arith" and res["text"] != "err" and step["p"]["shape"] == step["q"]["shape"] \
            and exact_arith(step["f"], step["p"]["vals"], step["q"]["vals"]) is None:
        rep.count("arith:result-not-exact-in-float64 (not compared)")
        return
    if reply == "unmodelled":
        rep.count("model:unmodelled")
        return
    if reply.startswith("err:") and " alt=" in reply:
        # the coded model rejects the call for an incidental reason; its natural total extension says what the
        # only admissible result is if the implementation accepts it
        coded, alt = reply.split(" alt=", 1)
        if res["text"] == "err":
            return
        if res["text"] == alt:
            rep.count("implementation accepts what the coded model rejects (" + coded + "), result = natural extension: " + step["op"]
                      + (":" + step.get("kind", "") if step["op"] == "dt" else ""))
            return
        rep.fail(f"{step['op']}: the call is rejected by the code as it was modelled ({coded}); the implementation accepts it, "
                 f"and the only table the property allows then is `{alt[:300]}` (the operation's meaning on the other "
                 f"arguments: join of the non-empty arguments in order / rows by a list / variables by name), but it returned "
                 f"`{res['text'][:300]}`", step, detail=dict(implementation=res["text"], model=reply))
        return
    m = "err" if reply.startswith("err:") else reply
    if m != res["text"]:
        rep.disagree(f"drivers/C12.lean `{step['op']}` vs the real Points/Space", step,
                     res["text"] + (" (" + res.get("exc", "") + ")" if res["text"] == "err" else ""), reply)


def all_steps(ctx):
    """generates and executes (on the implementation) every step of the run"""
    rng = ctx.rng
    out = []
    for st in gen_targeted(rng, ctx.scale(150, 1500)):
        out.append((st, exec_step(st)))
    for st in gen_dtype(rng, ctx.scale(500, 6000)):
        out.append((st, exec_step(st)))
    for st in gen_live(rng, ctx.scale(300, 4000)):
        out.append((st, exec_step(st)))
    for st in gen_multiname(rng, ctx.scale(600, 6000)):
        res = exec_step(st)
        out.append((st, res))
    for st in gen_space_steps(rng, ctx.scale(700, 8000)) + gen_ctor_steps(rng, ctx.scale(200, 2500)):
        out.append((st, exec_step(st)))
    nh = ctx.scale(500, 6000)
    for _ in range(nh):
        h = History(rng)
        for _ in range(rng.randint(4, 12)):
            st = h.next_step()
            res = exec_step(st)
            out.append((st, res))
            if res["result"] is not None and len(res["result"]["vals"]) <= 400 and len(res["result"]["shape"]) <= 5 \
                    and all(abs(v) < 2 ** 40 and v == v for v in res["result"]["vals"]):
                h.pool.append(res["result"])
                if len(h.pool) > 9:
                    h.pool.pop(rng.randrange(4, len(h.pool)))
    return out


RULE = ("mixed element types (float32/float64/int64 in both orders, values that are not representable in the narrower type) for join, "
        "joined, |, arithmetic, assignment, from_coordinates: result type by torch promotion, cells compared as exact rationals; live objects: one real Points object kept alive over a script of assignments and reads, ALL read accessors observed "
        "before the first and after every operation; multi-name column keys in every order (exhaustive over two 4-variable spaces and five 1-dimensional variables, random up to 5 variables / 15 columns) for read and "
        "assignment; seeded histories (4-12 operations each) on random spaces (1-5 variables, dims 1-3; 0-dim and repeated names in the "
        "Space stream), 1-3 batch axes of length 0-4, integer-valued float64 cells; index expressions from a grammar (int, slice "
        "with step, list/tensor/array, bool mask, Ellipsis, name, tuple/list of names, name slices, malformed forms); every step is "
        "compared exactly with the Lean model (space, shape, cells, or rejection) and judged by the torch-level oracles; a step "
        "is non-trivial when the implementation accepts it and the operand has >= 2 rows or >= 2 variables; distinct = distinct steps")


def nontrivial(step, res):
    if res["text"] == "err":
        return False
    p = step.get("p")
    if p is not None:
        return _prod(p["shape"][:-1]) >= 2 or len(p["space"]) >= 2
    return len(step.get("a", [])) + len(step.get("b", [])) + len(step.get("cs", [])) + len(step.get("space", [])) >= 2


def run(ctx, rep, pairs=None):
    rep.rule = RULE
    pairs = pairs if pairs is not None else all_steps(ctx)
    lines = [model_line(st) for st, _ in pairs]
    try:
        replies = common.run_driver("C12", lines)
    except common.DriverFailure:
        for st, res in pairs:
            judge(rep, st, res, None)
        raise
    for (st, res), m in zip(pairs, replies):
        if m.startswith("bad-op"):
            raise common.HarnessTrouble(f"driver did not understand `{model_line(st)[:200]}`: {m}")
        rep.case(model_line(st), nontrivial(st, res), sample=dict(step=st, implementation=res["text"], model=m), kind=st["op"])
        judge(rep, st, res, m)


def search_only(ctx, rep):
    pass  # `run` has already applied the oracles to every step before re-raising


def replay(ctx, obj):
    rep = common.Report(ctx)
    inp = obj.get("failing_input") or obj.get("first")
    step = inp["input"]
    lean = common.lean_check("C12")
    run(ctx, rep, [(step, exec_step(step))])
    return common.finish(ctx, rep, lean)
