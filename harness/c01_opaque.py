"""C01, oracle-only streams (nothing here is modelled in Lean except where the Lean `sd` oracle is used):

  * ShapelyPolygon (convex, non-convex, darts, rectilinear, with a hole), TrimeshPolyhedron (boxes, tetrahedra,
    prisms), Point: every point of sample_random_uniform / sample_grid (n and density), of the boundaries and
    of the samplers on top is judged by a membership oracle written here in exact rational arithmetic
    (even-odd crossing number + distance to the edges; half-spaces of the faces) — independent of shapely /
    trimesh.  Polygons also inside cut / intersection / union / translate / rotate / product with modelled
    shapes: the modelled operand's signed margin comes from the Lean driver (`sd`), the polygon's from the
    oracle here, combined by the CSG rules (min / max / min(a, -b)).
  * composed samplers (append, +, *, static, filtered) over parameter-dependent modelled domains with >= 2
    parameter rows: every component of every output row is judged with the parameter columns OF THE SAME ROW
    (Lean `sd`, exact)."""
import math
from fractions import Fraction as Fr

import common
import geomgen
from geomgen import Gen, Node, env_tokens

EPS = 2e-4          # same normalised tolerance as harness/c01.py
TIMEOUT = 6


# ---------------------------------------------------------------------------------------------
# exact oracles

def poly_contains(verts, q):
    """even-odd rule in exact arithmetic; None if q lies on an edge (same algorithm as harness/c06.py)"""
    x, y = q
    inside = False
    n = len(verts)
    for i in range(n):
        (x1, y1), (x2, y2) = verts[i], verts[(i + 1) % n]
        cr = (x2 - x1) * (y - y1) - (y2 - y1) * (x - x1)
        if cr == 0 and min(x1, x2) <= x <= max(x1, x2) and min(y1, y2) <= y <= max(y1, y2):
            return None
        if (y1 > y) != (y2 > y):
            xi = x1 + (y - y1) * (x2 - x1) / (y2 - y1)
            if xi > x:
                inside = not inside
    return inside


def seg_dist(p, a, b):
    ax, ay, bx, by = float(a[0]), float(a[1]), float(b[0]), float(b[1])
    dx, dy = bx - ax, by - ay
    t = max(0.0, min(1.0, ((p[0] - ax) * dx + (p[1] - ay) * dy) / (dx * dx + dy * dy)))
    return math.hypot(p[0] - ax - t * dx, p[1] - ay - t * dy)


def poly_margin(outer, hole, p):
    """signed distance-like margin of the float point p: > 0 inside, < 0 outside, normalised by sqrt(area scale)"""
    q = (Fr(p[0]), Fr(p[1]))
    rings = [outer] + ([hole] if hole else [])
    d = min(seg_dist(p, r[i], r[(i + 1) % len(r)]) for r in rings for i in range(len(r)))
    io = poly_contains(outer, q)
    ih = poly_contains(hole, q) if hole else False
    if io is None or ih is None:
        return 0.0
    inside = io and not ih
    scale = max(1.0, max(abs(float(c)) for v in outer for c in v))
    return (d if inside else -d) / scale


def planes_of(V, F):
    ctr = [sum(v[j] for v in V) / len(V) for j in range(3)]
    out = []
    for f in F:
        a, b, c_ = V[f[0]], V[f[1]], V[f[2]]
        u = [b[j] - a[j] for j in range(3)]; w = [c_[j] - a[j] for j in range(3)]
        nrm = [u[1] * w[2] - u[2] * w[1], u[2] * w[0] - u[0] * w[2], u[0] * w[1] - u[1] * w[0]]
        if sum(nrm[j] * (ctr[j] - a[j]) for j in range(3)) > 0:
            nrm = [-x for x in nrm]
        out.append((nrm, a))
    return out


def mesh_margin(V, F, p):
    """convex polyhedron: min over faces of the inward distance (exact sign, float size)"""
    q = [Fr(x) for x in p]
    best = None
    for nrm, a in planes_of(V, F):
        s = sum(nrm[j] * (q[j] - a[j]) for j in range(3))           # exact; <= 0 inside
        L = math.sqrt(sum(float(x) ** 2 for x in nrm))
        m = -float(s) / L
        best = m if best is None else min(best, m)
    scale = max(1.0, max(abs(float(c)) for v in V for c in v))
    return best / scale


# ---------------------------------------------------------------------------------------------
# generators

DIRS12 = [(Fr(1), Fr(0)), (Fr(4, 5), Fr(3, 5)), (Fr(3, 5), Fr(4, 5)), (Fr(0), Fr(1)), (Fr(-3, 5), Fr(4, 5)), (Fr(-4, 5), Fr(3, 5)),
          (Fr(-1), Fr(0)), (Fr(-4, 5), Fr(-3, 5)), (Fr(-3, 5), Fr(-4, 5)), (Fr(0), Fr(-1)), (Fr(3, 5), Fr(-4, 5)), (Fr(4, 5), Fr(-3, 5))]


def star(rng, cx, cy, rmin, rmax, m):
    idx = sorted(rng.sample(range(12), m))
    while any((b - a) % 12 >= 6 for a, b in zip(idx, idx[1:] + idx[:1])):
        idx = sorted(rng.sample(range(12), m))
    return [(cx + Fr(rng.randint(int(rmin * 8), int(rmax * 8)), 8) * DIRS12[i][0],
             cy + Fr(rng.randint(int(rmin * 8), int(rmax * 8)), 8) * DIRS12[i][1]) for i in idx]


def gen_polygon(rng):
    """(family, outer, hole): all vertices dyadic-ish rationals that float32 represents well"""
    fam = rng.choice(["convex", "star", "star", "dart", "dart", "dart", "rect", "hole"])
    cx, cy = Fr(rng.randint(-16, 16), 8), Fr(rng.randint(-16, 16), 8)
    hole = None
    if fam == "convex":
        r = Fr(rng.randint(8, 24), 8)
        idx = sorted(rng.sample(range(12), rng.randint(3, 7)))
        while any((b - a) % 12 >= 6 for a, b in zip(idx, idx[1:] + idx[:1])):
            idx = sorted(rng.sample(range(12), rng.randint(3, 7)))
        outer = [(cx + r * DIRS12[i][0], cy + r * DIRS12[i][1]) for i in idx]
    elif fam == "star":
        outer = star(rng, cx, cy, 1, 4, rng.randint(5, 9))
    elif fam == "dart":
        # non-convex with few vertices: a wide fan with one or two deep reflex vertices, e.g. [[5,2],[5,1],[2,5],[0,1],[6,0]]
        if rng.random() < 0.5:
            g = lambda a, b: Fr(rng.randint(a * 2, b * 2), 2)
            outer = [(cx + g(4, 6), cy + g(1, 3)), (cx + g(4, 6), cy + g(0, 1)), (cx + g(1, 3), cy + g(4, 6)),
                     (cx + g(-1, 0), cy + g(0, 2)), (cx + g(6, 8), cy + g(-1, 0))]
            if poly_simple_area(outer) is None:
                outer = [(cx + 5, cy + 2), (cx + 5, cy + 1), (cx + 2, cy + 5), (cx, cy + 1), (cx + 6, cy)]
        else:
            outer = star(rng, cx, cy, 3, 4, rng.randint(4, 6))
            k = rng.randrange(len(outer))
            outer[k] = (cx + (outer[k][0] - cx) / 6, cy + (outer[k][1] - cy) / 6)
    elif fam == "rect":
        w, h, a, b = [Fr(rng.randint(4, 16), 4) for _ in range(4)]
        a, b = min(a, w - Fr(1, 2)), min(b, h - Fr(1, 2))
        a, b = max(a, Fr(1, 2)), max(b, Fr(1, 2))
        outer = [(cx, cy), (cx + w, cy), (cx + w, cy + b), (cx + a, cy + b), (cx + a, cy + h), (cx, cy + h)]   # L-shape
    else:
        outer = star(rng, cx, cy, 2, 4, rng.randint(4, 8))
        hole = star(rng, cx, cy, Fr(1, 8), Fr(3, 8), rng.randint(3, 5))
    if rng.random() < 0.5:
        outer = outer[::-1]
    return fam, outer, hole


def poly_simple_area(vs):
    """area if the polygon is simple (no two non-adjacent edges intersect), else None"""
    n = len(vs)

    def orient(a, b, c):
        return (b[0] - a[0]) * (c[1] - a[1]) - (b[1] - a[1]) * (c[0] - a[0])
    for i in range(n):
        for j in range(i + 1, n):
            if j == i or (j + 1) % n == i or (i + 1) % n == j:
                continue
            a, b, c, d = vs[i], vs[(i + 1) % n], vs[j], vs[(j + 1) % n]
            if orient(a, b, c) * orient(a, b, d) <= 0 and orient(c, d, a) * orient(c, d, b) <= 0:
                return None
    s = sum(x0 * y1 - x1 * y0 for (x0, y0), (x1, y1) in zip(vs, vs[1:] + vs[:1])) / 2
    return abs(s) if abs(s) >= 1 else None


def gen_solid(rng):
    kind = rng.choice(["box", "tetra", "prism"])
    o = [Fr(rng.randint(-8, 8), 4) for _ in range(3)]
    a, b, c = [Fr(rng.randint(2, 12), 4) for _ in range(3)]
    if kind == "box":
        v = [[0, 0, 0], [a, 0, 0], [a, b, 0], [0, b, 0], [0, 0, c], [a, 0, c], [a, b, c], [0, b, c]]
        f = [[0, 2, 1], [0, 3, 2], [4, 5, 6], [4, 6, 7], [0, 1, 5], [0, 5, 4], [1, 2, 6], [1, 6, 5], [2, 3, 7], [2, 7, 6], [3, 0, 4], [3, 4, 7]]
    elif kind == "tetra":
        v = [[0, 0, 0], [a, 0, 0], [0, b, 0], [0, 0, c]]
        f = [[0, 2, 1], [0, 1, 3], [0, 3, 2], [1, 2, 3]]
    else:
        v = [[0, 0, 0], [a, 0, 0], [0, b, 0], [0, 0, c], [a, 0, c], [0, b, c]]
        f = [[0, 2, 1], [3, 4, 5], [0, 1, 4], [0, 4, 3], [1, 2, 5], [1, 5, 4], [2, 0, 3], [2, 3, 5]]
    V = [[Fr(x) + o[j] for j, x in enumerate(p)] for p in v]
    return kind, V, f


def frs(vs):
    return [[str(a) for a in v] for v in vs]


def unfrs(vs):
    return [tuple(Fr(a) for a in v) for v in vs]


# ---------------------------------------------------------------------------------------------
# case construction

def make_case(ctx, idx):
    rng = ctx.rng
    stream = rng.choice(["polygon", "polygon", "polygon", "polygon", "polygon", "fillup", "fillup", "polycombo", "polycombo", "mesh", "point",
                         "composed", "composed", "composed", "composed", "peval", "peval", "peval", "flagged", "flagged", "flagged", "options", "options"])
    seed = rng.randint(0, 2 ** 31 - 1)
    if stream == "peval":
        return make_peval_case(rng, idx, seed)
    if stream == "flagged":
        return make_flagged_case(rng, idx, seed)
    if stream == "options":
        return make_options_case(rng, idx, seed)
    if stream in ("polygon", "fillup"):
        fam, outer, hole = gen_polygon(rng)
        if stream == "fillup":
            # the random fill-up step of the triangulation sampler: non-convex fans, small n, many repetitions
            while fam != "dart" or poly_simple_area(outer) is None:
                fam, outer, hole = gen_polygon(rng)
        if poly_simple_area(outer) is None:
            return None
        part = rng.choice(["interior", "interior", "interior", "boundary"])
        api = rng.choice(["dom.random", "dom.random", "dom.random", "dom.random.d", "dom.grid", "dom.grid.d", "smp.uniform", "smp.grid"])
        n = rng.choice([1, 2, 3, 4, 5, 6, 8, 12, 20, 50])
        if stream == "fillup":
            return dict(id=idx, stream="polygon", family=fam, outer=frs(outer), hole=None, part="interior",
                        api=rng.choice(["dom.random", "dom.random", "smp.uniform", "dom.grid"]), n=rng.choice([2, 3, 4, 5, 6, 8]),
                        d=10.0, reps=14, seed=seed)
        return dict(id=idx, stream=stream, family=fam, outer=frs(outer), hole=frs(hole) if hole else None, part=part, api=api, n=n,
                    d=rng.choice([0.5, 3.7, 10.0]), reps=6 if n <= 12 else 2, seed=seed)
    if stream == "mesh":
        kind, V, F = gen_solid(rng)
        part = rng.choice(["interior", "interior", "boundary"])
        api = rng.choice(["dom.random", "dom.random", "dom.random.d", "dom.grid", "smp.uniform"])
        return dict(id=idx, stream=stream, family=kind, V=frs(V), F=F, part=part, api=api, n=rng.choice([1, 2, 5, 12, 30]),
                    d=rng.choice([0.5, 3.7]), reps=1, seed=seed)
    if stream == "point":
        dim = rng.choice([1, 2, 3])
        var = {1: "y", 2: "x", 3: "z"}[dim]
        dep = rng.random() < 0.6
        base = [Fr(rng.randint(-16, 16), 8) for _ in range(dim)]
        slope = [Fr(rng.randint(-4, 4), 4) if dep else Fr(0) for _ in range(dim)]
        k = rng.choice([1, 2, 3]) if dep else rng.choice([0, 0, 2])
        return dict(id=idx, stream=stream, var=var, base=[str(b) for b in base], slope=[str(s) for s in slope], dep=dep,
                    trows=[str(Fr(rng.randint(0, 16), 16)) for _ in range(k)], api=rng.choice(["dom.random", "dom.grid", "smp.uniform"]),
                    n=rng.choice([1, 2, 5]), seed=seed)
    if stream == "polycombo":
        fam, outer, hole = gen_polygon(rng)
        if poly_simple_area(outer) is None:
            return None
        params = rng.choice([[], ["t"]])
        k = rng.choice([1, 2]) if params else 0
        prows = [{p: [str(Fr(rng.randint(0, 16), 16))] for p in params} for _ in range(k)]
        op = rng.choice(["P-N", "P&N", "P+N", "N-P", "N&P", "translate", "rotate", "PxI"])
        g = Gen(rng, params=params, p_dep=0.5)
        other = None
        if op in ("P-N", "P&N", "P+N", "N-P", "N&P"):
            other = g.prim2("x")
        elif op == "PxI":
            other = g.prim1("s")
        mot = None
        if op == "translate":
            mot = [str(Fr(rng.randint(-16, 16), 8)), str(Fr(rng.randint(-16, 16), 8))]
        if op == "rotate":
            cs = rng.choice([(Fr(3, 5), Fr(4, 5)), (Fr(0), Fr(1)), (Fr(5, 13), Fr(12, 13)), (Fr(-4, 5), Fr(-3, 5))])
            mot = [str(cs[0]), str(cs[1]), str(Fr(rng.randint(-8, 8), 8)), str(Fr(rng.randint(-8, 8), 8))]
        return dict(id=idx, stream=stream, family=fam, outer=frs(outer), hole=frs(hole) if hole else None, op=op,
                    other=other.describe() if other else None, mot=mot, params=params, prows=prows,
                    api=rng.choice(["dom.random", "dom.random", "dom.grid", "smp.uniform"]), n=rng.choice([1, 2, 3, 7, 20]), seed=seed)
    # composed samplers over parameter-dependent modelled domains, >= 2 parameter rows
    params = rng.choice([["t"], ["t"], ["t", "D"]])
    k = rng.choice([2, 2, 3])
    prows = [{p: [str(Fr(rng.randint(0, 16), 16))] for p in params} for _ in range(k)]
    comp = rng.choice(["append", "append", "append", "concat", "product", "product", "static", "append-filter"])
    n = rng.choice([1, 2, 3, 5])

    def dom(var, dep, extra=()):
        g = Gen(rng, params=(params + list(extra)) if dep else [], p_dep=0.8)
        g.allow_rotate = g.allow_translate = False
        nd = g.prim(var)
        tries = 0
        while dep and not nd.free_vars() and tries < 20:
            nd = g.prim(var); tries += 1
        return nd
    if comp in ("append", "append-filter", "static"):
        va, vb = rng.choice([("x", "y"), ("y", "x"), ("x", "z"), ("y", "z")])
        a, b = dom(va, rng.random() < 0.5), dom(vb, True)
        if rng.random() < 0.5:
            a, b = b, a
    elif comp == "concat":
        v = rng.choice(["x", "y"])
        a, b = dom(v, rng.random() < 0.5), dom(v, True)
    else:
        # a * b: a's domain may depend on b's variable (and on the parameters), b's on the parameters
        b = dom("s", rng.random() < 0.7)
        a = dom(rng.choice(["x", "y"]), True, extra=["s"] if rng.random() < 0.6 else [])
    if comp == "product":
        # a's shape must stay non-degenerate for every value b can deliver (a negative width / radius is malformed input)
        import c01
        envs = []
        for r in prows:
            e = {q: [Fr(v[0])] for q, v in r.items()}
            (lo,), (hi,) = b.pfs[0].eval(e), b.pfs[1].eval(e)
            envs += [dict(e, s=[lo + (hi - lo) * Fr(i, 4)]) for i in range(5)]
        if not c01.nondeg_float(a, envs):
            return None
    kinds = [rng.choice(["uniform", "uniform", "grid", "uniform.d"]) for _ in range(2)]
    if comp in ("append", "append-filter", "static"):
        kinds = [rng.choice(["uniform", "grid"]) for _ in range(2)]     # both operands must deliver n rows per parameter row
    return dict(id=idx, stream="composed", comp=comp, a=a.describe(), b=b.describe(), kinds=kinds, params=params, prows=prows, n=n,
                d=rng.choice([2.0, 5.0]), seed=seed)


def two_var_prim(rng, var):
    """a primitive whose parameter functions depend on BOTH t and D (one function of two free variables)"""
    from geomgen import c as C, PF, dy
    T, Dv = ("v", "t", 0), ("v", "D", 0)
    sl = lambda: Fr(rng.choice([-3, -2, -1, 1, 2, 3]), 4)
    pos = lambda: Fr(rng.choice([1, 2, 3, 4]), 4)

    def aff2(base, a, b):
        return ("+", ("+", C(base), ("*", C(a), T)), ("*", C(b), Dv))
    if var == "y":
        lo = aff2(dy(rng, -2, 1), sl(), sl())
        return Node("interval", var, [PF([lo]), PF([("+", lo, aff2(dy(rng, 0.5, 2), pos(), pos()))])])
    if var == "z":
        return Node("sphere", var, [PF([aff2(dy(rng, -1, 1), sl(), sl()), C(dy(rng, -1, 1)), aff2(dy(rng, -1, 1), sl(), sl())]),
                                    PF([aff2(dy(rng, 0.5, 1.5), pos(), pos())])])
    kind = rng.choice(["circle", "circle", "par", "tri"])
    if kind == "circle":
        return Node("circle", var, [PF([aff2(dy(rng, -2, 2), sl(), sl()), aff2(dy(rng, -2, 2), sl(), sl())]),
                                    PF([aff2(dy(rng, 0.25, 1.5), pos(), pos())])])
    while True:
        o = [dy(rng, -2, 2), dy(rng, -2, 2)]
        d1 = [dy(rng, -3, 3), dy(rng, -3, 3)]
        d2 = [dy(rng, -3, 3), dy(rng, -3, 3)]
        if abs(d1[0] * d2[1] - d1[1] * d2[0]) >= 1:
            break
    a, b = sl(), sl()
    corner = lambda p: PF([aff2(p[0], a, b), aff2(p[1], b, a)])     # a common shift keeps the shape non-degenerate
    return Node(kind, var, [corner(o), corner([o[0] + d1[0], o[1] + d1[1]]), corner([o[0] + d2[0], o[1] + d2[1]])])


def make_peval_case(rng, idx, seed):
    """D(**vals): several copies evaluated in sequence from ONE original, an EARLIER copy is sampled"""
    from geomgen import c as C, PF, dy
    var = rng.choice(["x", "x", "x", "y", "z"])
    shape = rng.choice(["prim", "prim", "union", "cut", "translate", "bdry", "bdry"])
    a = two_var_prim(rng, var)
    if shape in ("prim", "bdry"):
        node = a
    elif shape == "union":
        node = Node("union", None, [], [a, two_var_prim(rng, var)])
    elif shape == "cut":
        # remove a small piece around a vertex-independent place: a disc / ball / interval far from covering a
        if var == "x":
            b = Node("circle", var, [PF([("+", C(dy(rng, -2, 2)), ("*", C(Fr(1, 2)), ("v", "D", 0))), C(dy(rng, -2, 2))]), PF([C(Fr(1, 4))])])
        elif var == "y":
            b = Node("interval", var, [PF([C(Fr(-50))]), PF([("+", C(Fr(-49)), ("*", C(Fr(1, 4)), ("v", "D", 0)))])])
        else:
            b = Node("sphere", var, [PF([C(Fr(9)), C(Fr(9)), ("+", C(Fr(9)), ("v", "D", 0))]), PF([C(Fr(1, 4))])])
        node = Node("cut", None, [], [a, b])
    else:
        n_ = geomgen.DIM[var]
        node = Node("translate", var, [PF([("+", C(dy(rng, -1, 1)), ("*", C(Fr(1, 2)), ("v", "D", 0)))] + [C(dy(rng, -1, 1)) for _ in range(n_ - 1)])], [a])
    fixvar = rng.choice(["D", "D", "t"])
    freevar = "t" if fixvar == "D" else "D"
    vals = [Fr(rng.randint(0, 16), 16) for _ in range(rng.choice([2, 3]))]
    while len(set(vals)) < len(vals):
        vals = [Fr(rng.randint(0, 16), 16) for _ in range(len(vals))]
    k = rng.choice([1, 2, 3])
    return dict(id=idx, stream="peval", dom=node.describe(), bdry=(shape == "bdry"), fixvar=fixvar, freevar=freevar,
                vals=[str(v) for v in vals], sampled=rng.randrange(len(vals) - 1), then_other=rng.random() < 0.3,
                prows=[{freevar: [str(Fr(rng.randint(0, 16), 16))]} for _ in range(k)],
                api=rng.choice(["dom.random", "dom.random", "dom.grid", "smp.uniform", "smp.grid"]), n=rng.choice([1, 2, 5, 20]), seed=seed)


class PFB(geomgen.PF):
    """parameter function whose Python form broadcasts its arguments (an evaluated variable is a 1-row default,
    the free one comes with all rows) — what a user has to write for `D(t=...)` to be usable with several rows"""

    def py(self, scalar=False, matrix=False):
        vs = self.vars()
        if not vs:
            return geomgen.PF.py(self, scalar=scalar, matrix=matrix)
        import torch
        comps = [geomgen.pt_py(t) if geomgen.pt_vars(t) else f"torch.full((1, 1), {float(geomgen.pt_eval(t, {}))!r})" for t in self.terms]
        src = (f"def _f({', '.join(vs)}):\n    comps = torch.broadcast_tensors({', '.join(comps)}, {', '.join(v + '[:, :1]' for v in vs)})\n"
               f"    return torch.cat(comps[:{len(comps)}], dim=1)\n")
        ns = {"torch": torch}
        exec(src, ns)
        return ns["_f"]


def broadcasting(node):
    node.pfs = [PFB(p.terms) for p in node.pfs]
    for kid in node.kids:
        broadcasting(kid)
    return node


def run_peval(cs, rep, lines, pending, inp):
    tp = common.use_repo()
    import torch
    node = broadcasting(geomgen.from_json(cs["dom"]))
    fv, free = cs["fixvar"], cs["freevar"]
    vals = [Fr(v) for v in cs["vals"]]
    what0 = f"D = {node.kind}[{','.join(node.free_vars())}]; copies D({fv}=v) for v in {[float(v) for v in vals]}"
    try:
        D0 = node.to_tp(tp)
        copies = [D0(**{fv: torch.tensor([[float(v)]])}) for v in vals]      # evaluated one after the other from ONE original
        if cs["then_other"]:
            D0(**{free: torch.tensor([[0.5]])})                               # ... and once in the other variable
        Dc = copies[cs["sampled"]]                                           # an EARLIER copy is sampled
        if cs["bdry"]:
            Dc = Dc.boundary
    except Exception as e:  # noqa
        rep.fail(f"{what0}: evaluating the domain failed: {type(e).__name__}: {str(e)[:160]}", inp)
        return
    v0 = vals[cs["sampled"]]
    rep.count("peval:" + ("bdry " if cs["bdry"] else "") + node.kind)
    names = [free]
    params = mk_params(tp, names, cs["prows"])
    prows = [{free: [Fr(r[free][0])]} for r in cs["prows"]]
    k, n, api = len(prows), cs["n"], cs["api"]
    if api in ("dom.grid",) and k > 1:
        api = "dom.random"
    if api == "dom.random":
        f = lambda: Dc.sample_random_uniform(n=n, params=params)
    elif api == "dom.grid":
        f = lambda: Dc.sample_grid(n=n, params=params)
    elif api == "smp.uniform":
        f = lambda: tp.samplers.RandomUniformSampler(Dc, n_points=n).sample_points(params)
    else:
        f = lambda: tp.samplers.GridSampler(Dc, n_points=n).sample_points(params)
    res, err = call(f)
    what = f"{what0}; the copy D({fv}={float(v0)}){'.boundary' if cs['bdry'] else ''} sampled by {api}(n={n}) with {k} rows of {free}"
    if err:
        rep.fail(f"{what} " + ("did not return within %ds" % TIMEOUT if err == "timeout" else "failed: " + err), inp)
        return
    co = res.coordinates
    if len(res) != n * k:
        rep.fail(f"{what} returned {len(res)} rows", inp)
        return
    var = node.vars()[0]
    dt = node.tokens()
    for r in range(len(res)):
        pt = [float(x) for x in co[var][r].tolist()]
        if not all(math.isfinite(x) for x in pt):
            rep.fail(f"{what} returned a non-finite point", inp)
            return
        fval = Fr(float(co[free][r, 0])) if api.startswith("smp.") else prows[r // n][free][0]
        env = {free: [fval], fv: [v0]}
        lines.append("sd " + dt + " " + env_tokens({var: [Fr(x) for x in pt]}) + " " + env_tokens(env))
        pending.append(("peval", what, inp, r, pt, env, cs["bdry"]))
        rep.count("peval:rows-checked")


def eval_peval(rep, item, rl):
    _, what, inp, r, pt, env, bdry = item
    if rl == "none" or rl.startswith("bad-op"):
        rep.disagree("drivers/C01.lean sd cannot evaluate a row of an evaluated domain", inp, pt, rl)
        return False
    m = Fr(rl)
    if m < -Fr(1, 5000) or (bdry and m > Fr(1, 5000)):
        rep.fail(f"{what}: row {r} is the point {pt} with { {q: float(v[0]) for q, v in env.items()} }: "
                 + ("outside the set the evaluated copy denotes" if m < 0 else "in the interior, not on the boundary of the evaluated copy")
                 + f" (exact signed margin {float(m):.4g} of D at the row's parameters and the value the copy was evaluated at)", inp,
                 detail=dict(row=r, point=pt))
        return True
    return False


# ---------------------------------------------------------------------------------------------
# constructor options: CutDomain(contained=True), UnionDomain(disjoint=True); Rotate.from_angles,
# ExponentialIntervalSampler, set_volume + density

def make_flagged_case(rng, idx, seed):
    from geomgen import c as C, PF, dy
    cst = lambda pt: PF([C(pt[0]), C(pt[1])])
    kind = rng.choice(["cut-contained", "cut-contained", "cut-contained", "union-disjoint"])
    if kind == "cut-contained":
        # B = sub-parallelogram at A's origin corner: inside A, sharing pieces of two edges of A (not boundary of A - B)
        axis = rng.random() < 0.6
        if axis:
            o = [dy(rng, -2, 2), dy(rng, -2, 2)]
            w, h = rng.choice([1, -1]) * dy(rng, 0.5, 3), rng.choice([1, -1]) * dy(rng, 0.5, 3)
            d1, d2 = ([w, Fr(0)], [Fr(0), h]) if rng.random() < 0.5 else ([Fr(0), h], [w, Fr(0)])
        else:
            while True:
                o = [dy(rng, -2, 2), dy(rng, -2, 2)]
                d1, d2 = [dy(rng, -3, 3), dy(rng, -3, 3)], [dy(rng, -3, 3), dy(rng, -3, 3)]
                if abs(d1[0] * d2[1] - d1[1] * d2[0]) >= 1 and 0 not in d1 + d2:
                    break
        s_, t_ = rng.choice([(Fr(1, 2), Fr(1, 2)), (Fr(1), Fr(1, 2)), (Fr(1, 2), Fr(1)), (Fr(1, 4), Fr(3, 4)), (Fr(3, 4), Fr(1))])
        a = Node("par", "x", [cst(o), cst([o[0] + d1[0], o[1] + d1[1]]), cst([o[0] + d2[0], o[1] + d2[1]])])
        b = Node("par", "x", [cst(o), cst([o[0] + s_ * d1[0], o[1] + s_ * d1[1]]), cst([o[0] + t_ * d2[0], o[1] + t_ * d2[1]])])
        inner = Node("cut", None, [], [a, b], flags={"contained": True} if rng.random() < 0.85 else None)
        P = lambda a_, b_: [str(o[0] + a_ * d1[0] + b_ * d2[0]), str(o[1] + a_ * d1[1] + b_ * d2[1])]
        shared = [[P(0, 0), P(s_, 0)], [P(0, 0), P(0, t_)]]
        if s_ == 1:
            shared.append([P(1, 0), P(1, t_)])        # B reaches A's far edge in direction d1
        if t_ == 1:
            shared.append([P(0, 1), P(s_, 1)])
    else:
        axis = True
        o = [dy(rng, -2, 0), dy(rng, -2, 2)]
        a = Node("par", "x", [cst(o), cst([o[0] + 1, o[1]]), cst([o[0], o[1] + dy(rng, 0.5, 2)])])
        o2 = [o[0] + dy(rng, 1.5, 3), o[1] + dy(rng, -1, 1)]
        b = Node("circle", "x", [cst(o2), PF([C(Fr(1, 2))])]) if rng.random() < 0.5 else \
            Node("tri", "x", [cst(o2), cst([o2[0] + 1, o2[1]]), cst([o2[0], o2[1] + 1])])
        inner = Node("union", None, [], [a, b], flags={"disjoint": True})
        shared = []
    part = rng.choice(["boundary", "boundary", "boundary", "interior"])
    api = rng.choice(["dom.random.d", "dom.grid.d", "smp.uniform.d", "smp.grid.d", "dom.random", "dom.grid", "smp.uniform"])
    return dict(id=idx, stream="flagged", kind=kind, axis_parallel=axis, dom=inner.describe(), shared=shared, part=part, api=api,
                n=rng.choice([2, 5, 20, 40]), d=rng.choice([3.7, 10.0, 40.0]), seed=seed)


RING16 = [(Fr(round(1024 * math.cos(2 * math.pi * i / 16)), 1024), Fr(round(1024 * math.sin(2 * math.pi * i / 16)), 1024)) for i in range(16)]
RING128 = [(Fr(round(4096 * math.cos(2 * math.pi * i / 128)), 4096), Fr(round(4096 * math.sin(2 * math.pi * i / 128)), 4096)) for i in range(128)]


def run_flagged(cs, rep, lines, pending, inp):
    tp = common.use_repo()
    node = geomgen.from_json(cs["dom"])
    try:
        D = node.to_tp(tp)
        if cs["part"] == "boundary":
            D = D.boundary
    except Exception as e:  # noqa
        rep.fail(f"building {cs['kind']} failed: {type(e).__name__}: {str(e)[:160]}", inp)
        return
    api, n, d = cs["api"], cs["n"], cs["d"]
    S = tp.samplers
    f = {"dom.random.d": lambda: D.sample_random_uniform(d=d), "dom.grid.d": lambda: D.sample_grid(d=d),
         "smp.uniform.d": lambda: S.RandomUniformSampler(D, density=d).sample_points(), "smp.grid.d": lambda: S.GridSampler(D, density=d).sample_points(),
         "dom.random": lambda: D.sample_random_uniform(n=n), "dom.grid": lambda: D.sample_grid(n=n),
         "smp.uniform": lambda: S.RandomUniformSampler(D, n_points=n).sample_points()}[api]
    res, err = call(f)
    flag = "contained=True" if (node.flags or {}).get("contained") else ("disjoint=True" if (node.flags or {}).get("disjoint") else "default flag")
    what = f"{'CutDomain' if node.kind == 'cut' else 'UnionDomain'}(A, B, {flag}){'.boundary' if cs['part'] == 'boundary' else ''} {api}(n={n}, d={d})"
    rep.count(f"flagged:{cs['kind']}:{flag}:{cs['part']}:{'axis' if cs['axis_parallel'] else 'slanted'}")
    rep.count("flagged:api:" + api)
    if err:
        rep.fail(f"{what} " + ("did not return within %ds" % TIMEOUT if err == "timeout" else "failed: " + err), inp)
        return
    t = res.as_tensor
    if not api.endswith(".d") and t.shape[0] != n:
        rep.fail(f"{what} returned {t.shape[0]} points", inp)
        return
    dt = node.tokens()
    scale = float(max(abs(Fr(x)) for seg in (cs["shared"] or [[["1", "1"]]]) for pt_ in seg for x in pt_) or 1)
    pts_all = t.tolist()
    # frontier (ring) test: all points close to a shared edge piece (at most 16) and 6 others
    near = [r for r, p in enumerate(pts_all) if all(math.isfinite(x) for x in p) and near_shared(cs, p) < 1e-3][:10]
    others = [r for r in range(len(pts_all)) if r not in near]
    ring_rows = set(near + others[:: max(1, len(others) // 4)][:4])
    for r, p in enumerate(pts_all):
        if not all(math.isfinite(x) for x in p):
            rep.fail(f"{what} returned a non-finite point", inp)
            return
        q = [Fr(x) for x in p]
        item = dict(kind="flag", what=what, inp=inp, p=p, q=q, dt=dt, bdry=(cs["part"] == "boundary" and r in ring_rows), cs=cs, stage=1, replies=[],
                    is_bdry=cs["part"] == "boundary")
        item["nlines"] = 1 + (16 if item["bdry"] else 0)
        lines.append("sd " + dt + " " + env_tokens({"x": q}) + " " + env_tokens({}))
        if item["bdry"]:
            for rad in (Fr(1, 200),):
                for dx, dy_ in RING16:
                    lines.append("sd " + dt + " " + env_tokens({"x": [q[0] + rad * dx, q[1] + rad * dy_]}) + " " + env_tokens({}))
        pending.append(item)
        rep.count("flagged:rows-checked")


def near_shared(cs, p):
    """distance of p to the shared edge pieces (pieces of A's boundary that are NOT boundary of A - B)"""
    return min([seg_dist(p, [Fr(x) for x in a], [Fr(x) for x in b]) for a, b in cs["shared"]] or [1e9])


def eval_flagged(rep, item, replies, escalate):
    what, inp, p, cs = item["what"], item["inp"], item["p"], item["cs"]
    if any(r == "none" or r.startswith("bad-op") for r in replies):
        rep.disagree("drivers/C01.lean sd cannot evaluate a flagged domain", inp, p, replies[0])
        return
    if item["stage"] == 1:
        m = Fr(replies[0])
        if m < -Fr(1, 5000) or (item["is_bdry"] and m > Fr(1, 5000)):
            rep.fail(f"{what} returned the point {p}: " + ("outside the denoted set" if m < 0 else "in the interior, not on the boundary")
                     + f" (exact signed margin {float(m):.4g})", inp, detail=dict(point=p))
            return
        if not item["bdry"]:
            return
        ring = [Fr(x) for x in replies[1:]]
    else:
        ring = [Fr(x) for x in replies]
    has_in, has_out = any(x > 0 for x in ring), any(x < 0 for x in ring)
    if has_in and has_out:
        rep.count("flagged:frontier-confirmed" + ("(escalated)" if item["stage"] == 2 else ""))
        return
    if item["stage"] == 1:
        # 16 directions at two radii saw only one side: look much closer before concluding anything (sharp corners)
        item["stage"] = 2
        escalate.append(item)
        return
    side = "the complement" if not has_in else "the set"
    slanted = not cs["axis_parallel"]
    finding = None
    if slanted and cs["kind"] == "cut-contained" and not has_in and near_shared(cs, p) < 1e-5 * 10:
        finding = "cut_shared_boundary_piece"
    rep.fail(f"{what} returned the point {p}: it has margin ~0 but every one of 256 points around it (128 directions, radii 1e-4 and 1e-2; the corners of these shapes are wider than 3 degrees) lies in {side} — "
             f"the point is on an edge of an operand, not on the boundary of the set (distance to the shared edge pieces of A and B: {near_shared(cs, p):.3g})",
             inp, detail=dict(point=p), finding=finding)


def make_options_case(rng, idx, seed):
    from geomgen import c as C, PF, dy
    opt = rng.choice(["from_angles", "from_angles", "exp-interval", "exp-interval", "set_volume"])
    k = rng.choice([1, 2, 3])
    trows = [str(Fr(rng.randint(0, 16), 16)) for _ in range(k)]
    if opt == "from_angles":
        g = Gen(rng, params=["t"], p_dep=0.5)
        g.allow_rotate = g.allow_translate = False
        inner = g.prim2("x")
        return dict(id=idx, stream="options", opt=opt, dom=inner.describe(), quarter=rng.choice([0, 1, 2, 3]), dep=rng.random() < 0.5,
                    ctr=[str(dy(rng, -1, 1)), str(dy(rng, -1, 1))], trows=trows, part=rng.choice(["interior", "boundary"]),
                    api=rng.choice(["dom.random", "dom.grid", "smp.uniform"]), n=rng.choice([1, 3, 10]), seed=seed)
    if opt == "exp-interval":
        g = Gen(rng, params=["t"], p_dep=0.7)
        return dict(id=idx, stream="options", opt=opt, dom=g.prim1("y").describe(), exponent=rng.choice([0.5, 0.25, 2.0, 3.0]), trows=trows,
                    n=rng.choice([1, 2, 5, 20]), seed=seed)
    g = Gen(rng, params=["t"], p_dep=0.5)
    g.allow_rotate = g.allow_translate = False
    return dict(id=idx, stream="options", opt=opt, dom=g.prim(rng.choice(["x", "y", "z"])).describe(), volume=rng.choice([0.5, 2.0, 7.0]),
                trows=trows[:1], d=rng.choice([1.0, 4.0]), api=rng.choice(["dom.random.d", "dom.grid.d", "smp.uniform.d"]), seed=seed)


def run_options(cs, rep, lines, pending, inp):
    tp = common.use_repo()
    import torch
    from torchphysics.problem.domains.domainoperations.rotate import Rotate
    node = geomgen.from_json(cs["dom"])
    opt = cs["opt"]
    prows = [{"t": [t]} for t in cs["trows"]]
    params = mk_params(tp, ["t"], prows)
    k = len(prows)
    rep.count("options:" + opt)
    judge = node
    try:
        if opt == "from_angles":
            # quarter turns (exact cos / sin up to float32 rounding of pi/2: 4e-8); optionally the angle depends on t as q*pi/2 + 0*t
            ang = cs["quarter"] * math.pi / 2
            angle = (lambda t: ang + 0.0 * t) if cs["dep"] else ang
            ctr = [float(Fr(a)) for a in cs["ctr"]]
            D = Rotate.from_angles(node.to_tp(tp), angle, rotate_around=ctr)
            co, si = [(1, 0), (0, 1), (-1, 0), (0, -1)][cs["quarter"]]
            judge = Node("rotate", "x", [geomgen.PF([geomgen.c(co), geomgen.c(-si), geomgen.c(si), geomgen.c(co)]),
                                         geomgen.PF([geomgen.c(Fr(cs["ctr"][0])), geomgen.c(Fr(cs["ctr"][1]))])], [node])
            bdry = cs["part"] == "boundary"
            if bdry:
                D = D.boundary
            api, n = cs["api"], cs["n"]
            if api == "dom.grid" and k > 1:
                api = "dom.random"
            f = {"dom.random": lambda: D.sample_random_uniform(n=n, params=params), "dom.grid": lambda: D.sample_grid(n=n, params=params),
                 "smp.uniform": lambda: tp.samplers.RandomUniformSampler(D, n_points=n).sample_points(params)}[api]
            what = f"Rotate.from_angles({node.kind}[{','.join(node.free_vars())}], {cs['quarter']}*pi/2{' (callable)' if cs['dep'] else ''}){'.boundary' if bdry else ''} {api}(n={n}) with {k} rows"
            per_row = n
        elif opt == "exp-interval":
            D = node.to_tp(tp)
            n = cs["n"]
            f = lambda: tp.samplers.ExponentialIntervalSampler(D, n, cs["exponent"]).sample_points(params)
            what = f"ExponentialIntervalSampler(interval[{','.join(node.free_vars())}], n={n}, exponent={cs['exponent']}) with {k} rows"
            bdry, api, per_row = False, "smp.exp", n
        else:
            D = node.to_tp(tp)
            D.set_volume(cs["volume"])
            d, api = cs["d"], cs["api"]
            f = {"dom.random.d": lambda: D.sample_random_uniform(d=d, params=params), "dom.grid.d": lambda: D.sample_grid(d=d, params=params),
                 "smp.uniform.d": lambda: tp.samplers.RandomUniformSampler(D, density=d).sample_points(params)}[api]
            what = f"{node.kind}.set_volume({cs['volume']}) then {api}(d={d}) with {k} row"
            bdry, per_row = False, None
    except Exception as e:  # noqa
        rep.fail(f"option {opt}: construction failed: {type(e).__name__}: {str(e)[:160]}", inp)
        return
    res, err = call(f)
    if err:
        rep.fail(f"{what} " + ("did not return within %ds" % TIMEOUT if err == "timeout" else "failed: " + err), inp)
        return
    co_ = res.coordinates
    if per_row is not None and len(res) != per_row * k:
        rep.fail(f"{what} returned {len(res)} rows", inp)
        return
    var = node.vars()[0]
    dt = judge.tokens()
    for r in range(len(res)):
        pt = [float(x) for x in co_[var][r].tolist()]
        if not all(math.isfinite(x) for x in pt):
            rep.fail(f"{what} returned a non-finite point", inp)
            return
        tval = Fr(float(co_["t"][r, 0])) if "t" in co_ else (Fr(cs["trows"][r // per_row]) if per_row else Fr(cs["trows"][0]))
        env = {"t": [tval]}
        lines.append("sd " + dt + " " + env_tokens({var: [Fr(x) for x in pt]}) + " " + env_tokens(env))
        pending.append(("peval", what, inp, r, pt, env, bdry))
        rep.count("options:rows-checked")


def make_fixed_append(rng, idx):
    params = ["t"]
    k = rng.choice([2, 3])
    vals = rng.sample(range(0, 17, 4), k)                      # distinct, well separated parameter values
    prows = [{"t": [str(Fr(v, 16))]} for v in vals]
    va, vb = rng.choice([("x", "y"), ("y", "x"), ("x", "z")])
    g0 = Gen(rng, params=[], p_dep=0.0)
    g0.allow_rotate = g0.allow_translate = False
    a = g0.prim(va)
    from geomgen import c as C, PF, dy
    T = ("v", "t", 0)
    # the dependent operand moves by 4 units per unit of t: samples of different rows are far apart
    if vb == "y":
        lo = ("+", C(dy(rng, -2, 1)), ("*", C(Fr(4)), T))
        b = Node("interval", "y", [PF([lo]), PF([("+", lo, C(dy(rng, 0.5, 1)))])])
    else:
        ctr = [("+", C(dy(rng, -2, 2)), ("*", C(Fr(4)), T))] + [C(dy(rng, -1, 1)) for _ in range(geomgen.DIM[vb] - 1)]
        b = Node("circle" if vb == "x" else "sphere", vb, [PF(ctr), PF([C(dy(rng, 0.5, 1))])])
    first_indep = rng.random() < 0.5
    return dict(id=idx, stream="composed", comp="append", a=(a if first_indep else b).describe(), b=(b if first_indep else a).describe(),
                kinds=(["grid", rng.choice(["uniform", "grid"])] if first_indep else [rng.choice(["uniform", "grid"]), "grid"]),
                params=params, prows=prows, n=rng.choice([2, 3, 5]), d=2.0, seed=rng.randint(0, 2 ** 31 - 1))


# ---------------------------------------------------------------------------------------------
# implementation runs

def mk_params(tp, names, prows):
    import torch
    if not names or not prows:
        return tp.spaces.Points.empty()
    sp = None
    for p in names:
        s = tp.spaces.R1(p)
        sp = s if sp is None else sp * s
    return tp.spaces.Points(torch.tensor([[float(Fr(r[p][0])) for p in names] for r in prows], dtype=torch.float32), sp)


def call(f):
    try:
        return common.call_with_timeout(TIMEOUT, f), None
    except common.CallTimeout:
        return None, "timeout"
    except Exception as e:  # noqa
        return None, f"{type(e).__name__}: {str(e)[:160]}"


def sampler_of(tp, kind, dom, n, d, flt=None):
    S = tp.samplers
    if kind == "uniform":
        return S.RandomUniformSampler(dom, n_points=n, filter_fn=flt)
    if kind == "grid":
        return S.GridSampler(dom, n_points=n)
    return S.RandomUniformSampler(dom, density=d)


def run_case(cs, rep, lines, pending):
    """executes one case; oracle evaluation that needs the Lean driver is queued in `lines` / `pending`"""
    tp = common.use_repo()
    import torch
    import warnings
    warnings.filterwarnings("ignore")
    st = cs["stream"]
    torch.manual_seed(cs["seed"])
    inp = dict(cs)
    rep.count("stream:" + st)
    if st == "polygon":
        from torchphysics.problem.domains.domain2D.shapely_polygon import ShapelyPolygon
        import shapely.geometry as sg
        outer, hole = unfrs(cs["outer"]), unfrs(cs["hole"]) if cs["hole"] else None
        X = tp.spaces.R2("x")
        fo = [[float(a), float(b)] for a, b in outer]
        if hole:
            P = ShapelyPolygon(X, shapely_polygon=sg.Polygon(fo, [[[float(a), float(b)] for a, b in hole]]))
        else:
            P = ShapelyPolygon(X, vertices=fo)
        if not P.polygon.is_valid:
            rep.count("polygon:skipped(invalid geometry generated)")
            return
        D = P.boundary if cs["part"] == "boundary" else P
        api, n, d = cs["api"], cs["n"], cs["d"]
        rep.count(f"polygon:{cs['family']}:{cs['part']}")
        rep.count("polygon:api:" + api)
        xcheck = 0
        for r in range(cs["reps"]):
            if api == "dom.random":
                f = lambda: D.sample_random_uniform(n=n)
            elif api == "dom.random.d":
                f = lambda: D.sample_random_uniform(d=d)
            elif api == "dom.grid":
                f = lambda: D.sample_grid(n=n)
            elif api == "dom.grid.d":
                f = lambda: D.sample_grid(d=d)
            elif api == "smp.uniform":
                f = lambda: tp.samplers.RandomUniformSampler(D, n_points=n).sample_points()
            else:
                f = lambda: tp.samplers.GridSampler(D, n_points=n).sample_points()
            res, err = call(f)
            what = f"ShapelyPolygon({cs['family']}{', hole' if hole else ''}).{cs['part']} {api}(n={n}, d={d})"
            if err:
                rep.fail(f"{what} " + ("did not return within %ds" % TIMEOUT if err == "timeout" else "failed: " + err), inp)
                return
            t = res.as_tensor
            if not api.endswith(".d") and t.shape[0] != n:
                rep.fail(f"{what} returned {t.shape[0]} points", inp)
                return
            for p in t.tolist():
                rep.count("opaque:rows-checked")
                if not all(math.isfinite(a) for a in p):
                    rep.fail(f"{what} returned a non-finite point {p}", inp)
                    return
                m = poly_margin(outer, hole, p)
                if xcheck < 30:
                    xcheck += 1
                    # the Lean model of the even-odd denotation (Model/GeomPoly.lean) must give the same verdict
                    q = (Fr(p[0]), Fr(p[1]))
                    io = poly_contains(outer, q); ih = poly_contains(hole, q) if hole else False
                    want = "edge" if (io is None or ih is None) else ("1" if (io and not ih) else "0")
                    lines.append("poly " + common.lst(outer, lambda v: common.q(v[0]) + " " + common.q(v[1])) + " "
                                 + common.lst(hole or [], lambda v: common.q(v[0]) + " " + common.q(v[1])) + " " + common.q(q[0]) + " " + common.q(q[1]))
                    pending.append(lambda rl, want=want, p=p: (rep.count("polygon:lean-model-agrees") if rl == want else
                                                                rep.disagree("even-odd polygon oracle: harness and Lean model (Model/GeomPoly.lean) differ", inp, want, rl)))
                if m < -EPS or (cs["part"] == "boundary" and m > EPS):
                    rep.fail(f"{what} returned the point {p}: " + ("outside the polygon" if m < 0 else "in the interior, not on the boundary")
                             + f" (even-odd rule in exact arithmetic; distance to the nearest edge {abs(m):.4g} relative to the size)", inp,
                             detail=dict(point=p, margin=m))
                    return
        return
    if st == "mesh":
        from torchphysics.problem.domains.domain3D.trimesh_polyhedron import TrimeshPolyhedron
        V = [[Fr(a) for a in v] for v in cs["V"]]
        Z = tp.spaces.R3("z")
        P = TrimeshPolyhedron(Z, vertices=[[float(a) for a in v] for v in V], faces=cs["F"])
        D = P.boundary if cs["part"] == "boundary" else P
        api, n, d = cs["api"], cs["n"], cs["d"]
        rep.count(f"mesh:{cs['family']}:{cs['part']}")
        if api == "dom.random":
            f = lambda: D.sample_random_uniform(n=n)
        elif api == "dom.random.d":
            f = lambda: D.sample_random_uniform(d=d)
        elif api == "dom.grid":
            f = lambda: D.sample_grid(n=n)
        else:
            f = lambda: tp.samplers.RandomUniformSampler(D, n_points=n).sample_points()
        res, err = call(f)
        what = f"TrimeshPolyhedron({cs['family']}).{cs['part']} {api}(n={n}, d={d})"
        if err:
            rep.fail(f"{what} " + ("did not return within %ds" % TIMEOUT if err == "timeout" else "failed: " + err), inp)
            return
        t = res.as_tensor
        if not api.endswith(".d") and t.shape[0] != n:
            rep.fail(f"{what} returned {t.shape[0]} points", inp)
            return
        for p in t.tolist():
            rep.count("opaque:rows-checked")
            m = mesh_margin(V, cs["F"], p) if all(math.isfinite(a) for a in p) else float("nan")
            if not (m >= -EPS) or (cs["part"] == "boundary" and m > EPS):
                rep.fail(f"{what} returned the point {p}: " + ("outside the polyhedron" if not m > 0 else "in the interior, not on the surface")
                         + f" (half-space test in exact arithmetic, margin {m:.4g})", inp, detail=dict(point=p, margin=m))
                return
        return
    if st == "point":
        var, dim = cs["var"], len(cs["base"])
        base, slope = [Fr(b) for b in cs["base"]], [Fr(s) for s in cs["slope"]]
        sp = {1: tp.spaces.R1, 2: tp.spaces.R2, 3: tp.spaces.R3}[dim](var)
        if cs["dep"]:
            src = "def _p(t):\n    return torch.column_stack([" + ", ".join(f"{float(b)!r} + {float(s)!r} * t[:, :1]" for b, s in zip(base, slope)) + "])\n"
            ns = {"torch": torch}
            exec(src, ns)
            coord = ns["_p"]
        else:
            coord = [float(b) for b in base] if dim > 1 else float(base[0])
        P = tp.domains.Point(sp, coord)
        prows = [{"t": [t]} for t in cs["trows"]]
        params = mk_params(tp, ["t"], prows)
        api, n = cs["api"], cs["n"]
        if api == "dom.random":
            f = lambda: P.sample_random_uniform(n=n, params=params)
        elif api == "dom.grid":
            f = lambda: P.sample_grid(n=n, params=params)
        else:
            f = lambda: tp.samplers.RandomUniformSampler(P, n_points=n).sample_points(params)
        res, err = call(f)
        what = f"Point({'moving' if cs['dep'] else 'fixed'}, dim {dim}) {api}(n={n}) with {len(prows)} parameter rows"
        if err:
            rep.fail(f"{what} failed: {err}", inp)
            return
        co = res.coordinates
        k = len(prows)
        if len(res) != n * max(k, 1):
            rep.fail(f"{what} returned {len(res)} rows", inp)
            return
        for r in range(len(res)):
            tval = float(co["t"][r, 0]) if (api.startswith("smp.") and k) else (float(Fr(cs["trows"][r // n])) if k else 0.0)
            want = [float(b) + float(s) * tval for b, s in zip(base, slope)]
            got = [float(x) for x in co[var][r].tolist()]
            rep.count("opaque:rows-checked")
            if any(not math.isfinite(g) or abs(g - w) > 1e-4 * max(1.0, abs(w)) for g, w in zip(got, want)):
                rep.fail(f"{what} returned {got} in row {r}, the point of that row's parameter t={tval} is {want}", inp)
                return
        return
    if st == "peval":
        return run_peval(cs, rep, lines, pending, inp)
    if st == "flagged":
        return run_flagged(cs, rep, lines, pending, inp)
    if st == "options":
        return run_options(cs, rep, lines, pending, inp)
    if st == "polycombo":
        return run_polycombo(cs, rep, lines, pending, inp)
    return run_composed(cs, rep, lines, pending, inp)


def run_polycombo(cs, rep, lines, pending, inp):
    tp = common.use_repo()
    import torch
    import shapely.geometry as sg
    from torchphysics.problem.domains.domain2D.shapely_polygon import ShapelyPolygon
    from torchphysics.problem.domains.domainoperations.translate import Translate
    from torchphysics.problem.domains.domainoperations.rotate import Rotate
    outer, hole = unfrs(cs["outer"]), unfrs(cs["hole"]) if cs["hole"] else None
    X = tp.spaces.R2("x")
    fo = [[float(a), float(b)] for a, b in outer]
    P = ShapelyPolygon(X, shapely_polygon=sg.Polygon(fo, [[[float(a), float(b)] for a, b in hole]])) if hole else ShapelyPolygon(X, vertices=fo)
    if not P.polygon.is_valid:
        rep.count("polycombo:skipped(invalid geometry generated)")
        return
    op = cs["op"]
    other = geomgen.from_json(cs["other"]) if cs["other"] else None
    prows = [{p: [Fr(v[0])] for p, v in r.items()} for r in cs["prows"]]
    names = cs["params"]
    # positive measure of cut / intersection at every row (float lattice; generator-side only)
    if op in ("P-N", "P&N", "N-P", "N&P"):
        import c01
        xs = [float(v[0]) for v in outer]; ys = [float(v[1]) for v in outer]
        for env in (prows or [{}]):
            box = [(min(xs), max(xs)), (min(ys), max(ys))] if op[0] == "P" else c01.bbox_float(other, env)
            cnt = 0
            for i in range(14):
                for j in range(14):
                    p = [box[0][0] + (box[0][1] - box[0][0]) * (i + .5) / 14, box[1][0] + (box[1][1] - box[1][0]) * (j + .5) / 14]
                    mp, mn = poly_margin(outer, hole, p), c01.sd_float(other, {"x": p}, env)
                    m = {"P-N": min(mp, -mn), "P&N": min(mp, mn), "N-P": min(mn, -mp), "N&P": min(mn, mp)}[op]
                    cnt += m > 0.02
            if cnt < 10:
                rep.count("polycombo:skipped(no positive measure)")
                return
    try:
        N = other.to_tp(tp) if other else None
        if op == "P-N": D = P - N
        elif op == "P&N": D = P & N
        elif op == "P+N": D = P + N
        elif op == "N-P": D = N - P
        elif op == "N&P": D = N & P
        elif op == "translate": D = Translate(P, [float(Fr(a)) for a in cs["mot"]])
        elif op == "rotate":
            co, si, cx, cy = [float(Fr(a)) for a in cs["mot"]]
            D = Rotate(P, [[co, -si], [si, co]], [cx, cy])
        else: D = P * N
    except Exception as e:  # noqa
        rep.fail(f"building {op} with a ShapelyPolygon failed: {type(e).__name__}: {str(e)[:160]}", inp)
        return
    rep.count("polycombo:" + op)
    params = mk_params(tp, names, cs["prows"])
    api, n = cs["api"], cs["n"]
    k = len(prows)
    if api == "dom.grid" and (k > 1 or op == "PxI"):
        api = "dom.random"
    if api == "dom.random":
        f = lambda: D.sample_random_uniform(n=n, params=params)
    elif api == "dom.grid":
        f = lambda: D.sample_grid(n=n, params=params)
    else:
        f = lambda: tp.samplers.RandomUniformSampler(D, n_points=n).sample_points(params)
    res, err = call(f)
    what = f"{op} (P = ShapelyPolygon {cs['family']}) {api}(n={n}) with {k} parameter rows"
    if err:
        rep.fail(f"{what} " + ("did not return within %ds" % TIMEOUT if err == "timeout" else "failed: " + err), inp)
        return
    co = res.coordinates
    if len(res) != n * max(k, 1):
        rep.fail(f"{what} returned {len(res)} rows", inp)
        return
    for r in range(len(res)):
        p = [float(a) for a in co["x"][r].tolist()]
        if api.startswith("smp.") and k:
            env = {q: [Fr(float(co[q][r, 0]))] for q in names}
        else:
            env = prows[r // n] if k else {}
        rep.count("opaque:rows-checked")
        if not all(math.isfinite(a) for a in p):
            rep.fail(f"{what} returned a non-finite point", inp)
            return
        if op == "translate":
            tx, ty = [float(Fr(a)) for a in cs["mot"]]
            mp = poly_margin(outer, hole, [p[0] - tx, p[1] - ty])
        elif op == "rotate":
            c_, s_, cx, cy = [float(Fr(a)) for a in cs["mot"]]
            qx, qy = p[0] - cx, p[1] - cy
            mp = poly_margin(outer, hole, [c_ * qx + s_ * qy + cx, -s_ * qx + c_ * qy + cy])
        else:
            mp = poly_margin(outer, hole, p)
        if other is None:
            finish_combo(rep, what, inp, op, p, env, mp, None)
        else:
            pt = {"x": p} if op != "PxI" else {"s": [float(co["s"][r, 0])]}
            lines.append("sd " + other.tokens() + " " + env_tokens({v: [Fr(a) for a in xs] for v, xs in pt.items()}) + " " + env_tokens(env))
            pending.append((lambda rl, what=what, p=p, env=env, mp=mp: finish_combo(rep, what, inp, op, p, env, mp, rl)))


def finish_combo(rep, what, inp, op, p, env, mp, rl):
    if rl is None:
        m = mp
    else:
        if rl == "none" or rl.startswith("bad-op"):
            rep.disagree("drivers/C01.lean sd cannot evaluate the modelled operand", inp, p, rl)
            return
        mn = float(Fr(rl))
        m = {"P-N": min(mp, -mn), "P&N": min(mp, mn), "N&P": min(mp, mn), "P+N": max(mp, mn), "N-P": min(mn, -mp), "PxI": min(mp, mn)}[op]
    if m < -EPS:
        rep.fail(f"{what} returned the point {p} for the parameter row { {q: float(v[0]) for q, v in env.items()} }: outside the denoted set "
                 f"(polygon by the even-odd rule in exact arithmetic, modelled operand by the Lean signed margin; combined margin {m:.4g})",
                 inp, detail=dict(point=p, margin=m))


def run_composed(cs, rep, lines, pending, inp):
    tp = common.use_repo()
    import torch
    a, b = geomgen.from_json(cs["a"]), geomgen.from_json(cs["b"])
    names, n, d, comp = cs["params"], cs["n"], cs["d"], cs["comp"]
    params = mk_params(tp, names, cs["prows"])
    k = len(cs["prows"])
    rep.count("composed:" + comp)
    rep.count("composed:kinds:" + "+".join(cs["kinds"]))
    flt = None
    if comp == "append-filter":
        va = a.vars()[0]
        src = f"def _flt({va}):\n    return {va}[:, :1] > -1000.0\n"       # always true: exercises the per-row filter loop
        ns = {}
        exec(src, ns)
        flt = ns["_flt"]
    try:
        da, db = a.to_tp(tp), b.to_tp(tp)
        sa = sampler_of(tp, cs["kinds"][0], da, n, d, flt)
        sb = sampler_of(tp, cs["kinds"][1], db, n, d)
        if comp in ("append", "append-filter"):
            smp = sa.append(sb)
        elif comp == "concat":
            smp = sa + sb
        elif comp == "product":
            smp = sa * sb
        else:
            smp = sa.append(sb).make_static()
    except Exception as e:  # noqa
        rep.fail(f"building the sampler composition {comp} failed: {type(e).__name__}: {str(e)[:160]}", inp)
        return

    def f():
        r = smp.sample_points(params)
        if comp == "static":
            r2 = smp.sample_points(params)
            assert r2 is r or torch.equal(r2.as_tensor, r.as_tensor)
        return r
    res, err = call(f)
    what = f"sampler composition {comp}({cs['kinds'][0]} over {a.kind}[{','.join(a.free_vars())}], {cs['kinds'][1]} over {b.kind}[{','.join(b.free_vars())}]), n={n}, {k} parameter rows"
    if err:
        if comp in ("append", "append-filter", "static") and "uniform.d" in cs["kinds"]:
            rep.count("composed:skipped(unequal lengths)")
            return
        rep.fail(f"{what} " + ("did not return within %ds" % TIMEOUT if err == "timeout" else "failed: " + err), inp)
        return
    co = res.coordinates
    missing = [q for q in names if q not in co]
    if missing:
        rep.fail(f"{what}: the output lacks the parameter columns {missing}", inp)
        return
    # which rows belong to which operand
    va, vb = a.vars()[0], b.vars()[0]
    for r in range(len(res)):
        env = {q: [Fr(float(co[q][r, 0]))] for q in names}
        checks = []
        if comp == "concat":
            # rows of a first, then rows of b; with a density the split is unknown: accept membership in either
            checks.append(("either", a, b, va))
        else:
            checks.append(("one", a, None, va))
            checks.append(("one", b, None, vb))
        for mode, d1, d2, var in checks:
            pt = {var: [float(x) for x in co[var][r].tolist()]}
            if not all(math.isfinite(x) for x in pt[var]):
                rep.fail(f"{what} returned a non-finite coordinate in row {r}", inp)
                return
            e = dict(env)
            if comp == "product" and d1 is a:
                e["s"] = [Fr(float(co["s"][r, 0]))]         # a's domain may depend on b's variable
            pe = {var: [Fr(x) for x in pt[var]]}
            lines.append("sd " + d1.tokens() + " " + env_tokens(pe) + " " + env_tokens(e))
            if mode == "either":
                lines.append("sd " + d2.tokens() + " " + env_tokens(pe) + " " + env_tokens(e))
            pending.append(("composed", mode, what, inp, r, pt, env, d1.kind))
            rep.count("composed:row-components-checked")


def eval_composed(rep, item, replies):
    _, mode, what, inp, r, pt, env, kind = item
    ms = []
    for rl in replies:
        if rl == "none" or rl.startswith("bad-op"):
            rep.disagree("drivers/C01.lean sd cannot evaluate a component of a sampler row", inp, pt, rl)
            return
        ms.append(Fr(rl))
    m = max(ms)
    if m < -Fr(1, 5000):
        rep.fail(f"{what}: row {r} carries the point {pt} ({kind}) together with the parameter values "
                 f"{ {q: float(v[0]) for q, v in env.items()} } — at THIS parameter row the point lies outside its domain "
                 f"(exact signed margin {float(m):.4g})", inp, detail=dict(row=r, point=pt, row_params={q: str(v[0]) for q, v in env.items()}))


# ---------------------------------------------------------------------------------------------

def run(ctx, rep, cases=None):
    if cases is None:
        # fixed share: `append` of a parameter-INDEPENDENT operand (grid / density: sampled once and tiled over the parameter rows)
        # with a parameter-DEPENDENT one, 2-3 parameter rows — the row orders of the two code paths must agree
        cases = [c_ for c_ in (make_fixed_append(ctx.rng, 10 ** 5 + j) for j in range(ctx.scale(8, 40))) if c_]
        want = ctx.scale(330, 3300)
        i = 0
        while len(cases) < want and i < 3 * want:
            cs = make_case(ctx, i)
            i += 1
            if cs is not None:
                cases.append(cs)
    lines, pending = [], []
    marks = []
    for cs in cases:
        nf = len(rep.failures)
        a = len(pending)
        run_case(cs, rep, lines, pending)
        key = {k: v for k, v in cs.items() if k not in ("id", "seed")}
        rep.case(key, True, sample=dict(stream=cs["stream"], case={k: (v if not isinstance(v, (list, dict)) else str(v)[:120]) for k, v in cs.items()}),
                 kind="opaque:" + cs["stream"] + ":" + str(cs.get("family") or cs.get("comp") or ""))
    replies = common.run_driver("C01", lines) if lines else []
    pos = 0
    failed_cases = set()
    escalate = []
    for item in pending:
        if isinstance(item, dict):
            cid = item["inp"]["id"]
            nf = len(rep.failures) + len(rep.known_hits)
            if cid not in failed_cases:
                eval_flagged(rep, item, replies[pos:pos + item["nlines"]], escalate)
                if len(rep.failures) + len(rep.known_hits) > nf:
                    failed_cases.add(cid)
            pos += item["nlines"]
        elif callable(item):
            rl = replies[pos]; pos += 1
            item(rl)
        elif item[0] == "peval":
            cid = item[2]["id"]
            if cid not in failed_cases and eval_peval(rep, item, replies[pos]):
                failed_cases.add(cid)
            pos += 1
        else:
            cnt = 2 if item[1] == "either" else 1
            cid = item[3]["id"]
            if cid not in failed_cases:
                nf = len(rep.failures)
                eval_composed(rep, item, replies[pos:pos + cnt])
                if len(rep.failures) > nf:
                    failed_cases.add(cid)
            pos += cnt
    # second stage of the frontier test for boundary samples of flagged domains: 128 directions, two radii
    if escalate:
        lines2 = []
        for item in escalate:
            q, dt = item["q"], item["dt"]
            for rad in (Fr(1, 10000), Fr(1, 100)):
                for dx, dy_ in RING128:
                    lines2.append("sd " + dt + " " + env_tokens({"x": [q[0] + rad * dx, q[1] + rad * dy_]}) + " " + env_tokens({}))
        rep2 = common.run_driver("C01", lines2)
        rep.count("flagged:escalated-points", len(escalate))
        for i, item in enumerate(escalate):
            cid = item["inp"]["id"]
            if cid in failed_cases:
                continue
            nf = len(rep.failures) + len(rep.known_hits)
            eval_flagged(rep, item, rep2[i * 256:(i + 1) * 256], escalate)
            if len(rep.failures) + len(rep.known_hits) > nf:
                failed_cases.add(cid)
