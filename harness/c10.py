"""C10 — volume() is the true measure of the domain; density sampling yields density x measure points.

Correspondence: `Domain.volume(params)` (value per parameter row, "estimate" warning) against the Lean model
`TPV.Geom.volume` (lean/TPV/Model/GeomVol.lean, run in double precision by drivers/C10.lean), also after
partial evaluation `D(**sigma)`; the point counts of density sampling against `densityCount` (exact rational
ceil) and the grid dimensions `gridDims` / `baryGrid` / `triGrid`.

Property oracles (independent of the model, run on every case): the analytic Lebesgue / surface measure
recomputed here from the exact rational inputs (closed forms, additivity for unions that ARE disjoint,
subtractivity for cuts that ARE contained, products, invariance under motions / partial evaluation, user
override) must equal volume() row by row; density sampling must return ceil(d*measure) points
(primitives, random), a complete regular grid of at most that many (grids), exactly the accepted draws of
the recorded tape (triangle), sums / binomial ranges for Boolean combinations."""
import math
import warnings
from fractions import Fraction as Fr
from unittest import mock

import common
import c10_poly
import geomgen
from common import q
from geomgen import PF, Node, Gen, c, dy, env_tokens

REL = 2e-5        # float32 volume against double precision model / analytic value
CNT_EPS = 4e-6    # relative margin of d*volume around an integer inside which both neighbours are accepted
PRIMS = ("interval", "par", "tri", "circle", "sphere")


# ---------------------------------------------------------------------------------------------
# views of a volume expression (geomgen.Node + kinds `point`, `uservol`, flags disjoint / contained)

def vtokens(n):
    k = n.kind
    if k in PRIMS or k == "point":
        return " ".join([k, n.var] + [p.tokens() for p in n.pfs])
    if k == "union":
        return f"union {1 if n.flags.get('disjoint') else 0} {vtokens(n.kids[0])} {vtokens(n.kids[1])}"
    if k == "cut":
        return f"cut {1 if n.flags.get('contained') else 0} {vtokens(n.kids[0])} {vtokens(n.kids[1])}"
    if k in ("inter", "prod"):
        return f"{k} {vtokens(n.kids[0])} {vtokens(n.kids[1])}"
    if k == "translate":
        return f"translate {n.var} {vtokens(n.kids[0])} {n.pfs[0].tokens()}"
    if k == "rotate":
        return f"rotate {n.var} {vtokens(n.kids[0])} {n.pfs[0].tokens()} {n.pfs[1].tokens()}"
    if k in ("bdry", "bdryL", "bdryR"):
        return f"{k} {vtokens(n.kids[0])}"
    if k == "uservol":
        return f"uservol {vtokens(n.kids[0])} {n.pfs[0].tokens()}"
    raise ValueError(k)


def vvars(n):
    if n.kind in PRIMS or n.kind == "point":
        return [n.var]
    if n.kind == "prod":
        return vvars(n.kids[0]) + vvars(n.kids[1])
    return vvars(n.kids[0])


def vspace(n, tp):
    sp = None
    for name in vvars(n):
        s = {1: tp.spaces.R1, 2: tp.spaces.R2, 3: tp.spaces.R3}[geomgen.DIM[name]](name)
        sp = s if sp is None else sp * s
    return sp


def const_py(pf, kind, scalar=False):
    """a constant parameter the way users may legally write it: Python number / list, numpy array, float32 or float64 tensor"""
    import numpy as np
    import torch
    vals = [float(geomgen.pt_eval(t, {})) for t in pf.terms]
    if kind == "np":
        return np.float64(vals[0]) if scalar else np.array(vals, dtype=np.float64)
    if kind in ("f32", "f64"):
        dt = torch.float32 if kind == "f32" else torch.float64
        return torch.tensor(vals[0], dtype=dt) if scalar else torch.tensor(vals, dtype=dt)
    return vals[0] if scalar else vals


def vto_tp(n, tp):
    ck = (n.flags or {}).get("const")
    if ck and n.kind in PRIMS + ("point", "translate") and not any(p.vars() for p in n.pfs):
        from torchphysics.problem.domains.domainoperations.translate import Translate as _T
        D = tp.domains
        sp = vspace(n, tp)
        if n.kind == "interval":
            return D.Interval(sp, const_py(n.pfs[0], ck, True), const_py(n.pfs[1], ck, True))
        if n.kind == "par":
            return D.Parallelogram(sp, *[const_py(p, ck) for p in n.pfs])
        if n.kind == "tri":
            return D.Triangle(sp, *[const_py(p, ck) for p in n.pfs])
        if n.kind == "circle":
            return D.Circle(sp, const_py(n.pfs[0], ck), const_py(n.pfs[1], ck, True))
        if n.kind == "sphere":
            return D.Sphere(sp, const_py(n.pfs[0], ck), const_py(n.pfs[1], ck, True))
        if n.kind == "point":
            return D.Point(sp, const_py(n.pfs[0], ck))
        return _T(vto_tp(n.kids[0], tp), const_py(n.pfs[0], ck))
    from torchphysics.problem.domains.domainoperations.union import UnionDomain
    from torchphysics.problem.domains.domainoperations.cut import CutDomain
    from torchphysics.problem.domains.domainoperations.translate import Translate
    from torchphysics.problem.domains.domainoperations.rotate import Rotate
    D = tp.domains
    k = n.kind
    if k == "interval":
        return D.Interval(vspace(n, tp), n.pfs[0].py(scalar=True), n.pfs[1].py(scalar=True))
    if k == "par":
        return D.Parallelogram(vspace(n, tp), *[p.py() for p in n.pfs])
    if k == "tri":
        return D.Triangle(vspace(n, tp), *[p.py() for p in n.pfs])
    if k == "circle":
        return D.Circle(vspace(n, tp), n.pfs[0].py(), n.pfs[1].py(scalar=True))
    if k == "sphere":
        return D.Sphere(vspace(n, tp), n.pfs[0].py(), n.pfs[1].py(scalar=True))
    if k == "point":
        return D.Point(vspace(n, tp), n.pfs[0].py())
    if k in ("union", "cut", "inter", "prod"):
        a, b = vto_tp(n.kids[0], tp), vto_tp(n.kids[1], tp)
        if k == "union":
            return UnionDomain(a, b, disjoint=True) if n.flags.get("disjoint") else a + b
        if k == "cut":
            return CutDomain(a, b, contained=True) if n.flags.get("contained") else a - b
        if k == "inter":
            return a & b
        return a * b
    if k == "translate":
        return Translate(vto_tp(n.kids[0], tp), n.pfs[0].py())
    if k == "rotate":
        if len(n.pfs[0].terms) == 9:      # 3-D: constant 3x3 matrix
            m = [float(geomgen.pt_eval(t, {})) for t in n.pfs[0].terms]
            return Rotate(vto_tp(n.kids[0], tp), [m[0:3], m[3:6], m[6:9]], n.pfs[1].py())
        if (n.flags or {}).get("from_angle") is not None:
            # the classmethod constructor; the volume model does not look at the matrix
            return Rotate.from_angles(vto_tp(n.kids[0], tp), float(Fr(n.flags["from_angle"])),
                                      rotate_around=None if n.flags.get("no_centre") else n.pfs[1].py())
        if (n.flags or {}).get("no_centre"):
            return Rotate(vto_tp(n.kids[0], tp), n.pfs[0].py(matrix=True))
        return Rotate(vto_tp(n.kids[0], tp), n.pfs[0].py(matrix=True), n.pfs[1].py())
    if k == "bdry":
        return vto_tp(n.kids[0], tp).boundary
    if k == "bdryL":
        return vto_tp(n.kids[0], tp).boundary_left
    if k == "bdryR":
        return vto_tp(n.kids[0], tp).boundary_right
    if k == "uservol":
        d = vto_tp(n.kids[0], tp)
        d.set_volume(n.pfs[0].py(scalar=True))
        return d
    raise ValueError(k)


def vfree(n):
    out = []
    pfs = n.pfs if n.kind != "uservol" else []
    for p in pfs:
        out += p.vars()
    if n.kind == "prod":
        out += [x for x in vfree(n.kids[0]) if x not in vvars(n.kids[1])] + vfree(n.kids[1])
    else:
        for kid in n.kids:
            out += vfree(kid)
    res = []
    for x in out:
        if x not in res:
            res.append(x)
    return res


def kinds(n):
    out = [n.kind]
    for kid in n.kids:
        out += kinds(kid)
    return out


# ---------------------------------------------------------------------------------------------
# the property oracle: analytic measure from the exact inputs (None = not determined by the declarations)

class NotRational(Exception):
    pass


def _sqrt(x, exact):
    if not exact:
        return math.sqrt(x)
    x = Fr(x)
    a, b = math.isqrt(x.numerator), math.isqrt(x.denominator)
    if a * a == x.numerator and b * b == x.denominator:
        return Fr(a, b)
    raise NotRational()


def measure(n, env, onB=False, exact=False):
    """true measure of the denoted set (surface measure for boundaries, counting measure for points)
    at the parameter row `env`; exact=True: a Fraction or NotRational"""
    k = n.kind
    num = (lambda x: Fr(x)) if exact else float

    def pi():
        if exact:
            raise NotRational()
        return math.pi
    if k == "uservol":
        if onB:
            return measure(n.kids[0], env, True, exact)
        return num(n.pfs[0].eval(env)[0])
    if k == "interval":
        (l,), (u,) = n.pfs[0].eval(env), n.pfs[1].eval(env)
        return num(2) if onB else num(u - l)
    if k in ("par", "tri"):
        o, c1, c2 = [p.eval(env) for p in n.pfs]
        d1 = (c1[0] - o[0], c1[1] - o[1])
        d2 = (c2[0] - o[0], c2[1] - o[1])
        if not onB:
            det = abs(d1[0] * d2[1] - d1[1] * d2[0])
            return num(det) if k == "par" else num(det / 2)
        n1 = _sqrt(d1[0] ** 2 + d1[1] ** 2, exact)
        n2 = _sqrt(d2[0] ** 2 + d2[1] ** 2, exact)
        if k == "par":
            return 2 * (n1 + n2)
        return n1 + n2 + _sqrt((d1[0] - d2[0]) ** 2 + (d1[1] - d2[1]) ** 2, exact)
    if k == "circle":
        r = num(n.pfs[1].eval(env)[0])
        return 2 * pi() * r if onB else pi() * r * r
    if k == "sphere":
        r = num(n.pfs[1].eval(env)[0])
        return 4 * pi() * r * r if onB else pi() * r * r * r * 4 / 3
    if k == "point":
        return None if onB else num(1)
    if k == "union":
        if not n.flags.get("really_disjoint"):
            return None
        a, b = measure(n.kids[0], env, onB, exact), measure(n.kids[1], env, onB, exact)
        return None if a is None or b is None else a + b
    if k == "cut":
        if not n.flags.get("really_contained"):
            return None
        if onB:
            a, b = measure(n.kids[0], env, True, exact), measure(n.kids[1], env, True, exact)
            return None if a is None or b is None else a + b
        a, b = measure(n.kids[0], env, False, exact), measure(n.kids[1], env, False, exact)
        return None if a is None or b is None else a - b
    if k == "inter":
        return None
    if k == "prod":
        if any(x in vfree(n.kids[0]) for x in vvars(n.kids[1])):
            return None
        a, b = measure(n.kids[0], env, False, exact), measure(n.kids[1], env, False, exact)
        if a is None or b is None:
            return None
        if not onB:
            return a * b
        oa, ob = measure(n.kids[0], env, True, exact), measure(n.kids[1], env, True, exact)
        return None if oa is None or ob is None else oa * b + a * ob
    if k in ("translate", "rotate"):
        return measure(n.kids[0], env, onB, exact)
    if k == "bdry":
        return None if onB else measure(n.kids[0], env, True, exact)
    if k in ("bdryL", "bdryR"):
        return num(1)
    raise ValueError(k)


def measure_exact(n, env):
    try:
        return measure(n, env, exact=True)
    except NotRational:
        return None


# ---------------------------------------------------------------------------------------------
# generation

def pf_lin(o, a, s, b, t):
    """o + s*(a - o) + t*(b - o), component-wise on parameter terms"""
    return PF([("+", ("+", oo, ("*", c(s), ("-", aa, oo))), ("*", c(t), ("-", bb, oo)))
               for oo, aa, bb in zip(o.terms, a.terms, b.terms)])


def inner_shape(rng, a):
    """a primitive strictly inside the primitive `a` for every parameter row (same parameters)"""
    k = a.kind
    if k in ("par", "tri"):
        o, c1, c2 = a.pfs
        s, t = Fr(rng.randint(1, 3), 16), Fr(rng.randint(1, 3), 16)
        w = Fr(rng.randint(2, 4), 16)
        kind = rng.choice(["par", "tri"])
        if rng.random() < 0.5:   # other orientation
            return Node(kind, a.var, [pf_lin(o, c1, s, c2, t), pf_lin(o, c1, s, c2, t + w), pf_lin(o, c1, s + w, c2, t)])
        return Node(kind, a.var, [pf_lin(o, c1, s, c2, t), pf_lin(o, c1, s + w, c2, t), pf_lin(o, c1, s, c2, t + w)])
    if k in ("circle", "sphere"):
        f = Fr(rng.randint(2, 6), 8)
        return Node(k, a.var, [a.pfs[0], PF([("*", c(f), a.pfs[1].terms[0])])])
    if k == "interval":
        lb, ub = a.pfs[0].terms[0], a.pfs[1].terms[0]
        w = ("-", ub, lb)
        return Node("interval", a.var, [PF([("+", lb, ("*", c(Fr(1, 4)), w))]), PF([("+", lb, ("*", c(Fr(rng.randint(3, 6), 8)), w))])])
    raise ValueError(k)


FAR = {1: [Fr(32)], 2: [Fr(32), Fr(0)], 3: [Fr(0), Fr(32), Fr(0)]}
ROTS = [(Fr(3, 5), Fr(4, 5)), (Fr(4, 5), Fr(3, 5)), (Fr(0), Fr(1)), (Fr(5, 13), Fr(12, 13)), (Fr(-3, 5), Fr(4, 5)),
        (Fr(-1), Fr(0)), (Fr(-4, 5), Fr(-3, 5)), (Fr(8, 17), Fr(-15, 17))]


# 3x3 matrices with determinant +-1: axis permutations, rational rotations about an axis, a rational rotation about the
# diagonal-free axis (2/3, 2/3, 1/3)-type matrix, a reflection
ROTS3 = [[Fr(0), Fr(-1), Fr(0), Fr(1), Fr(0), Fr(0), Fr(0), Fr(0), Fr(1)],
         [Fr(0), Fr(0), Fr(1), Fr(1), Fr(0), Fr(0), Fr(0), Fr(1), Fr(0)],
         [Fr(3, 5), Fr(-4, 5), Fr(0), Fr(4, 5), Fr(3, 5), Fr(0), Fr(0), Fr(0), Fr(1)],
         [Fr(1), Fr(0), Fr(0), Fr(0), Fr(5, 13), Fr(-12, 13), Fr(0), Fr(12, 13), Fr(5, 13)],
         [Fr(2, 3), Fr(-1, 3), Fr(2, 3), Fr(2, 3), Fr(2, 3), Fr(-1, 3), Fr(-1, 3), Fr(2, 3), Fr(2, 3)],
         [Fr(1), Fr(0), Fr(0), Fr(0), Fr(1), Fr(0), Fr(0), Fr(0), Fr(-1)]]


class VGen:
    def __init__(self, rng, params):
        self.rng, self.params = rng, params
        self.g = Gen(rng, params=params, p_dep=0.45)

    def var(self):
        return self.rng.choice(["x", "x", "x", "y", "z"])

    def userfn(self):
        rng = self.rng
        base = dy(rng, 0.5, 6, 4)
        if self.params and rng.random() < 0.5:
            return PF([("+", c(base), ("*", c(dy(rng, 0.25, 2, 4)), geomgen.v(rng.choice(self.params))))])
        return PF([c(base)])

    def motion(self, node, var):
        rng = self.rng
        if geomgen.DIM[var] == 3 and rng.random() < 0.45:
            m = rng.choice(ROTS3)
            return Node("rotate", var, [PF([c(x) for x in m]), PF([c(dy(rng, -1, 1)) for _ in range(3)])], [node])
        if geomgen.DIM[var] == 2 and rng.random() < 0.5:
            co, si = rng.choice(ROTS)
            refl = rng.random() < 0.15          # improper rotations (det = -1) preserve the measure as well
            m = PF([c(co), c(-si if not refl else si), c(si), c(co if not refl else -co)])
            fl = {}
            r = rng.random()
            if r < 0.2:
                fl = dict(from_angle=str(Fr(rng.randint(-24, 24), 8)), no_centre=rng.random() < 0.4)
            elif r < 0.3:
                fl = dict(no_centre=True)
            return Node("rotate", var, [m, PF([c(dy(rng, -1, 1)), c(dy(rng, -1, 1))])], [node], fl)
        return Node("translate", var, [self.g.vec([dy(rng, -2, 2) for _ in range(geomgen.DIM[var])])], [node])

    def known(self, depth, var):
        """a solid expression whose measure is determined by the declarations"""
        rng = self.rng
        if depth <= 1 or rng.random() < 0.3:
            return self.g.prim(var)
        op = rng.choice(["union", "cut", "motion", "motion", "uservol", "union", "cut"])
        if op == "union":
            a = self.known(depth - 1, var)
            b = self.known(depth - 1, var)
            far = Node("translate", var, [PF([c(x * (2 ** (depth - 2))) for x in FAR[geomgen.DIM[var]]])], [b])
            return Node("union", None, [], [a, far], dict(disjoint=True, really_disjoint=True))
        if op == "cut":
            a = self.g.prim(var)
            return Node("cut", None, [], [a, inner_shape(rng, a)], dict(contained=True, really_contained=True))
        if op == "motion":
            return self.motion(self.known(depth - 1, var), var)
        return Node("uservol", None, [self.userfn()], [self.estimate(depth - 1, var) if rng.random() < 0.5 else self.known(depth - 1, var)])

    def estimate(self, depth, var):
        """Boolean combinations without declarations (the code warns and estimates)"""
        rng = self.rng
        gg = Gen(rng, params=self.params, p_dep=0.3, allow_rotate=True)
        op = rng.choice(["union", "cut", "inter"])
        a = self.known(depth - 1, var) if rng.random() < 0.3 else gg.solid(max(1, depth - 1), var)
        b = gg.solid(max(1, depth - 1), var)
        return Node(op, None, [], [a, b], {})

    def top(self, depth):
        rng = self.rng
        mode = rng.choice(["known", "known", "known", "bdry", "bdry", "estimate", "prod", "point", "side", "bdry-est", "uservol-bdry"])
        var = self.var()
        if mode == "known":
            return mode, self.known(depth, var)
        if mode == "bdry":
            inner = self.known(min(depth, 2), var)
            return mode, Node("bdry", None, [], [inner])
        if mode == "bdry-est":
            return mode, Node("bdry", None, [], [self.estimate(2, var)])
        if mode == "estimate":
            return mode, self.estimate(depth, var)
        if mode == "point":
            return mode, Node("point", var, [self.g.vec([dy(rng, -2, 2) for _ in range(geomgen.DIM[var])])])
        if mode == "side":
            return mode, Node(rng.choice(["bdryL", "bdryR"]), None, [], [self.g.prim1("y")])
        if mode == "uservol-bdry":
            return mode, Node("uservol", None, [self.userfn()], [Node("bdry", None, [], [self.g.prim(var)])])
        # product with an interval in `s`; 25 %: the first factor depends on s (Monte-Carlo estimate in the code)
        b = Gen(rng, params=self.params, p_dep=0.3).prim1("s")
        if rng.random() < 0.25:
            # dependent first factor: its parameters are generated for values in [0, 1], so `s` ranges in [0, 1]
            lo = Fr(rng.randint(0, 4), 16)
            w = Fr(rng.randint(2, 8), 16)
            if self.params and rng.random() < 0.4:
                pv = ("*", c(Fr(1, 4)), geomgen.v(rng.choice(self.params)))
                b = Node("interval", "s", [PF([("+", c(lo), pv)]), PF([("+", c(lo + w), pv)])])
            else:
                b = Node("interval", "s", [PF([c(lo)]), PF([c(lo + w)])])
            a = Gen(rng, params=self.params + ["s"], p_dep=0.9).prim(var)
        else:
            a = self.known(min(depth, 2), var)
        nd = Node("prod", None, [], [a, b])
        if rng.random() < 0.3:
            nd = Node("bdry", None, [], [nd])
        return mode, nd


def two_param(rng, base, lo=Fr(1, 4), hi=Fr(1)):
    """base + a*t + b*D with positive coefficients; `D` is declared with a (bogus) default in the generated function"""
    a_, b_ = dy(rng, lo, hi, 4), dy(rng, lo, hi, 4)
    return ("+", ("+", c(base), ("*", c(a_), geomgen.v("t"))), ("*", c(b_), geomgen.v("D")))


def make_default_case(ctx, idx):
    """shape / volume functions with a DEFAULTED argument that the parameter rows supply: the supplied value must win"""
    rng = ctx.rng
    kind = rng.choice(["circle", "sphere", "interval", "par", "tri", "uservol", "bdry-circle", "bdry-interval-side", "cut"])
    dflt = rng.choice(["D", "t"])

    def circ(k="circle"):
        n = 2 if k == "circle" else 3
        var = "x" if k == "circle" else "z"
        return Node(k, var, [PF([c(dy(rng, -1, 1)) for _ in range(n)]), PF([two_param(rng, dy(rng, 0.5, 2))], defaulted=dflt)])
    if kind in ("circle", "sphere"):
        node = circ(kind)
    elif kind == "interval":
        lb = dy(rng, -2, 1)
        node = Node("interval", "y", [PF([c(lb)]), PF([two_param(rng, lb + dy(rng, 0.5, 2))], defaulted=dflt)])
    elif kind in ("par", "tri"):
        o = [dy(rng, -2, 2), dy(rng, -2, 2)]
        e1 = two_param(rng, dy(rng, 1, 3))
        c1 = PF([("+", c(o[0]), e1), c(o[1])], defaulted=dflt)
        c2 = PF([c(o[0] + dy(rng, -1, 1)), c(o[1] + dy(rng, 1, 3))])
        pfs = [PF([c(o[0]), c(o[1])]), c1, c2]
        if rng.random() < 0.5:
            pfs = [pfs[0], pfs[2], pfs[1]]
        node = Node(kind, "x", pfs)
    elif kind == "uservol":
        node = Node("uservol", None, [PF([two_param(rng, dy(rng, 1, 4))], defaulted=dflt)], [circ()])
    elif kind == "bdry-circle":
        node = Node("bdry", None, [], [circ()])
    elif kind == "bdry-interval-side":
        lb = dy(rng, -2, 1)
        iv = Node("interval", "y", [PF([two_param(rng, lb)], defaulted=dflt), PF([("+", two_param(rng, lb), c(dy(rng, 1, 2)))], defaulted=dflt)])
        node = Node(rng.choice(["bdryL", "bdryR", "bdry"]), None, [], [iv])
    else:
        a = circ()
        node = Node("cut", None, [], [a, inner_shape(rng, a)], dict(contained=True, really_contained=True))
        node.kids[1].pfs[1].defaulted = dflt
    k = rng.choice([1, 1, 2, 3])
    envs = [{p: [str(Fr(rng.randint(0, 16), 16))] for p in ("t", "D")} for _ in range(k)]
    sigma = None
    if rng.random() < 0.5:
        # binding ALL non-defaulted arguments makes partially_evaluate call the function at once with the declared default
        # (documented: "if the arguments are enough to evaluate the whole function, the output is returned"), so the evaluated
        # domain no longer listens to the defaulted variable — partial evaluation semantics, C17; not generated here
        sub = rng.choice([[dflt], ["t", "D"]])
        sigma = {p: [str(Fr(rng.randint(0, 16), 16))] for p in sub}
    density = str(rng.choice([Fr(15, 4), Fr(10), Fr(51, 2)])) if k == 1 and rng.random() < 0.7 else None
    return dict(id=idx, mode="defaults", dom=node.describe(), params=["t", "D"], envs=envs, sigma=sigma, density=density)


def make_dtype_case(ctx, idx):
    """constant parameters written as numbers / lists, numpy arrays, float32 and float64 tensors; with float64 tensors also badly
    scaled coordinates (offsets up to 1e9, sizes 1..10): the exact value is representable and the library computes in float64"""
    rng = ctx.rng
    ck = rng.choice(["list", "np", "f32", "f64", "f64", "f64"])
    off = Fr(rng.choice([0, 1000, 10 ** 6, 5 * 10 ** 8, 7 * 10 ** 8, 10 ** 9])) if ck == "f64" else Fr(rng.choice([0, 0, 2, -3]))
    fl = dict(const=ck)

    def prim(var):
        dim = geomgen.DIM[var]
        o = [off + dy(rng, -2, 2) for _ in range(dim)]
        if dim == 1:
            return Node("interval", var, [PF([c(o[0])]), PF([c(o[0] + dy(rng, 1, 10))])], flags=dict(fl))
        if dim == 3:
            return Node("sphere", var, [PF([c(a) for a in o]), PF([c(dy(rng, 0.5, 3))])], flags=dict(fl))
        kd = rng.choice(["par", "tri", "circle"])
        if kd == "circle":
            return Node("circle", var, [PF([c(a) for a in o]), PF([c(dy(rng, 0.5, 3))])], flags=dict(fl))
        while True:
            d1 = [dy(rng, -4, 4), dy(rng, -4, 4)]
            d2 = [dy(rng, -4, 4), dy(rng, -4, 4)]
            if abs(d1[0] * d2[1] - d1[1] * d2[0]) >= 1:
                break
        return Node(kd, var, [PF([c(o[0]), c(o[1])]), PF([c(o[0] + d1[0]), c(o[1] + d1[1])]), PF([c(o[0] + d2[0]), c(o[1] + d2[1])])],
                    flags=dict(fl))
    var = rng.choice(["x", "x", "y", "y", "z"])
    shape = rng.choice(["prim", "prim", "bdry", "cut", "union", "prod", "translate"])
    a = prim(var)
    if shape == "prim":
        node = a
    elif shape == "bdry":
        node = Node("bdry", None, [], [a])
    elif shape == "cut":
        b = inner_shape(rng, a)
        b.pfs = [PF([c(x) for x in p.eval({})]) for p in b.pfs]
        b.flags = dict(fl)
        node = Node("cut", None, [], [a, b], dict(contained=True, really_contained=True))
    elif shape == "union":
        far = Node("translate", var, [PF([c(x) for x in FAR[geomgen.DIM[var]]])], [prim(var)], flags=dict(fl))
        node = Node("union", None, [], [a, far], dict(disjoint=True, really_disjoint=True))
    elif shape == "prod":
        node = Node("prod", None, [], [a, Node("interval", "s", [PF([c(off)]), PF([c(off + dy(rng, 1, 10))])], flags=dict(fl))])
    else:
        node = Node("translate", var, [PF([c(dy(rng, -2, 2)) for _ in range(geomgen.DIM[var])])], [a], flags=dict(fl))
    density = str(rng.choice([Fr(1, 2), Fr(15, 4), Fr(10)])) if rng.random() < 0.6 else None
    # sample POINTS are float32 by design: with offsets >= 1000 their positions (hence containment filters, grid spacing) are
    # not meaningful; only the counts that follow from the volume are checked there
    return dict(id=idx, mode="dtype:" + ck, dom=node.describe(), params=[], envs=[], sigma=None, density=density,
                rel=1e-11 if ck == "f64" else REL, positions=bool(abs(off) < 1000))


def make_case(ctx, idx):
    rng = ctx.rng
    r0 = rng.random()
    if r0 < 0.08:
        return make_default_case(ctx, idx)
    if r0 < 0.18:
        return make_dtype_case(ctx, idx)
    params = rng.choice([[], ["t"], ["t"], ["t", "D"]])
    vg = VGen(rng, params)
    depth = rng.choice([1, 2, 2, 3]) if ctx.quick else rng.choice([1, 2, 3, 3, 4])
    mode, node = vg.top(depth)
    used = [p for p in params if p in vfree(node)]
    k = rng.choice([1, 1, 2, 3, 5]) if params else 0
    envs = [{p: [str(Fr(rng.randint(0, 16), 16))] for p in params} for _ in range(k)]
    sigma = None
    if used and rng.random() < 0.6:
        sub = [p for p in used if rng.random() < 0.7] or used[:1]
        sigma = {p: [str(Fr(rng.randint(0, 16), 16))] for p in sub}
    density = None
    if k <= 1 and rng.random() < 0.8:
        density = str(rng.choice([Fr(1, 2), Fr(15, 4), Fr(10), Fr(51, 2), Fr(7, 3), Fr(40)]))
    return dict(id=idx, mode=mode, dom=node.describe(), params=params, envs=envs, sigma=sigma, density=density)


# ---------------------------------------------------------------------------------------------
# implementation runs

def mk_params(tp, params, envs):
    import torch
    if not params or not envs:
        return tp.spaces.Points.empty()
    sp = None
    for p in params:
        s = tp.spaces.R1(p)
        sp = s if sp is None else sp * s
    return tp.spaces.Points(torch.tensor([[float(Fr(e[p][0])) for p in params] for e in envs], dtype=torch.float32), sp)


def impl_volume(dom, pr):
    """(rows | None, warned, error)"""
    import torch
    with warnings.catch_warnings(record=True) as w:
        warnings.simplefilter("always")
        try:
            v = dom.volume(pr)
        except Exception as e:  # noqa
            return None, False, f"{type(e).__name__}: {str(e)[:160]}"
    warned = any("volume" in str(x.message).lower() for x in w)
    if not isinstance(v, torch.Tensor):
        return None, warned, f"volume() returned {type(v).__name__}"
    return v, warned, None


def fenv(e):
    return {k: [Fr(a) for a in v] for k, v in e.items()}


def close(a, b, rel=REL):
    return abs(a - b) <= rel * max(abs(a), abs(b)) + 1e-7


def int_candidates(x, ceil=True):
    """acceptable integer values of ceil(x) (or floor) when x is only known up to float32 rounding"""
    f = math.ceil if ceil else math.floor
    eps = CNT_EPS * max(1.0, abs(x))
    return {f(x - eps), f(x), f(x + eps)}


class Tape:
    def __init__(self, torch):
        self.torch, self.orig, self.draws = torch, torch.rand, []

    def __call__(self, *a, **k):
        r = self.orig(*a, **k)
        self.draws.append(r.clone())
        return r


def leaf_of(node):
    """(primitive kind, on-boundary) below motions"""
    onb = False
    while True:
        if node.kind in ("translate", "rotate"):
            node = node.kids[0]
        elif node.kind == "bdry":
            onb, node = True, node.kids[0]
        else:
            return node, onb


def side_lengths(node, env):
    o, c1, c2 = [p.eval(env) for p in node.pfs]
    s1 = math.sqrt(float((c1[0] - o[0]) ** 2 + (c1[1] - o[1]) ** 2))
    s2 = math.sqrt(float((c2[0] - o[0]) ** 2 + (c2[1] - o[1]) ** 2))
    return s1, s2


def plan_density(case, node):
    """driver lines needed for the density checks of this case"""
    if not case.get("density"):
        return []
    env = fenv(case["envs"][0]) if case["envs"] else {}
    d = Fr(case["density"])
    lines = []
    try:
        ex = measure_exact(node, env)
        m = measure(node, env)
    except KeyError:
        return []
    if ex is not None:
        lines.append(("count", f"count {q(d)} {q(ex)}"))
    leaf, onb = leaf_of(node)
    if m is not None and m > 0 and leaf.kind in ("par", "tri") and not onb:
        n = math.ceil(float(d) * m - 1e-9)
        s1, s2 = side_lengths(leaf, env)
        lines.append(("grid", f"grid {n if leaf.kind == 'par' else 2 * n} {common.fbits(s1)} {common.fbits(s2)}"))
    return lines


def check_density(case, node, dom, pr, rep, extra):
    tp = common.use_repo()
    import torch
    d = Fr(case["density"])
    env = fenv(case["envs"][0]) if case["envs"] else {}
    m = measure(node, env)
    leaf, onb = leaf_of(node)
    inp = dict(dom=case["dom"], expression=vtokens(node), params=case["params"], envs=case["envs"], density=case["density"],
               mode=case.get("mode"), rel=case.get("rel"), positions=case.get("positions"))
    if m is None or m <= 0:
        return
    x = float(d) * m
    if "count" in extra:
        want = {int(extra["count"].split()[0])}
        rep.count("count:exact-rational")
    else:
        want = int_candidates(x)
        rep.count("count:float-margin")
    torch.manual_seed(case["id"])
    top = node.kind

    def sample(how):
        tape = Tape(torch)
        fn = dom.sample_random_uniform if how == "random" else dom.sample_grid
        with mock.patch("torch.rand", tape), warnings.catch_warnings():
            warnings.simplefilter("ignore")
            try:
                pts = common.call_with_timeout(5, fn, d=float(d), params=pr)
            except common.CallTimeout:
                return None, tape, "timeout"
            except Exception as e:  # noqa
                return None, tape, f"{type(e).__name__}: {str(e)[:160]}"
        return pts, tape, None

    simple = leaf.kind in PRIMS + ("point", "bdryL", "bdryR")
    if leaf.kind == "uservol":
        inner, inner_b = leaf_of(leaf.kids[0])
        simple = inner.kind in PRIMS
        base = inner
        base_b = inner_b or onb
    else:
        base, base_b = leaf, onb
    if simple:
        for how in ("random", "grid"):
            pts, tape, err = sample(how)
            rep.count(f"density:{base.kind}{'-bdry' if base_b else ''}:{how}")
            if err:
                if case["envs"] and any(kk in ("translate", "rotate") for kk in kinds(node)):
                    rep.count("density-motion-with-params-raised(C02: row pairing of Translate/Rotate)")
                    continue
                rep.fail(f"{how} sampling with density {d} on a domain of measure {m:.6g} failed: {err}", dict(inp, how=how))
                continue
            got = len(pts)
            if how == "random" and not (base.kind == "tri" and not base_b):
                if got not in want:
                    rep.fail(f"random-uniform sampling with density {d} returned {got} points; ceil(d*measure) = ceil({x:.6f}) = {sorted(want)}",
                             dict(inp, how=how))
            elif how == "random":
                # triangle: the statement allows two schemes and the check accepts EITHER, judged exactly under the one that applies:
                #  (b) exact: ceil(d*area) points (e.g. n proposals, those with bary-sum >= 1 mirrored) — like every other primitive;
                #  (a) rejection: 2n proposals, those with bary-sum >= 1 dropped — n points in expectation, at most 2n.
                # How many random numbers are drawn is NOT an observable of the property; the tape is only used to sharpen (a).
                n0 = max(want)
                # the scheme is read off a call that asks for about 4000 points (a small count can equal ceil(d*area) by chance)
                dbig = float(Fr(round(4000 / m * 16), 16)) if m < 4000 else float(d)
                nbig = math.ceil(dbig * m)
                gb = None
                try:
                    with warnings.catch_warnings():
                        warnings.simplefilter("ignore")
                        gb = len(common.call_with_timeout(5, dom.sample_random_uniform, d=dbig, params=pr))
                except common.CallTimeout:
                    rep.count("density-timeout")
                except Exception:  # noqa
                    rep.count("density-big-raised")
                scheme = "exact" if (gb is not None and gb in int_candidates(dbig * m) and got in want) else "rejection"
                rep.count("triangle-density-scheme:" + scheme)
                if scheme == "rejection":
                    if len(tape.draws) == 1 and tape.draws[0].dim() == 3 and tape.draws[0].shape[1] in [2 * a for a in want]:
                        prop = tape.draws[0].double()
                        sm = prop.sum(dim=2)
                        lo = int((sm < 1 - 1e-6).sum())
                        hi = int((sm < 1 + 1e-6).sum())
                        if not (lo <= got <= hi):
                            rep.fail(f"triangle density sampling returned {got} points, but {lo}..{hi} of the {prop.shape[1]} uniform proposals "
                                     f"lie in the triangle", dict(inp, how=how))
                    if got > 2 * n0 or abs(got - n0) > 8 * math.sqrt(n0 / 2 + 1) + 2:
                        rep.fail(f"triangle density sampling returned {got} points: neither exactly ceil(d*measure) = {sorted(want)} nor within the "
                                 f"range of 2*{n0} proposals accepted with probability 1/2", dict(inp, how=how))
                if node.kind == "tri" and got and case.get("positions") is not False:
                    # every returned point lies in the triangle (barycentric coordinates, float32 tolerance)
                    o, c1, c2 = [[float(a) for a in pf.eval(env)] for pf in base.pfs]
                    d1 = (c1[0] - o[0], c1[1] - o[1])
                    d2 = (c2[0] - o[0], c2[1] - o[1])
                    det = d1[0] * d2[1] - d1[1] * d2[0]
                    P = pts.as_tensor.double()
                    qx, qy = P[:, 0] - o[0], P[:, 1] - o[1]
                    bx = (d2[1] * qx - d2[0] * qy) / det
                    by = (d1[0] * qy - d1[1] * qx) / det
                    bad = (bx < -1e-4) | (by < -1e-4) | (bx + by > 1 + 1e-4)
                    if bool(bad.any()):
                        k_ = int(torch.nonzero(bad)[0])
                        rep.fail(f"triangle density sampling returned the point {P[k_].tolist()} outside the triangle "
                                 f"(barycentric {float(bx[k_]):.4f}, {float(by[k_]):.4f})", dict(inp, how=how))
                if gb is not None and scheme == "rejection" and gb not in int_candidates(dbig * m) and \
                        (gb > 2 * nbig or abs(gb - nbig) > 8 * math.sqrt(nbig / 2 + 1) + 2):
                    rep.fail(f"triangle density sampling with density {dbig} returned {gb} points, expected ceil(d*measure) = {nbig} exactly or "
                             f"about that many (+-{8 * math.sqrt(nbig / 2 + 1):.0f})", dict(inp, how=how, density=str(Fr(dbig))))
            else:
                check_grid(rep, inp, base, base_b, env, got, want, x, pts, extra, node, case.get("positions") is not False)
        return
    # Boolean combinations / products
    if top in ("union", "cut") or (top == "uservol"):
        if case.get("positions") is False:
            rep.count("density:boolean-skipped(float32 sample points at a badly scaled offset)")
            return
        return check_boolean_density(case, node, dom, pr, rep, inp, env, d, sample)
    if top == "prod":
        pts, tape, err = sample("random")
        rep.count("density:prod:random")
        if any(x_ in vfree(node.kids[0]) for x_ in vvars(node.kids[1])):
            return
        if err == "timeout" or any(kk == "inter" or (kk in ("union", "cut")) for kk in kinds(node)) and err:
            # the first factor is sampled with n = 1 per row through the rejection loops of the Boolean nodes (which
            # need not terminate on an empty combination): termination and those loops are C01/C02
            rep.count("density:prod:boolean-factor-raised-or-timeout(C01)")
            return
        if err and math.floor(x + 1e-6) == 0:
            rep.count("density:prod:asks-for-0-points(raises; n = 0 is C02's business)")
            return
        if err:
            rep.fail(f"random sampling with density {d} on a constant product of measure {m:.6g} failed: {err}", dict(inp, how="random"))
            return
        wantp = int_candidates(x, ceil=False) | int_candidates(x)
        if len(pts) not in wantp:
            rep.fail(f"random-uniform sampling of a product with density {d} returned {len(pts)} points; d*measure = {x:.6f}", dict(inp, how="random"))


def check_boolean_density(case, node, dom, pr, rep, inp, env, d, sample):
    top = node
    if top.kind == "uservol":
        return
    a, b = top.kids
    ma, mb = measure(a, env), measure(b, env)
    if ma is None or mb is None:
        return
    def plain(n):
        """primitive, possibly moved, possibly with a user volume directly on it: its sampler returns ceil(d*volume()) points"""
        while n.kind in ("translate", "rotate"):
            n = n.kids[0]
        if n.kind == "uservol":
            n = n.kids[0]
            while n.kind in ("translate", "rotate"):
                n = n.kids[0]
        return n.kind in PRIMS
    if not (plain(a) and plain(b)):
        # nested combinations: the operands' own counts are not ceil(d*measure) (rejection, user volumes that
        # composite samplers do not consult); their counts are checked where they are the top node
        rep.count("density:nested-boolean(count not checked)")
        return
    for how in ("random", "grid"):
        if how == "grid" and ("prod" in kinds(top)):
            continue
        pts, tape, err = sample(how)
        rep.count(f"density:{top.kind}:{how}")
        if err:
            # grids of nested operations / motions of grids have their own defects (C01/C02); a density count needs points
            if how == "random":
                rep.fail(f"random sampling with density {d} on a declared {'disjoint union' if top.kind == 'union' else 'contained cut'} "
                         f"failed: {err}", dict(inp, how=how))
            else:
                rep.count("density-grid-raised")
            continue
        got = len(pts)
        na, nb = int_candidates(float(d) * ma), int_candidates(float(d) * mb)
        if top.kind == "union":
            ok = {x_ + y_ for x_ in na for y_ in nb}
            if how == "random" and all(kk in PRIMS + ("translate", "rotate") and kk != "tri" for kk in kinds(top)[1:]):
                if got not in ok:
                    rep.fail(f"density sampling of a disjoint union returned {got} points; ceil(d*|A|) + ceil(d*|B|) = {sorted(ok)}", dict(inp, how=how))
            elif got > max(ok) * (2 if "tri" in kinds(top) else 1) + 4:
                rep.fail(f"density sampling of a disjoint union returned {got} points; at most ceil(d*|A|) + ceil(d*|B|) = {max(ok)} expected", dict(inp, how=how))
        else:
            # contained cut: the samples of A that are not in B — Binomial(n_A, 1 - |B|/|A|), 8 sigma
            n0 = max(na)
            if "tri" in kinds(a) and how == "random":
                continue
            if how == "random":
                p = 1 - mb / ma
                dev = 8 * math.sqrt(n0 * p * (1 - p) + 1) + 2
                if abs(got - n0 * p) > dev:
                    rep.fail(f"density sampling of a contained cut returned {got} points, expected about d*(|A|-|B|) = {n0 * p:.1f} (+-{dev:.1f})", dict(inp, how=how))
            if got > n0 + (math.isqrt(2 * n0) + 2 if "tri" in kinds(a) else 0):
                rep.fail(f"density sampling of a cut returned {got} points, more than ceil(d*|A|) = {n0}", dict(inp, how=how))


def check_grid(rep, inp, base, base_b, env, got, want, x, pts, extra, node, positions=True):
    import torch
    inp = dict(inp, how="grid")
    n0 = max(want)
    kind = base.kind
    if kind in ("par", "tri") and not base_b:
        if "grid" not in extra:
            return
        n1, n2, full, tle, tlt = [int(t) for t in extra["grid"].split()]
        # the side-length ratio is computed in float32 by the code: accept the neighbours when a root is near an integer
        s1, s2 = side_lengths(base, env)
        nn = min(want) * (1 if kind == "par" else 2)
        cands = set()
        for e1 in (-1e-5, 0, 1e-5):
            for e2 in (-1e-5, 0, 1e-5):
                cands.add((int(math.sqrt(nn * s1 / s2) * (1 + e1)), int(math.sqrt(nn * s2 / s1) * (1 + e2))))
        for nw in want:
            nnw = nw * (1 if kind == "par" else 2)
            cands.add((int(math.sqrt(nnw * s1 / s2)), int(math.sqrt(nnw * s2 / s1))))
        if kind == "par":
            okc = {a * b for a, b in cands} | {full}
            if got not in okc:
                rep.disagree("parallelogram density grid: n1*n2 points with n_i = int(sqrt(n*s_i/s_j))", inp, got, sorted(okc))
            if got > n0:
                rep.fail(f"grid sampling with density returned {got} points, more than ceil(d*measure) = {n0}", inp)
            if got and positions and not lattice_complete(pts, base, env, node):
                rep.fail(f"grid sampling with density returned {got} points that do not form a complete regular (barycentric) grid", inp)
        else:
            lo = min(min([tlt] + [tri_count(a, b, True) for a, b in cands]), min(want))
            hi = min(max([tle] + [tri_count(a, b, False) for a, b in cands]), n0)
            if not (lo <= got <= hi):
                rep.disagree("triangle density grid: the first ceil(d*v) lattice points of the n1 x n2 barycentric grid with x+y <= 1",
                             inp, got, [lo, hi])
            if got > n0:
                rep.fail(f"triangle grid sampling with density returned {got} points, more than ceil(d*measure) = {n0} "
                         f"(the {n1}x{n2} lattice has {tle} points with x+y <= 1)", inp)
        return
    if got > n0:
        rep.fail(f"grid sampling with density returned {got} points, more than ceil(d*measure) = {n0}", inp)
    elif got not in want and kind != "sphere":
        # interval, disc, boundaries, points: the grid has exactly ceil(d*measure) points
        rep.fail(f"grid sampling with density returned {got} points; the {kind}{' boundary' if base_b else ''} grid has exactly "
                 f"ceil(d*measure) = {sorted(want)} points", inp)
    elif kind == "sphere" and got not in want:
        rep.fail(f"grid sampling of a ball with density returned {got} points, ceil(d*measure) = {sorted(want)} (grid + random fill) expected", inp)
    if kind == "interval" and not base_b and got >= 3 and node.kind == "interval" and positions:
        xs = torch.sort(pts.as_tensor.double().reshape(-1)).values
        df = xs[1:] - xs[:-1]
        if float(df.max() - df.min()) > 1e-4 * float(abs(df).max() + 1e-9) + 1e-6:
            rep.fail("interval density grid is not equidistant", inp)


def tri_count(n1, n2, strict):
    cnt = 0
    for i in range(n1):
        for j in range(n2):
            s = Fr(i + 1, n1 + 1) + Fr(j + 1, n2 + 1)
            if s < 1 or (s == 1 and not strict):
                cnt += 1
    return cnt


def lattice_complete(pts, base, env, node):
    """the points are the images of a full n1 x n2 product lattice in barycentric coordinates (plain parallelogram only)"""
    if node.kind != "par":
        return True
    o, c1, c2 = [[float(a) for a in p.eval(env)] for p in base.pfs]
    d1 = (c1[0] - o[0], c1[1] - o[1])
    d2 = (c2[0] - o[0], c2[1] - o[1])
    det = d1[0] * d2[1] - d1[1] * d2[0]
    P = pts.as_tensor.double()
    qx, qy = P[:, 0] - o[0], P[:, 1] - o[1]
    bx = (d2[1] * qx - d2[0] * qy) / det
    by = (d1[0] * qy - d1[1] * qx) / det
    ux = sorted(set(round(float(a), 4) for a in bx))
    uy = sorted(set(round(float(a), 4) for a in by))
    if len(ux) * len(uy) != len(P):
        return False
    for u in (ux, uy):
        n = len(u)
        if any(abs(a - (i + 1) / (n + 1)) > 2e-3 for i, a in enumerate(u)):
            return False
    return len({(round(float(a), 4), round(float(b), 4)) for a, b in zip(bx, by)}) == len(P)


# ---------------------------------------------------------------------------------------------

def driver_lines(case, node):
    dt = vtokens(node)
    lines = []
    envs = case["envs"] or [{}]
    for e in envs:
        lines.append(("vol", f"vol {dt} {env_tokens(fenv(e))}"))
    if case.get("sigma"):
        sg = fenv(case["sigma"])
        for e in envs:
            rest = {k: v for k, v in fenv(e).items() if k not in sg}
            lines.append(("peval", f"pevalvol {dt} {env_tokens(sg)} {env_tokens(rest)}"))
    lines += plan_density(case, node)
    return lines


def parse_reply(r):
    t = r.split()
    if t[0] == "ok":
        return common.unfbits(t[1]), t[2] == "1", None
    return None, None, t[0]


def check_case(case, replies, rep):
    tp = common.use_repo()
    import torch
    rel = case.get("rel") or REL
    node = geomgen.from_json(case["dom"])
    envs = case["envs"] or [{}]
    k = len(case["envs"])
    inp = dict(dom=case["dom"], expression=vtokens(node), params=case["params"], envs=case["envs"], mode=case["mode"], rel=case.get("rel"), positions=case.get("positions"))
    vols = [parse_reply(r) for kind, r in replies if kind == "vol"]
    pevs = [parse_reply(r) for kind, r in replies if kind == "peval"]
    extra = {kind: r for kind, r in replies if kind in ("count", "grid")}
    try:
        dom = vto_tp(node, tp)
    except Exception as e:  # noqa
        rep.count("construction-raised")
        rep.notes.append(f"construction raised {type(e).__name__} for {vtokens(node)[:80]}")
        return
    pr = mk_params(tp, case["params"], case["envs"])
    torch.manual_seed(1000 + case["id"])
    v, warned, err = impl_volume(dom, pr)
    model_err = vols[0][2]
    if model_err == "err:montecarlo":
        # dependent product: the code estimates from 10 random points; only sanity is demanded
        rep.count("dependent-product(estimate)")
        check_dependent_product(case, node, v, err, rep, inp)
        return
    if err:
        if model_err:
            rep.count("both-reject")
            return
        rep.fail(f"volume() raised {err} on a well-formed expression", inp)
        return
    if model_err:
        rep.disagree("drivers/C10.lean vol: the model rejects an input the implementation evaluates", inp, v.reshape(-1).tolist(), model_err)
        return
    if v.dim() != 2 or v.shape[1] != 1 or v.shape[0] not in (1, max(k, 1)):
        rep.fail(f"volume() returned a tensor of shape {tuple(v.shape)} for {k} parameter rows; one value per row, shape ({max(k, 1)}, 1), expected", inp)
        return
    rows = v.reshape(-1).tolist()
    dep = [p for p in case["params"] if p in vfree_all(node)]
    if len(rows) == 1 and k > 1 and dep and len({tuple(sorted((p, e[p][0]) for p in dep)) for e in case["envs"]}) > 1:
        # legitimate only if the value really is the same for all rows (checked below against every row)
        rep.count("single-row-for-dependent-domain")
    for i, e in enumerate(envs):
        got = rows[i] if len(rows) > 1 else rows[0]
        mv, mw, _ = vols[i]
        rinp = dict(inp, row=i, env=e)
        if not close(got, mv, rel):
            rep.disagree("drivers/C10.lean vol: value of volume() for one parameter row", rinp, got, mv)
        try:
            true = measure(node, fenv(e))
        except KeyError:
            true = None
        if true is not None:
            rep.count("oracle:measure-known")
            if not math.isfinite(got) or not close(got, true, rel):
                rep.fail(f"volume() = {got:.12g} but the measure of the domain is {true:.12g} (parameter row {i}: {e}"
                         f"{', constants given as ' + case['mode'][6:] if case['mode'].startswith('dtype:') else ''})", rinp)
            elif not got > 0 and true > 0:
                rep.fail(f"volume() = {got} is not positive", rinp)
        else:
            rep.count("oracle:estimate(no exact measure)")
            if not math.isfinite(got):
                rep.fail(f"volume() = {got} (parameter row {i})", rinp)
    if warned != vols[0][1]:
        rep.disagree("drivers/C10.lean vol: 'exact volume not known, will use the estimate' warning", inp, warned, vols[0][1])
    rep.count("warned" if warned else "exact(no warning)")
    # partial evaluation D(**sigma) keeps the volume
    if case.get("sigma"):
        sg = case["sigma"]
        data = {p: torch.tensor([[float(Fr(vv[0]))]]) for p, vv in sg.items()}
        rest_params = [p for p in case["params"] if p not in sg]
        try:
            with warnings.catch_warnings():
                warnings.simplefilter("ignore")
                d2 = dom(**data)
                pr2 = mk_params(tp, rest_params, case["envs"])
                v2 = d2.volume(pr2)
                if not isinstance(v2, torch.Tensor):
                    v2 = torch.tensor(v2)
                rows2 = v2.reshape(-1).tolist()
        except Exception as e:  # noqa
            rep.count("peval-raised:" + type(e).__name__)   # partial evaluation itself is C17
            rows2 = None
        if rows2 is not None:
            rep.count("peval-checked")
            for i, e in enumerate(envs):
                if len(rows2) not in (1, len(envs)):
                    rep.count("peval-shape-skipped")
                    break
                got = rows2[i] if len(rows2) > 1 else rows2[0]
                full = dict(fenv(e))
                full.update(fenv(sg))
                mv, _, merr = pevs[i]
                rinp = dict(inp, sigma=sg, row=i, env=e)
                if merr is None and not close(got, mv):
                    rep.disagree("drivers/C10.lean pevalvol: volume of D(**sigma)", rinp, got, mv)
                try:
                    true = measure(node, full)
                except KeyError:
                    true = None
                if true is not None and not close(got, true):
                    rep.fail(f"after partial evaluation D(**{ {p: vv[0] for p, vv in sg.items()} }) volume() = {got:.7g}, but the measure of the "
                             f"domain at these parameter values is {true:.7g}", rinp)
    if case.get("density") and k <= 1:
        check_density(case, node, dom, pr, rep, extra)


def check_dependent_product(case, node, v, err, rep, inp):
    """the library estimates |A x B| = integral over B of |A(b)| from 10 random points b: the estimate of every row lies
    between min and max of |A(b)| times |B| (exactly |A|*|B| when |A(b)| does not depend on b) — independent of the draws"""
    import torch
    envs = [fenv(e) for e in (case["envs"] or [{}])]
    k = len(case["envs"])
    distinct = len({json_key(e) for e in case["envs"]})
    top = node
    if top.kind != "prod":
        if err:
            rep.count("dependent-product-boundary-raised")
        return
    a, b = top.kids
    if err:
        rep.fail(f"volume() of a dependent product raised {err}", inp,
                 finding="dependent_product_volume_rows" if k >= 2 else None)
        return
    vals = v.reshape(-1).tolist()
    if not all(math.isfinite(x) and x > 0 for x in vals):
        rep.fail(f"volume estimate of a dependent product is not a positive finite number: {vals}", inp)
        return
    if len(vals) not in (1, max(k, 1)):
        rep.fail(f"volume() of a dependent product returned {len(vals)} values for {k} parameter rows", inp)
        return
    bad = []
    for i, e in enumerate(envs):
        got = vals[i] if len(vals) > 1 else vals[0]
        (l,), (u,) = b.pfs[0].eval(e), b.pfs[1].eval(e)
        ms = []
        for j in range(33):
            ee = dict(e)
            ee["s"] = [l + (u - l) * Fr(j, 32)]
            ms.append(measure(a, ee))
        lo, hi = min(ms) * float(u - l), max(ms) * float(u - l)
        rep.count("dependent-product:exact" if hi - lo <= 1e-9 * hi else "dependent-product:range")
        if not (lo * (1 - 1e-4) - 1e-6 <= got <= hi * (1 + 1e-4) + 1e-6):
            bad.append((i, got, lo, hi))
    shape_bad = k >= 2 and tuple(v.shape) != (k, 1) and len(vals) == k
    if bad or shape_bad:
        i, got, lo, hi = bad[0] if bad else (0, vals[0], 0, 0)
        what = (f"volume() of a dependent product: row {i} is {got:.6g}, but |A(b)|*|B| lies in [{lo:.6g}, {hi:.6g}] for every b "
                f"(all rows: {[round(x, 4) for x in vals]}, shape {tuple(v.shape)})") if bad else \
               f"volume() of a dependent product returned shape {tuple(v.shape)} for {k} parameter rows, ({k}, 1) expected"
        rep.fail(what, inp, finding="dependent_product_volume_rows" if k >= 2 else None)


def json_key(e):
    return tuple(sorted((k_, tuple(v_)) for k_, v_ in e.items()))


def vfree_all(n):
    out = list(vfree(n))
    if n.kind == "uservol":
        out += n.pfs[0].vars()
    for kid in n.kids:
        out += vfree_all(kid)
    return out


# ---------------------------------------------------------------------------------------------
# density sampling of Boolean combinations whose measure is known exactly, directly and THROUGH motion nodes

def rect(var, x0, y0, w, h, flip=False):
    o, c1, c2 = [x0, y0], [x0 + w, y0], [x0, y0 + h]
    if flip:
        c1, c2 = c2, c1
    return Node("par", var, [PF([c(a) for a in o]), PF([c(a) for a in c1]), PF([c(a) for a in c2])])


def make_bool_case(ctx, idx):
    """two shapes with an exactly known overlap (axis-parallel rectangles, concentric discs, intervals), combined WITHOUT
    declaration, optionally wrapped in translations / rotations (also nested)"""
    rng = ctx.rng
    kind = rng.choice(["rect", "rect", "rect", "disc", "interval"])
    if kind == "rect":
        x0, y0 = dy(rng, -2, 2), dy(rng, -2, 2)
        w, h = dy(rng, 1, 3), dy(rng, 1, 3)
        fx, fy = Fr(rng.randint(1, 7), 8), Fr(rng.randint(0, 6), 8)
        w2, h2 = dy(rng, 1, 3), dy(rng, 1, 3)
        bx, by = x0 + fx * w, y0 + fy * h
        A, B = rect("x", x0, y0, w, h, rng.random() < 0.5), rect("x", bx, by, w2, h2, rng.random() < 0.5)
        ix = max(Fr(0), min(x0 + w, bx + w2) - max(x0, bx))
        iy = max(Fr(0), min(y0 + h, by + h2) - max(y0, by))
        mA, mB, mI, var = float(w * h), float(w2 * h2), float(ix * iy), "x"
    elif kind == "disc":
        cx, cy = dy(rng, -1, 1), dy(rng, -1, 1)
        r1, r2 = dy(rng, 1, 2), dy(rng, 0.5, 2.5)
        A = Node("circle", "x", [PF([c(cx), c(cy)]), PF([c(r1)])])
        B = Node("circle", "x", [PF([c(cx), c(cy)]), PF([c(r2)])])
        mA, mB = math.pi * float(r1) ** 2, math.pi * float(r2) ** 2
        mI, var = min(mA, mB), "x"
    else:
        l, w = dy(rng, -2, 1), dy(rng, 1, 3)
        l2, w2 = l + Fr(rng.randint(1, 7), 8) * w, dy(rng, 1, 3)
        A = Node("interval", "y", [PF([c(l)]), PF([c(l + w)])])
        B = Node("interval", "y", [PF([c(l2)]), PF([c(l2 + w2)])])
        mA, mB, var = float(w), float(w2), "y"
        mI = float(max(Fr(0), min(l + w, l2 + w2) - max(l, l2)))
    op = rng.choice(["union", "cut", "inter"])
    node = Node(op, None, [], [A, B], {})
    wraps = rng.choice([[], ["m"], ["m"], ["m", "m"], ["rotate"] if var == "x" else ["m"]])
    vg = VGen(rng, [])
    for wkind in wraps:
        if wkind == "rotate":
            co, si = rng.choice(ROTS)
            node = Node("rotate", var, [PF([c(co), c(-si), c(si), c(co)]), PF([c(dy(rng, -1, 1)), c(dy(rng, -1, 1))])], [node])
        else:
            node = vg.motion(node, var)
    if rng.random() < 0.3:
        # a user-set volume on the Boolean object: its density path does not consult volume(), the count law is unchanged
        node = Node("uservol", None, [PF([c(dy(rng, 1, 9))])], [node])
    target = rng.choice([300, 600, 1000])
    d = Fr(round(target / max(mA, mB) * 4), 4)
    return dict(id=idx, mode="bool-density", dom=node.describe(), op=op, mA=mA, mB=mB, mI=mI, density=str(d), params=[], envs=[])


def check_bool_density(case, rep):
    tp = common.use_repo()
    import torch
    node = geomgen.from_json(case["dom"])
    op, mA, mB, mI = case["op"], case["mA"], case["mB"], case["mI"]
    d = float(Fr(case["density"]))
    inp = dict(mode="bool-density", dom=case["dom"], expression=vtokens(node), op=op, mA=mA, mB=mB, mI=mI, density=case["density"],
               params=[], envs=[])
    wrapped = "+".join(k for k in kinds(node) if k in ("translate", "rotate")) or "plain"
    rep.count(f"bool-density:{op}:{wrapped}")
    nA, nB = math.ceil(d * mA - 1e-6), math.ceil(d * mB - 1e-6)
    if op == "union":
        p = mI / mB
        mean, var_, true, upper = nA + nB * (1 - p), nB * p * (1 - p), mA + mB - mI, nA + nB + 2
    elif op == "cut":
        p = mI / mA
        mean, var_, true, upper = nA * (1 - p), nA * p * (1 - p), mA - mI, nA + 1
    else:
        p = mI / mA
        mean, var_, true, upper = nA * p, nA * p * (1 - p), mI, nA + 1
    tol = 8 * math.sqrt(var_ + 1) + 3
    try:
        dom = vto_tp(node, tp)
    except Exception as e:  # noqa
        rep.count("construction-raised")
        return
    torch.manual_seed(case["id"])
    for how in ("random", "grid"):
        fn = dom.sample_random_uniform if how == "random" else dom.sample_grid
        with warnings.catch_warnings():
            warnings.simplefilter("ignore")
            try:
                got = len(common.call_with_timeout(10, fn, d=d))
            except common.CallTimeout:
                rep.count("bool-density-timeout")
                continue
            except Exception as e:  # noqa
                if how == "grid":
                    rep.count("bool-density-grid-raised")
                    continue
                rep.fail(f"random sampling with density {d} of a {op} (measure {true:.5g}) raised {type(e).__name__}: {str(e)[:120]}", dict(inp, how=how))
                continue
        if how == "random" and abs(got - mean) > tol:
            rep.fail(f"density sampling (d = {d}) of the {op} of two shapes with |A| = {mA:.5g}, |B| = {mB:.5g}, |A∩B| = {mI:.5g}"
                     f"{' through ' + wrapped if wrapped != 'plain' else ''} returned {got} points; d*measure = {d * true:.1f}, "
                     f"expected {mean:.1f} +- {tol:.1f}", dict(inp, how=how))
        elif got > upper:
            rep.fail(f"{how} density sampling (d = {d}) of a {op} returned {got} points, more than the {upper} proposals", dict(inp, how=how))


# ---------------------------------------------------------------------------------------------
# user-set volumes on every kind of object x density sampling through every route; the (density, volume) plane

def routes(tp, dom, d, pr):
    """(name, number of points) for the four public ways to sample with a density"""
    out = []
    for name, fn in (("domain.sample_random_uniform", lambda: dom.sample_random_uniform(d=d, params=pr)),
                     ("domain.sample_grid", lambda: dom.sample_grid(d=d, params=pr)),
                     ("RandomUniformSampler(density)", lambda: tp.samplers.RandomUniformSampler(dom, density=d).sample_points(pr)),
                     ("GridSampler(density)", lambda: tp.samplers.GridSampler(dom, density=d).sample_points(pr))):
        with warnings.catch_warnings():
            warnings.simplefilter("ignore")
            try:
                out.append((name, len(common.call_with_timeout(10, fn)), None))
            except common.CallTimeout:
                out.append((name, None, "timeout"))
            except Exception as e:  # noqa
                out.append((name, None, f"{type(e).__name__}: {str(e)[:120]}"))
    return out


def small_prim(rng, var, size=None):
    """constant primitive with dyadic data and exactly known (rational or pi-multiple) measure; with a given (possibly tiny)
    size the shape starts at the origin so that every corner is exactly representable in float32"""
    dim = geomgen.DIM[var]
    if dim == 1:
        l = dy(rng, -2, 2) if size is None else Fr(0)
        return Node("interval", var, [PF([c(l)]), PF([c(l + (size or dy(rng, 1, 3)))])])
    if dim == 3:
        return Node("sphere", var, [PF([c(dy(rng, -1, 1)) for _ in range(3)]), PF([c(size or dy(rng, 0.5, 2))])])
    kd = rng.choice(["par", "tri", "circle"])
    if kd == "circle":
        return Node("circle", var, [PF([c(dy(rng, -1, 1)), c(dy(rng, -1, 1))]), PF([c(size or dy(rng, 0.5, 2))])])
    o = [dy(rng, -2, 2), dy(rng, -2, 2)] if size is None else [Fr(0), Fr(0)]
    w, h = size or dy(rng, 1, 3), dy(rng, 1, 3)
    c1, c2 = [o[0] + w, o[1]], [o[0] + (dy(rng, -1, 1) if size is None else 0), o[1] + h]
    if rng.random() < 0.5:
        c1, c2 = c2, c1
    return Node(kd, var, [PF([c(a) for a in o]), PF([c(a) for a in c1]), PF([c(a) for a in c2])])


def make_uv_case(ctx, idx):
    rng = ctx.rng
    obj = rng.choice(["prim", "bdry", "side", "point", "translate", "rotate", "nested", "bdry-of-motion", "inner", "prod", "evaluated",
                      "sampler-rows"])
    var = rng.choice(["x", "x", "y", "z"])
    u = Fr(rng.randint(2, 60), 8)                      # the user's volume
    d = Fr(rng.choice([1, 3, 5, 10, 21, 40]), rng.choice([1, 2, 4]))
    vg = VGen(rng, [])
    params, envs, sigma = [], [], None
    uf = PF([c(u)])
    if obj == "prim":
        node = Node("uservol", None, [uf], [small_prim(rng, var)])
    elif obj == "bdry":
        node = Node("uservol", None, [uf], [Node("bdry", None, [], [small_prim(rng, var)])])
    elif obj == "side":
        node = Node("uservol", None, [uf], [Node(rng.choice(["bdryL", "bdryR"]), None, [], [small_prim(rng, "y")])])
    elif obj == "point":
        node = Node("uservol", None, [uf], [Node("point", var, [PF([c(dy(rng, -1, 1)) for _ in range(geomgen.DIM[var])])])])
    elif obj in ("translate", "rotate", "nested", "bdry-of-motion", "inner"):
        if obj == "rotate":
            var = "x"
        inner = small_prim(rng, var)
        if obj == "inner":
            node = vg.motion(Node("uservol", None, [uf], [inner]), var)
        else:
            m = vg.motion(inner, var)
            while obj == "rotate" and m.kind != "rotate":
                m = vg.motion(inner, var)
            if obj == "nested":
                m = vg.motion(m, var)
            if obj == "bdry-of-motion":
                m = Node("bdry", None, [], [m])
            node = Node("uservol", None, [uf], [m])
    elif obj == "prod":
        node = Node("uservol", None, [uf], [Node("prod", None, [], [small_prim(rng, var), small_prim(rng, "s")])])
    else:
        # parameter-dependent shape and user volume f(t) = u + t: evaluated copy D(t = t0), or the sampler's loop over the rows
        params = ["t"]
        r = ("+", c(dy(rng, 0.5, 1.5)), geomgen.v("t"))
        shape = Node("circle", "x", [PF([c(0), c(0)]), PF([r])]) if rng.random() < 0.5 else \
            Node("interval", "y", [PF([c(0)]), PF([r])])
        node = Node("uservol", None, [PF([("+", c(u), geomgen.v("t"))])], [shape])
        ts = [Fr(rng.randint(0, 16), 16) for _ in range(1 if obj == "evaluated" else rng.choice([2, 3]))]
        envs = [{"t": [str(t)]} for t in ts]
        if obj == "evaluated":
            sigma = {"t": [str(ts[0])]}
    return dict(id=idx, mode="uservol-density", obj=obj, dom=node.describe(), params=params, envs=envs, sigma=sigma, density=str(d))


def make_plane_case(ctx, idx):
    """the (density, volume) plane over many orders of magnitude, and products d*v just above / below an integer"""
    rng = ctx.rng
    var = rng.choice(["y", "y", "x", "x", "z"])
    how = rng.choice(["wide", "wide", "near-integer"])
    if how == "wide":
        size = Fr(rng.randint(1, 7), 2 ** rng.randint(0, 24))
        node = small_prim(rng, var, size)
        if rng.random() < 0.2:
            node = Node("bdry", None, [], [node])
        m = measure(node, {})
        # density: a dyadic number such that 1e-8 <~ d*measure <~ 3000
        target = 2.0 ** rng.randint(-26, 11) * rng.choice([1, 3, 5])
        e = round(math.log2(target / m))
        d = Fr(rng.choice([1, 3, 5, 7])) * (Fr(2) ** e)
        while float(d) * m > 4000:
            d /= 2
    else:
        N, e, j = rng.randint(0, 200), rng.randint(10, 15), rng.randint(-6, 6)
        x = Fr(N) + rng.choice([1, -1]) * Fr(1, 2 ** e)
        if x <= 0:
            x = Fr(1, 2 ** e)
        d = Fr(2) ** j
        v = x / d                         # exactly representable in float32 (<= 23 significant bits)
        kind = rng.choice(["interval", "par", "tri"])
        if kind == "interval":
            node = Node("interval", "y", [PF([c(0)]), PF([c(v)])])
        else:
            f = 1 if kind == "par" else 2
            node = Node(kind, "x", [PF([c(0), c(0)]), PF([c(v * f), c(0)]), PF([c(0), c(1)])])
    return dict(id=idx, mode="count-plane:" + how, obj=how, dom=node.describe(), params=[], envs=[], sigma=None, density=str(d))


def check_routes(case, rep):
    """expected number of points = exact ceil(d * volume()) (floor for a product), through all four routes"""
    tp = common.use_repo()
    import torch
    node = geomgen.from_json(case["dom"])
    d = Fr(case["density"])
    inp = dict(mode=case["mode"], obj=case["obj"], dom=case["dom"], expression=vtokens(node), params=case["params"], envs=case["envs"],
               sigma=case.get("sigma"), density=case["density"])
    rep.count(case["mode"].split(":")[0] + ":" + case["obj"])
    try:
        dom = vto_tp(node, tp)
    except Exception as e:  # noqa
        rep.count("construction-raised")
        return
    envs = [fenv(e) for e in case["envs"]]
    pr = mk_params(tp, case["params"], case["envs"])
    if case.get("sigma"):
        dom = dom(**{p: torch.tensor([[float(Fr(v[0]))]]) for p, v in case["sigma"].items()})
        pr = tp.spaces.Points.empty()
        ms = [measure(node, fenv(case["sigma"]))]
    else:
        ms = [measure(node, e) for e in (envs or [{}])]
    inner = node.kids[0] if node.kind == "uservol" else node
    is_prod = inner.kind == "prod"
    leaf, onb = inner, False
    while leaf.kind in ("translate", "rotate", "bdry", "uservol"):        # the primitive whose sampler finally runs
        onb = onb or leaf.kind == "bdry"
        leaf = leaf.kids[0]

    def want(m):
        ex = None
        try:
            ex = measure(node, fenv(case["sigma"]) if case.get("sigma") else (envs[0] if len(envs) == 1 else {}), exact=True) if len(ms) == 1 else None
        except (NotRational, KeyError):
            ex = None
        if ex is not None:
            x = d * ex
            return {math.floor(x)} | ({math.ceil(x)} if not is_prod else set()) if is_prod else {math.ceil(x)}
        x = float(d) * m
        return int_candidates(x, ceil=not is_prod)
    totals = None
    if len(ms) == 1:
        totals = want(ms[0])
    else:
        totals = {0}
        for m in ms:
            totals = {a + b for a in totals for b in int_candidates(float(d) * m)}
    torch.manual_seed(case["id"])
    exact_grid = leaf.kind in ("interval", "circle", "sphere", "point", "bdryL", "bdryR") or onb
    for name, got, err in routes(tp, dom, float(d), pr):
        grid = "rid" in name
        if len(ms) > 1 and name.startswith("domain."):
            continue                      # several rows: only the samplers loop over them
        if err:
            if grid and (is_prod or any(kk in ("translate", "rotate") for kk in kinds(node)) and err != "timeout"):
                rep.count("routes:grid-not-available-or-raised")       # product grids are not implemented; grids of motions: C01/C02
                continue
            if is_prod and max(totals) == 0:
                rep.count("routes:product-asked-for-0-points(raises; n = 0 is C02's business)")
                continue
            if "Sampler" in name and is_prod:
                rep.count("routes:sampler-on-product-raised")
                continue
            rep.fail(f"{name} with density {d} on a domain with volume() = {ms[0]:.6g} failed: {err}", dict(inp, route=name))
            continue
        if grid and not exact_grid:
            if got > max(totals):
                rep.fail(f"{name} with density {d} returned {got} points, more than ceil(d*volume()) = {max(totals)} (volume() = {ms[0]:.6g})",
                         dict(inp, route=name))
            continue
        if leaf.kind == "tri" and not onb and not grid:
            n0 = max(totals)
            if abs(got - n0) > 8 * math.sqrt(n0 / 2 + 1) + 2:
                rep.fail(f"{name} with density {d} returned {got} points on a triangle, expected about {n0}", dict(inp, route=name))
            continue
        if got not in totals:
            rep.fail(f"{name} with density {d} returned {got} points; {'floor' if is_prod else 'ceil'}(d*volume()) = {sorted(totals)} "
                     f"(d*volume() = {float(d) * sum(ms):.9g}, {len(ms)} row(s))", dict(inp, route=name))


# ---------------------------------------------------------------------------------------------
# object histories: several evaluated copies / boundaries made from ONE parent; every one of them (the earlier ones too) and
# the parent are used afterwards, and used a second time

def cross_parent(rng, dflt):
    """one parent that CROSSES the features the statement names: a primitive whose size depends on (t, D) [optionally with a
    declared default], optionally inside a contained cut / disjoint union, moved by a parameter-dependent translation or a rotation,
    its boundary, a product with an interval / a parameter-dependent interval / a POINT (initial-time slab), and user-set
    volumes (number or function of (t, D)) at any level"""
    kind = rng.choice(["circle", "sphere", "interval", "par"])

    def circ(k="circle"):
        n = 2 if k == "circle" else 3
        return Node(k, "x" if k == "circle" else "z", [PF([c(dy(rng, -1, 1)) for _ in range(n)]), PF([two_param(rng, dy(rng, 0.5, 2))], defaulted=dflt)])
    if kind in ("circle", "sphere"):
        node = circ(kind)
    elif kind == "interval":
        lb = dy(rng, -2, 1)
        node = Node("interval", "y", [PF([c(lb)]), PF([two_param(rng, lb + dy(rng, 0.5, 2))], defaulted=dflt)])
    else:
        o = [dy(rng, -2, 2), dy(rng, -2, 2)]
        node = Node(rng.choice(["par", "tri"]), "x", [PF([c(o[0]), c(o[1])]), PF([("+", c(o[0]), two_param(rng, dy(rng, 1, 3))), c(o[1])], defaulted=dflt),
                                                       PF([c(o[0]), c(o[1] + dy(rng, 1, 3))])])
    var = node.var
    feats = []

    def uv(n):
        f = PF([two_param(rng, dy(rng, 1, 4))], defaulted=dflt) if rng.random() < 0.6 else PF([c(dy(rng, 1, 6))])
        feats.append("uservol")
        return Node("uservol", None, [f], [n])
    p_uv = 0.3
    r = rng.random()
    if r < 0.2:
        node = Node("cut", None, [], [node, inner_shape(rng, node)], dict(contained=True, really_contained=True))
        node.kids[1].pfs[-1].defaulted = dflt if kind in ("circle", "sphere") else None
        feats.append("cut")
    elif r < 0.35:
        far = Node("translate", var, [PF([c(x) for x in FAR[geomgen.DIM[var]]])], [small_prim(rng, var)])
        node = Node("union", None, [], [node, far], dict(disjoint=True, really_disjoint=True))
        feats.append("union")
    if rng.random() < p_uv:
        node = uv(node)
    if rng.random() < 0.45:
        if geomgen.DIM[var] == 2 and rng.random() < 0.4:
            node = VGen(rng, []).motion(node, var)
        else:
            node = Node("translate", var, [PF([two_param(rng, 0)] + [c(dy(rng, -1, 1)) for _ in range(geomgen.DIM[var] - 1)], defaulted=dflt)], [node])
        feats.append(node.kind)
        if rng.random() < p_uv:
            node = uv(node)
    if rng.random() < 0.3:
        node = Node("bdry", None, [], [node])
        feats.append("bdry")
        if rng.random() < p_uv:
            node = uv(node)
    r = rng.random()
    if r < 0.45:
        if r < 0.15:
            b = Node("interval", "s", [PF([c(0)]), PF([c(dy(rng, 1, 3))])])
            feats.append("prod-interval")
        elif r < 0.3:
            b = Node("interval", "s", [PF([c(0)]), PF([two_param(rng, dy(rng, 1, 2))], defaulted=dflt)])
            feats.append("prod-param-interval")
        else:
            b = Node("point", "s", [PF([two_param(rng, 0)], defaulted=dflt) if rng.random() < 0.5 else PF([c(dy(rng, -1, 1))])])
            feats.append("prod-point")
        node = Node("prod", None, [], [node, b])
        if rng.random() < 0.6:
            node = uv(node)
    return node, feats


def make_history_case(ctx, idx):
    rng = ctx.rng
    dflt = rng.choice([None, None, "D"])
    node, feats = cross_parent(rng, dflt)
    first = "t" if dflt != "D" or rng.random() < 0.5 else "D"
    if dflt == "D":
        first = "D"        # binding all non-defaulted arguments evaluates at once with the declared default (C17), see make_default_case
    other = "D" if first == "t" else "t"
    val = lambda: str(Fr(rng.randint(0, 16), 16))   # noqa
    steps = [dict(op="eval", src=-1, sigma={first: [val()]}) for _ in range(rng.choice([2, 3, 4]))]
    if dflt is None and rng.random() < 0.5:
        steps.insert(rng.randrange(len(steps)), dict(op="eval", src=-1, sigma={other: [val()]}))
    n1 = len(steps)
    for i in range(n1):
        if rng.random() < 0.6:
            free = [p for p in ("t", "D") if p not in steps[i]["sigma"]]
            steps.append(dict(op="eval", src=i, sigma={free[0]: [val()]}))        # second stage: I(t=1) then (D=2)
    rows = [{p: [val()] for p in ("t", "D")} for _ in range(rng.choice([1, 2]))]
    return dict(id=idx, mode="history", dom=node.describe(), params=["t", "D"], steps=steps, envs=rows, feats="+".join(sorted(set(feats))) or "plain",
                density=str(rng.choice([Fr(15, 4), Fr(10), Fr(51, 2)])))


def check_history(case, rep):
    tp = common.use_repo()
    import torch
    node = geomgen.from_json(case["dom"])
    inp = dict(mode="history", dom=case["dom"], expression=vtokens(node), params=case["params"], steps=case["steps"], envs=case["envs"],
               density=case["density"], feats=case.get("feats"))
    rep.count("history:" + case.get("feats", "replay"))
    rep.count("history:%d-objects" % (len(case["steps"]) + 1))
    # which sampler finally decides the number of points
    core, has_bdry = node, False
    while core.kind in ("uservol", "translate", "rotate", "bdry"):
        has_bdry = has_bdry or core.kind == "bdry"
        core = core.kids[0]
    rule = None
    if core.kind in ("circle", "sphere", "interval", "par"):
        rule = "ceil"
    elif core.kind == "prod" and not has_bdry:
        rule = "floor"
    try:
        parent = vto_tp(node, tp)
    except Exception:  # noqa
        rep.count("construction-raised")
        return
    objs, sig = [], []
    with warnings.catch_warnings():
        warnings.simplefilter("ignore")
        for st in case["steps"]:
            src = parent if st["src"] < 0 else objs[st["src"]]
            base = {} if st["src"] < 0 else sig[st["src"]]
            try:
                objs.append(None if src is None else src(**{p: torch.tensor([[float(Fr(v[0]))]]) for p, v in st["sigma"].items()}))
            except Exception:  # noqa
                rep.count("history:eval-raised")        # partial evaluation itself is C17
                objs.append(None)
            sig.append({**base, **st["sigma"]})
    d = float(Fr(case["density"]))
    torch.manual_seed(case["id"])

    def use(obj, bound, label, second):
        rest = [p for p in case["params"] if p not in bound]
        pr = mk_params(tp, rest, case["envs"]) if rest else tp.spaces.Points.empty()
        v, _, err = impl_volume(obj, pr)
        if err:
            rep.count("history:volume-raised")
            return
        vals = v.reshape(-1).tolist()
        for i, e in enumerate(case["envs"] if rest else case["envs"][:1]):
            full = dict(fenv(e))
            full.update(fenv(bound))
            got = vals[i] if len(vals) > 1 else vals[0]
            true = measure(node, full)
            if not close(got, true):
                rep.fail(f"{label}{' (second use)' if second else ''}: volume() = {got:.7g}, but the measure of the domain at "
                         f"{ {p: str(x[0]) for p, x in full.items()} } is {true:.7g} — after {len(objs)} evaluations of the same parent", inp)
                return
        if not rest and rule:
            full = dict(fenv(case["envs"][0]))
            full.update(fenv(bound))
            m = measure(node, full)
            want = int_candidates(d * m, ceil=rule == "ceil")
            if rule == "floor" and min(want) <= 0:
                return
            with warnings.catch_warnings():
                warnings.simplefilter("ignore")
                try:
                    got = len(common.call_with_timeout(5, obj.sample_random_uniform, d=d))
                except Exception:  # noqa
                    rep.count("history:sampling-raised")
                    return
            if got not in want:
                rep.fail(f"{label}: density sampling (d = {d}) returned {got} points; {rule}(d*volume) = {sorted(want)}, volume = {m:.6g} — after {len(objs)} "
                         f"evaluations of the same parent", inp)
    # the EARLIER copies first, then the later ones, then the parent; then everything once more
    for second in (False, True):
        for i, (o, b) in enumerate(zip(objs, sig)):
            if o is not None:
                use(o, b, f"copy #{i} = parent{'' if case['steps'][i]['src'] < 0 else '(…)'}(**{ {p: x[0] for p, x in b.items()} })", second)
        use(parent, {}, "the parent itself", second)


def fixed_cases():
    """regression inputs of the defects repaired in /repo (they run first, in every tier)"""
    def P(kind, var, *vecs):
        return Node(kind, var, [PF([c(x) for x in v]) for v in vecs])
    out = []
    ball = P("sphere", "z", [0, 0, 0], [1])
    out.append(dict(mode="corpus", dom=ball.describe(), params=[], envs=[], sigma=None, density="10"))
    out.append(dict(mode="corpus", dom=P("par", "x", [0, 0], [0, 1], [1, 0]).describe(), params=[], envs=[], sigma=None, density="10"))
    out.append(dict(mode="corpus", dom=P("tri", "x", [0, 0], [0, 1], [1, 0]).describe(), params=[], envs=[], sigma=None, density="10"))
    uv = Node("uservol", None, [PF([c(5)])], [P("circle", "x", [0, 0], [2])])
    out.append(dict(mode="corpus", dom=uv.describe(), params=[], envs=[], sigma=None, density="10"))
    big = P("circle", "x", [0, 0], [2])
    big.pfs[1] = PF([("+", c(2), geomgen.v("t"))])
    ct = Node("cut", None, [], [big, P("circle", "x", [0, 0], [1])], dict(contained=True, really_contained=True))
    out.append(dict(mode="corpus", dom=ct.describe(), params=["t"], envs=[{"t": ["1/2"]}], sigma={"t": ["1/2"]}, density=None))
    # ball grids whose box lattice holds more than n points of the ball (n = 114..122)
    out.append(dict(mode="corpus", dom=ball.describe(), params=[], envs=[], sigma=None, density="57/2"))
    for i, cs in enumerate(out):
        cs["id"] = 100000 + i
    return out


def run(ctx, rep, cases=None):
    rep.rule = ("volume expressions generated from the public constructors: all primitives (both vertex orientations, parameter-dependent), "
                "their boundaries, Point, unions/cuts with and without the disjoint/contained declaration (declared ones are disjoint/"
                "contained by construction), intersections, products (constant and dependent), translations, rotations and reflections, "
                "set_volume overrides; 0-5 parameter rows; partial evaluation; density sampling (random + grid) for at most one row. "
                "non-trivial = an operation node, a parameter dependence or a density; distinct = distinct (expression, rows, sigma, density)")
    poly = cases is None
    if cases is None:
        cases = fixed_cases() + [make_case(ctx, i) for i in range(ctx.scale(1200, 12000))]
    lines, spans = [], []
    for cs in cases:
        node = geomgen.from_json(cs["dom"])
        ls = driver_lines(cs, node)
        spans.append((len(lines), ls))
        lines += [l for _, l in ls]
    replies = common.run_driver("C10", lines)
    for cs, (a, ls) in zip(cases, spans):
        node = geomgen.from_json(cs["dom"])
        rs = [(kind, replies[a + i]) for i, (kind, _) in enumerate(ls)]
        rep.count("mode:" + cs["mode"])
        rep.count("rows:%d" % len(cs["envs"]))
        for kd in set(kinds(node)):
            rep.count("node:" + kd)
        if cs.get("sigma"):
            rep.count("with-partial-evaluation")
        if cs.get("density"):
            rep.count("with-density")
        nontrivial = len(kinds(node)) > 1 or bool(vfree_all(node)) or bool(cs.get("density"))
        key = dict(dom=vtokens(node), envs=cs["envs"], sigma=cs.get("sigma"), density=cs.get("density"))
        nf, nd = len(rep.failures), len(rep.disagreements)
        check_case(cs, rs, rep)
        rep.case(key, nontrivial, sample=dict(expression=vtokens(node), params=cs["envs"][:2], sigma=cs.get("sigma"), density=cs.get("density"),
                                              model=rs[0][1], verdict="ok" if (nf, nd) == (len(rep.failures), len(rep.disagreements)) else "differs"),
                 kind=cs["mode"])
    if poly:
        for i in range(ctx.scale(160, 1600)):
            cs = (make_uv_case if i % 2 == 0 else make_plane_case)(ctx, 600000 + i)
            nf = len(rep.failures)
            check_routes(cs, rep)
            rep.case(dict(dom=cs["dom"], d=cs["density"], envs=cs["envs"]), True,
                     sample=dict(expression=vtokens(geomgen.from_json(cs["dom"])), density=cs["density"], object=cs["obj"],
                                 verdict="ok" if nf == len(rep.failures) else "fails"), kind=cs["mode"])
        for i in range(ctx.scale(240, 2400)):
            cs = make_history_case(ctx, 700000 + i)
            nf = len(rep.failures)
            check_history(cs, rep)
            rep.case(dict(dom=cs["dom"], steps=cs["steps"], envs=cs["envs"]), True,
                     sample=dict(expression=vtokens(geomgen.from_json(cs["dom"])), steps=cs["steps"],
                                 verdict="ok" if nf == len(rep.failures) else "fails"), kind="history")
        for i in range(ctx.scale(90, 900)):
            cs = make_bool_case(ctx, 500000 + i)
            nf = len(rep.failures)
            check_bool_density(cs, rep)
            rep.case(dict(dom=cs["dom"], d=cs["density"]), True, sample=dict(expression=vtokens(geomgen.from_json(cs["dom"])), op=cs["op"],
                     density=cs["density"], verdict="ok" if nf == len(rep.failures) else "fails"), kind="bool-density")
        # ShapelyPolygon / TrimeshPolyhedron: oracles only (opaque geometry kernels, not in the Lean model)
        c10_poly.run_poly(ctx, rep)


def replay(ctx, obj):
    rep = common.Report(ctx)
    lean = common.lean_check("C10")
    inp = (obj.get("failing_input") or obj.get("first"))["input"]
    if str(inp.get("mode", "")).startswith(("uservol-density", "count-plane")):
        check_routes(dict(inp, id=0), rep)
        return common.finish(ctx, rep, lean)
    if inp.get("mode") == "history":
        check_history(dict(inp, id=0), rep)
        return common.finish(ctx, rep, lean)
    if inp.get("mode") == "bool-density":
        check_bool_density(dict(inp, id=0), rep)
        return common.finish(ctx, rep, lean)
    if "poly" in inp:
        c10_poly.check(dict(inp, id=0), rep)
        return common.finish(ctx, rep, lean)
    case = dict(id=0, mode=inp.get("mode", "replay"), dom=inp["dom"], params=inp["params"], envs=inp["envs"], sigma=inp.get("sigma"),
                density=inp.get("density"), rel=inp.get("rel"), positions=inp.get("positions"))
    run(ctx, rep, [case])
    return common.finish(ctx, rep, lean)
