"""C16 — data loaders: correspondence (exact, exhaustive over a size box) + property oracles."""
import itertools
import math
from fractions import Fraction

import common
from common import q, lst

BIG = 1000


def _mk_points(tp, torch):
    X = tp.spaces.R2("x")
    U = tp.spaces.R1("u")
    return X, U


def _points_pair(tp, torch, n, grid=1):
    """the data set: sample i = input (i, i + 0.5), target 2 i + 1.  grid = M > 1: every sample carries a further axis of M
    locations (Points of shape [n, M, dim], as for discretised functions): input (i, j + 0.5) at location j, target 2 i + 1"""
    X, U = _mk_points(tp, torch)
    idx = torch.arange(n, dtype=torch.float32)
    if grid <= 1:
        return (tp.spaces.Points(torch.stack([idx, idx + 0.5], dim=1), X), tp.spaces.Points((idx * 2 + 1).reshape(-1, 1), U))
    j = torch.arange(grid, dtype=torch.float32)
    x = torch.stack([idx[:, None].expand(n, grid), (j + 0.5)[None, :].expand(n, grid)], dim=2)
    y = (idx * 2 + 1)[:, None, None].expand(n, grid, 1).clone()
    return tp.spaces.Points(x.clone(), X), tp.spaces.Points(y, U)


def _decode(xb, yb, grid=1):
    """sample ids of a batch and whether its rows are intact"""
    xt, yt = xb.as_tensor, yb.as_tensor
    if grid <= 1:
        xs, ys = xt[:, 0].tolist(), yt[:, 0].tolist()
        ok = len(xs) == len(ys) and all(2 * a + 1 == c for a, c in zip(xs, ys))
        return xs, ys, ok, xt[:, 1].tolist() == [a + 0.5 for a in xs]
    if xt.dim() != 3 or yt.dim() != 3 or xt.shape[1] != grid or yt.shape[1] != grid:
        return [], [], False, False
    xs, ys = xt[:, 0, 0].tolist(), yt[:, 0, 0].tolist()
    ok = len(xs) == len(ys) and all(2 * a + 1 == c for a, c in zip(xs, ys))
    ok = ok and all(yt[:, j, 0].tolist() == ys for j in range(grid))
    intact = all(xt[:, j, 0].tolist() == xs and xt[:, j, 1].tolist() == [j + 0.5] * len(xs) for j in range(grid))
    return xs, ys, ok, intact


# ------------------------------------------------------------------------------------------
# implementation runs (canonical text identical to the driver's replies)

def run_points(case):
    tp = common.use_repo()
    import torch
    n, bs, drop, shuffle = case["n"], case["bs"], case["drop"], case["shuffle"]
    grid = case.get("grid", 1)
    xin, yout = _points_pair(tp, torch, n, grid)
    given = (xin.as_tensor.clone(), yout.as_tensor.clone())
    loader = tp.utils.PointsDataLoader((xin, yout), batch_size=bs, shuffle=bool(shuffle), drop_last=bool(drop))
    batches, problems, seen = [], [], []
    if (n + bs) % 3 == 0:
        # a second, shuffling loader over the same user Points, built and read before the first one is iterated
        for xb2, yb2 in tp.utils.PointsDataLoader((xin, yout), batch_size=bs, shuffle=True):
            if not _decode(xb2, yb2, grid)[2]:
                problems.append("second loader built from the same Points: pairing broken")
                break
    if not (torch.equal(given[0], xin.as_tensor) and torch.equal(given[1], yout.as_tensor)):
        problems.append("constructing / reading a loader changed the user's Points in place")
    for b in loader:
        xb, yb = b
        xs, ys, paired, intact = _decode(xb, yb, grid)
        if not paired:
            problems.append(f"pairing broken in batch {len(batches)}: inputs {xs} targets {ys} (shapes {tuple(xb.as_tensor.shape)} / {tuple(yb.as_tensor.shape)})")
        if not intact:
            problems.append("input rows torn apart")
        if len(xs) > bs:
            problems.append(f"batch of {len(xs)} rows, requested {bs}")
        seen += [int(a) for a in xs]
        batches.append([int(a) for a in xs])
    want = set(range(n)) if not drop else None
    if not drop and set(seen) != want:
        problems.append(f"rows never presented: {sorted(want - set(seen))}")
    if drop and len(set(seen)) < (n // bs) * bs:
        problems.append(f"drop_last dropped more than the tail: presented {len(set(seen))} of {n}")
    if len(loader) != len(batches):
        problems.append(f"len(loader)={len(loader)} but {len(batches)} batches")
    text = f"{len(loader)} | " + " | ".join(" ".join(map(str, b)) for b in batches)
    return dict(text=text, problems=problems)


def run_points_passes(case):
    """several passes over ONE PointsDataLoader: interleaved (a second iterator is started and consumed while the first is
    in the middle of its pass) and/or served by worker processes; every pass by itself must present every sample (minus an
    explicitly dropped tail) with intact pairing and bounded batch sizes"""
    tp = common.use_repo()
    import torch
    n, bs, drop, shuffle = case["n"], case["bs"], case["drop"], case["shuffle"]
    grid = case.get("grid", 1)
    xin, yout = _points_pair(tp, torch, n, grid)
    loader = tp.utils.PointsDataLoader((xin, yout), batch_size=bs, shuffle=bool(shuffle), drop_last=bool(drop),
                                       num_workers=case.get("workers", 0))
    iters = [iter(loader) for _ in range(case["passes"])] if case["interleaved"] else None
    got = [[] for _ in range(case["passes"])]
    if case["interleaved"]:
        live = list(range(case["passes"]))
        k = 0
        while live:
            j = live[case["schedule"][k % len(case["schedule"])] % len(live)]
            k += 1
            try:
                got[j].append(next(iters[j]))
            except StopIteration:
                live.remove(j)
    else:
        for j in range(case["passes"]):
            got[j] = list(loader)
    problems = []
    need = n if not drop else (n // bs) * bs
    for j, batches in enumerate(got):
        seen = []
        for b, (xb, yb) in enumerate(batches):
            xs, ys, paired, intact = _decode(xb, yb, grid)
            if not (paired and intact):
                problems.append(f"pass {j}: pairing broken in batch {b}: inputs {xs} targets {ys}")
            if len(xs) > bs:
                problems.append(f"pass {j}: batch of {len(xs)} rows, requested {bs}")
            seen += [int(a) for a in xs]
        if len(set(seen)) < need:
            problems.append(f"pass {j} of {case['passes']} ({'interleaved' if case['interleaved'] else 'consecutive'}, "
                            f"{case.get('workers', 0)} worker processes) presented {len(set(seen))} of {n} samples "
                            f"(at least {need} required); never presented e.g. {sorted(set(range(n)) - set(seen))[:4]}")
        if len(batches) != len(loader):
            problems.append(f"pass {j}: {len(batches)} batches, len(loader)={len(loader)}")
    return dict(text=f"{len(loader)}", problems=problems)


def run_deeponet(case):
    tp = common.use_repo()
    import torch
    nB, bB, nT, bT = case["nB"], case["bB"], case["nT"], case["bT"]
    unique = case["layout"] in ("unique", "uniqsame")
    same = case["layout"] == "uniqsame"   # per-function layout whose rows happen to agree for every function
    F = tp.spaces.R1("f"); X = tp.spaces.R2("x"); U = tp.spaces.R1("u")
    fi = torch.arange(nB, dtype=torch.float32)
    xi = torch.arange(nT, dtype=torch.float32)
    branch = fi.reshape(nB, 1, 1).repeat(1, 3, 1)
    out = (fi.reshape(nB, 1, 1) * BIG + xi.reshape(1, nT, 1)).clone()
    if same:
        base = torch.stack([xi, xi + 0.5], dim=-1).unsqueeze(0)
        trunk = base.expand(nB, nT, 2) if case.get("how") == "expand" else base.repeat(nB, 1, 1)
    elif unique:
        trunk = torch.stack([fi.reshape(nB, 1).repeat(1, nT), xi.reshape(1, nT).repeat(nB, 1)], dim=-1)
    else:
        trunk = torch.stack([xi, xi + 0.5], dim=-1)
    given = [t_.clone() for t_ in (branch, trunk, out)]
    loader = tp.utils.DeepONetDataLoader(branch, trunk, out, F, X, U, bB, bT,
                                         shuffle_branch=bool(case["shB"]), shuffle_trunk=bool(case["shT"]))
    problems, batches, pairs = [], [], set()
    other = None
    if (nB * 3 + nT + case["shT"]) % 3 == 0:
        # a second loader (e.g. for validation) built from the SAME user tensors with shuffling on, before the first one is
        # iterated: neither construction may disturb the user's data or the other loader
        other = tp.utils.DeepONetDataLoader(branch, trunk, out, F, X, U, bB, bT, shuffle_branch=True, shuffle_trunk=True)
    for name_, a_, b_ in zip(("branch_data", "trunk_data", "output_data"), given, (branch, trunk, out)):
        if not torch.equal(a_, b_):
            problems.append(f"constructing the loader(s) changed the user's {name_} tensor in place")
    if other is not None:
        for k2, (bb2, tb2, ob2) in enumerate(other):
            f2 = [int(v) for v in bb2.as_tensor[:, 0, 0].tolist()]
            t2 = tb2.as_tensor
            x2 = [int(v) for v in (t2[:, 0] if t2.dim() == 2 else t2[0, :, 0 if same else 1]).tolist()] if t2.shape[0] else []
            o2 = ob2.as_tensor
            if tuple(o2.shape[:2]) == (len(f2), len(x2)) and any(int(o2[i_, j_, 0]) != f_ * BIG + x_ for i_, f_ in enumerate(f2) for j_, x_ in enumerate(x2)):
                problems.append(f"second loader built from the same tensors, batch {k2}: an output entry is not the datum of its function and location")
                break
    # every fourth configuration: a second pass over the same loader is started after the first batch and runs interleaved
    second = iter(loader) if (nB + nT + abs(bB) + case["shB"]) % 4 == 0 else None
    pairs2 = set()

    def pull_second():
        if second is None:
            return
        try:
            b2, t2, _ = next(second)
        except StopIteration:
            return
        tt = t2.as_tensor
        x2 = [int(v) for v in (tt[:, 0] if tt.dim() == 2 else tt[0, :, 0 if same else 1]).tolist()] if tt.shape[0] else []
        pairs2.update((int(f), x) for f in b2.as_tensor[:, 0, 0].tolist() for x in x2)

    for k, (bb, tb, ob) in enumerate(loader):
        pull_second()
        fs = [int(v) for v in bb.as_tensor[:, 0, 0].tolist()]
        o = ob.as_tensor
        t = tb.as_tensor
        if same and t.dim() == 2:
            # identical rows for every function delivered once: the pairing statement is still decidable (locations t[:, 0])
            xs = [int(v) for v in t[:, 0].tolist()]
            if t[:, 1].tolist() != [x + 0.5 for x in xs]:
                problems.append(f"batch {k}: trunk rows torn apart")
        elif unique and (t.dim() != 3 or t.shape[0] != len(fs)):
            problems.append(f"batch {k}: per-function trunk locations were given, the trunk batch has shape {tuple(t.shape)} "
                            f"for {len(fs)} functions, so the locations of function i cannot be row block i")
            xs = []
        elif same:
            xs = [int(v) for v in t[0, :, 0].tolist()] if t.shape[0] else []
            for i in range(t.shape[0]):
                if t[i, :, 0].tolist() != [float(x) for x in xs] or t[i, :, 1].tolist() != [x + 0.5 for x in xs]:
                    problems.append(f"batch {k}: trunk rows of function {fs[i]} are not the rows of locations {xs}")
                    break
        elif unique:
            xs = [int(v) for v in t[0, :, 1].tolist()] if t.shape[0] else []
            for i in range(t.shape[0]):
                if [int(v) for v in t[i, :, 0].tolist()] != [fs[i]] * t.shape[1] or [int(v) for v in t[i, :, 1].tolist()] != xs:
                    problems.append(f"batch {k}: trunk rows of function {fs[i]} do not belong to it")
                    break
        else:
            xs = [int(v) for v in tb.as_tensor[:, 0].tolist()]
        if tuple(o.shape[:2]) != (len(fs), len(xs)):
            problems.append(f"batch {k}: output block {tuple(o.shape)} for {len(fs)} functions x {len(xs)} locations")
        else:
            for i, f in enumerate(fs):
                for j, x in enumerate(xs):
                    if int(o[i, j, 0]) != f * BIG + x:
                        problems.append(f"batch {k}: output[{i},{j}]={int(o[i,j,0])} is not the datum of function {f}, location {x}")
                        break
                else:
                    continue
                break
        if len(fs) > (bB if bB > 0 else nB) or len(xs) > (bT if bT > 0 else nT):
            problems.append(f"batch {k}: {len(fs)}x{len(xs)} exceeds requested {bB}x{bT}")
        pairs |= {(f, x) for f in fs for x in xs}
        batches.append((" ".join(map(str, fs)), " ".join(map(str, xs))))
    missing = [(f, x) for f in range(nB) for x in range(nT) if (f, x) not in pairs]
    if second is not None:
        for _ in range(len(loader) + 1):
            pull_second()
        if not missing and len(pairs2) < nB * nT:
            problems.append(f"a second pass over the same loader, run interleaved with the first, presented only {len(pairs2)} of "
                            f"{nB * nT} function-location pairs (the first pass presented all)")
    text = f"{len(loader)} | " + " | ".join(f"{a} : {b}" for a, b in batches)
    return dict(text=text, problems=problems, missing=missing, presented=len(pairs))


def run_fold(case):
    """DataCondition(use_full_dataset=True) on a PointsDataLoader; model = first input column"""
    tp = common.use_repo()
    import torch
    X, U = _mk_points(tp, torch)
    sc = Fraction(1, 2 ** case.get("scale", 0))       # data on the scales 1, 2^-10 (1e-3), 2^-20 (1e-6): dyadic, exact in float64
    xs = [Fraction(a, 8) * sc for a in case["x"]]
    ys = [Fraction(a, 8) * sc for a in case["y"]]
    n = len(xs)
    xt = torch.tensor([[float(a), 0.0] for a in xs], dtype=torch.float64)
    yt = torch.tensor([[float(a)] for a in ys], dtype=torch.float64)
    grid = case.get("grid", 1) if case.get("loader", "points") == "points" else 1
    if grid > 1:
        # every sample carries a further axis of `grid` locations with the same values: Points of shape [n, grid, dim];
        # per-batch means and maxima are those of the n samples
        xt = xt[:, None, :].expand(n, grid, 2).clone()
        yt = yt[:, None, :].expand(n, grid, 1).clone()
    xin = tp.spaces.Points(xt, X)
    yout = tp.spaces.Points(yt, U)

    class First(tp.models.Model):
        def __init__(self):
            super().__init__(X, U)

        def forward(self, p):
            p = self._fix_points_order(p)
            return tp.spaces.Points(p.as_tensor[..., :1], U)

    if case.get("loader", "points") == "torch":
        # a plain torch DataLoader over one (input row, target row) pair per item, collated to Points
        # (DataCondition documents "a PyTorch dataloader which supplies ... data-target pairs ... handed as points")
        class Pairs(torch.utils.data.Dataset):
            def __len__(self):
                return n

            def __getitem__(self, i):
                return xin.as_tensor[i], yout.as_tensor[i]

        def collate(items):
            return (tp.spaces.Points(torch.stack([it[0] for it in items]), X),
                    tp.spaces.Points(torch.stack([it[1] for it in items]), U))

        loader = torch.utils.data.DataLoader(Pairs(), batch_size=case["bs"], shuffle=False, drop_last=bool(case["drop"]),
                                             collate_fn=collate)
    else:
        loader = tp.utils.PointsDataLoader((xin, yout), batch_size=case["bs"], shuffle=False, drop_last=bool(case["drop"]))
    cond = tp.conditions.DataCondition(First(), loader, norm=case["norm"], root=float(case.get("root", 1)), use_full_dataset=True)
    if case.get("swap"):
        # the same condition object evaluated once on another loader (other batch size) first, then given this loader:
        # the aggregate is that of the loader in force at the call
        bs0 = case["bs"] % len(xs) + 1
        cond.dataloader = tp.utils.PointsDataLoader((xin, yout), batch_size=bs0, shuffle=False, drop_last=False)
        float(cond.forward())
        cond.dataloader = loader
    val = float(cond.forward())
    # batches as the loader delivers them (already validated by the `pts` correspondence)
    bs = case["bs"]
    nb = (n // bs) if case["drop"] else math.ceil(n / bs)
    batches = [[abs(xs[i] - ys[i]) for i in range(k * bs, min((k + 1) * bs, n))] for k in range(nb)]
    if case["norm"] == "inf":
        ref = max([Fraction(0)] + [a for b in batches for a in b])
        line = "foldinf " + lst(batches, lambda b: lst(b, q))
    else:
        p = case["norm"]
        batches = [[a ** p for a in b] for b in batches]
        ref = sum((sum(b) / len(b) for b in batches), Fraction(0)) / max(1, len(batches)) if batches else Fraction(0)
        line = "foldmean " + lst(batches, lambda b: lst(b, q))
    return dict(value=val, ref=ref, line=line)


def run_fold_deeponet(case):
    """DeepONetDataCondition(use_full_dataset=True) on a DeepONetDataLoader; the 'network' is a table pred[f][x], the
    data are y[f][x]; the batches are read from one separate pass over the same loader (their index sets are what the
    `shared` / `unique` correspondence validates), the aggregate is computed exactly from them"""
    tp = common.use_repo()
    import torch
    nB, bB, nT, bT = case["nB"], case["bB"], case["nT"], case["bT"]
    unique = case["layout"] == "unique"
    F = tp.spaces.R1("f"); X = tp.spaces.R2("x"); U = tp.spaces.R1("u")
    pred = [[Fraction(a, 8) for a in row] for row in case["pred"]]
    ys = [[Fraction(a, 8) for a in row] for row in case["y"]]
    fi = torch.arange(nB, dtype=torch.float64)
    xi = torch.arange(nT, dtype=torch.float64)
    branch = fi.reshape(nB, 1, 1).repeat(1, 3, 1)
    out = torch.tensor([[[float(v)] for v in row] for row in ys], dtype=torch.float64)
    if unique:
        trunk = torch.stack([fi.reshape(nB, 1).repeat(1, nT), xi.reshape(1, nT).repeat(nB, 1)], dim=-1)
    else:
        trunk = torch.stack([xi, xi + 0.5], dim=-1)
    loader = tp.utils.DeepONetDataLoader(branch, trunk, out, F, X, U, bB, bT,
                                         shuffle_branch=bool(case["shB"]), shuffle_trunk=bool(case["shT"]))
    P = torch.tensor([[float(v) for v in row] for row in pred], dtype=torch.float64)

    class Branch(torch.nn.Module):
        def forward(self, b):
            self.fs = b.as_tensor[:, 0, 0].long()

    class Table(tp.models.DeepONet):
        def __init__(self):
            torch.nn.Module.__init__(self)
            self.input_space, self.output_space = X, U
            self.branch = Branch()

        def forward(self, t, *a, **k):
            tt = t.as_tensor
            xs = (tt[0, :, 1] if tt.dim() == 3 else tt[:, 0]).long()
            return tp.spaces.Points(P[self.branch.fs][:, xs].unsqueeze(-1), U)

    cond = tp.conditions.DeepONetDataCondition(Table(), loader, norm=case["norm"], root=float(case.get("root", 1)), use_full_dataset=True)
    val = float(cond.forward())
    batches = []
    for bb, tb, ob in loader:
        fs = [int(v) for v in bb.as_tensor[:, 0, 0].tolist()]
        tt = tb.as_tensor
        xs = [int(v) for v in (tt[0, :, 1] if tt.dim() == 3 else tt[:, 0]).tolist()]
        batches.append([abs(pred[f][x] - ys[f][x]) for f in fs for x in xs])
    if case["norm"] == "inf":
        ref = max([Fraction(0)] + [a for b in batches for a in b])
        line = "foldinf " + lst(batches, lambda b: lst(b, q))
    else:
        p = case["norm"]
        batches = [[a ** p for a in b] for b in batches]
        ref = sum((sum(b) / len(b) for b in batches), Fraction(0)) / max(1, len(batches)) if batches else Fraction(0)
        line = "foldmean " + lst(batches, lambda b: lst(b, q))
    return dict(value=val, ref=ref, line=line)


# ------------------------------------------------------------------------------------------

def model_line(case):
    k = case["kind"]
    if k in ("pts", "pts2"):
        return f"pts {case['n']} {case['bs']} {case['drop']}"
    if k == "deeponet":
        lay = "unique" if case["layout"] == "uniqsame" else case["layout"]
        return f"{lay} {case['nB']} {case['bB']} {case['nT']} {case['bT']}"
    raise ValueError(k)


def shared_periods_coprime(case):
    nB, nT = case["nB"], case["nT"]
    bB = min(case["bB"], nB) if case["bB"] > 0 else nB
    bT = min(case["bT"], nT) if case["bT"] > 0 else nT
    return math.gcd(nB // math.gcd(nB, bB), nT // math.gcd(nT, bT)) == 1


def gen_cases(ctx):
    rng = ctx.rng
    cases = []
    N = ctx.scale(7, 12)
    for n in range(1, N + 1):
        for bs in range(1, N + 3):
            for drop in (0, 1):
                for shuffle in (0, 1):
                    # every second size pair with a further axis of 2-4 locations per sample (Points of shape [n, M, dim])
                    cases.append(dict(kind="pts", n=n, bs=bs, drop=drop, shuffle=shuffle, grid=[1, 2, 1, 3, 1, 4][(n + 2 * bs + drop) % 6]))
    for i in range(ctx.scale(120, 1200)):
        n = rng.randint(2, 30)
        cases.append(dict(kind="pts2", n=n, bs=rng.randint(1, n + 1), drop=rng.randint(0, 1), shuffle=rng.choice([0, 1, 1]),
                          passes=rng.choice([2, 2, 3]), interleaved=rng.choice([0, 1, 1]),
                          schedule=[rng.randint(0, 5) for _ in range(7)], workers=0, grid=rng.choice([1, 1, 2, 3])))
    for i in range(ctx.scale(3, 12)):   # batches dealt to worker processes (each worker owns a copy of the data set)
        n = rng.randint(7, 25)
        cases.append(dict(kind="pts2", n=n, bs=rng.randint(1, 4), drop=0, shuffle=1, passes=2, interleaved=0, schedule=[0],
                          workers=rng.choice([2, 3])))
    M = ctx.scale(6, 9)
    sizes = list(itertools.product(range(1, M + 1), repeat=4))
    for (nB, bB, nT, bT) in sizes:
        for layout in ("shared", "unique", "uniqsame"):
            if layout == "uniqsame" and ctx.quick and (nB + bB + nT + bT) % 3:
                continue
            flags = [(0, 0), (rng.randint(0, 1), rng.randint(0, 1))] if ctx.quick else list(itertools.product((0, 1), repeat=2))
            for shB, shT in flags:
                cases.append(dict(kind="deeponet", layout=layout, nB=nB, bB=bB, nT=nT, bT=bT, shB=shB, shT=shT,
                                  how=("expand", "repeat")[(nB + nT + shB) % 2]))
    # larger random sizes, oversized and "-1 = everything" batch sizes
    for _ in range(ctx.scale(300, 3000)):
        nB, nT = rng.randint(1, 24), rng.randint(1, 24)
        bB = rng.choice([-1, rng.randint(1, nB), rng.randint(1, nB + 5)])
        bT = rng.choice([-1, rng.randint(1, nT), rng.randint(1, nT + 5)])
        cases.append(dict(kind="deeponet", layout=rng.choice(["shared", "unique", "uniqsame"]), nB=nB, bB=bB, nT=nT, bT=bT,
                          shB=rng.randint(0, 1), shT=rng.randint(0, 1), how=rng.choice(["expand", "repeat"])))
    for _ in range(ctx.scale(150, 1500)):
        n = rng.randint(1, 14)
        cases.append(dict(kind="fold", x=[rng.randint(-40, 40) for _ in range(n)], y=[rng.randint(-40, 40) for _ in range(n)],
                          bs=rng.randint(1, n + 2), drop=rng.randint(0, 1), norm=rng.choice(["inf", 1, 2, 2, 3]),
                          loader=rng.choice(["points", "points", "torch"]), root=rng.choice([1, 1, 2, 3]), scale=rng.choice([0, 0, 10, 20]),
                          swap=rng.choice([0, 0, 1]), grid=rng.choice([1, 1, 2, 3])))
    for _ in range(ctx.scale(100, 1000)):
        nB, nT = rng.randint(1, 7), rng.randint(1, 7)
        cases.append(dict(kind="fold", loader="deeponet", layout=rng.choice(["shared", "unique"]), nB=nB, nT=nT,
                          bB=rng.choice([-1, rng.randint(1, nB + 1)]), bT=rng.choice([-1, rng.randint(1, nT + 1)]),
                          shB=rng.randint(0, 1), shT=rng.randint(0, 1), norm=rng.choice(["inf", 1, 2, 2, 3]), root=rng.choice([1, 1, 2, 3]),
                          pred=[[rng.randint(-24, 24) for _ in range(nT)] for _ in range(nB)],
                          y=[[rng.randint(-24, 24) for _ in range(nT)] for _ in range(nB)]))
    return cases


def evaluate(case):
    try:
        return _evaluate(case)
    except Exception as e:  # a legal data set / configuration must be served, not refused
        import traceback
        where = traceback.extract_tb(e.__traceback__)[-1]
        res = dict(error=f"{type(e).__name__}: {str(e)[:160]} (raised at {where.filename.split('/')[-1]}:{where.lineno}) for a legal configuration")
        if case["kind"] == "fold":
            res["line"] = "foldinf " + lst([], lambda b: lst(b, q))
        return res


def _evaluate(case):
    if case["kind"] == "pts":
        return run_points(case)
    if case["kind"] == "pts2":
        return run_points_passes(case)
    if case["kind"] == "deeponet":
        return run_deeponet(case)
    return run_fold_deeponet(case) if case.get("loader") == "deeponet" else run_fold(case)


def _parse(text):
    """'L | a b : x y | ...' -> (L, [([a,b],[x,y]), ...]); points batches have an empty second part"""
    head, *rest = [t.strip() for t in text.split("|")]
    out = []
    for r in rest:
        a, _, b = r.partition(":")
        out.append(([int(v) for v in a.split()], [int(v) for v in b.split()]))
    return int(head), out


def canonical(text, shuf_a, shuf_b):
    """What of a pass the statement fixes: the collection of batches, NOT the order in which they are presented, and — on a
    side whose shuffle flag is set — not which data rows sit at which position either.  Per batch the index tuple of an
    unshuffled side and the size of a shuffled side; per shuffled side the sorted numbers of batches each index occurs in;
    the number of distinct (function, location) pairs presented; the announced length."""
    n, bs = _parse(text)
    keys = sorted((tuple(a) if not shuf_a else len(a), tuple(b) if not shuf_b else len(b)) for a, b in bs)
    deg = []
    for side, shuf in ((0, shuf_a), (1, shuf_b)):
        cnt = {}
        for x in bs:
            for i in x[side]:
                cnt[i] = cnt.get(i, 0) + 1
        deg.append(sorted(cnt.values()) if shuf else None)
    pairs = len({(f, x) for a, b in bs for f in a for x in (b or [None])})
    return n, keys, deg, pairs


def same_traversal(impl_text, model_text, shuf_a, shuf_b):
    try:
        return canonical(impl_text, shuf_a, shuf_b) == canonical(model_text, shuf_a, shuf_b)
    except ValueError:
        return impl_text == model_text


def judge(rep, case, res, model_reply, alt_reply=None):
    """compare with the model's reply and apply the property oracles"""
    kind = case["kind"]
    if "error" in res:
        rep.fail(res["error"], case)
        return
    if kind == "pts2":
        rep.count(f"pts-passes:{'interleaved' if case['interleaved'] else 'consecutive'}:workers={case.get('workers', 0)}")
        if res["text"] != model_reply.split("|")[0].strip():
            rep.disagree("loader length: drivers/C16.lean `pts` vs len(loader)", case, res["text"], model_reply)
        for p in res["problems"]:
            rep.fail(p, case)
        return
    if kind in ("pts", "deeponet"):
        rep.count(f"{kind}:{case.get('layout','')}")
        shuf = (case.get("shuffle", 0), 0) if kind == "pts" else (case["shB"], case["shT"])
        if not same_traversal(res["text"], model_reply, *shuf) and alt_reply is not None and same_traversal(res["text"], alt_reply, *shuf):
            # which rows fill the incomplete last window is not fixed by the property: the model covers both policies
            rep.count("per-function layout: last window = its last bs rows (model `uniquePassWin lastSlice`, theorem unique_cover_last)")
        elif not same_traversal(res["text"], model_reply, *shuf):
            rep.disagree("loader index sets: drivers/C16.lean `" + model_line(case).split()[0] + "` vs iteration of the real loader",
                         case, res["text"], model_reply)
        for p in res["problems"]:
            rep.fail(p, case)
        if kind == "deeponet":
            rep.count("oversized-or-all" if (case["bB"] < 0 or case["bT"] < 0 or case["bB"] > case["nB"] or case["bT"] > case["nT"]) else "regular")
            wrap = case["nB"] % max(1, case["bB"]) != 0 or case["nT"] % max(1, case["bT"]) != 0
            rep.count("wraparound" if wrap else "dividing")
            if res["missing"]:
                what = (f"{case['layout']} layout ({case['nB']},{case['bB']},{case['nT']},{case['bT']}): one pass presents "
                        f"{res['presented']} of {case['nB'] * case['nT']} function-location pairs; never presented e.g. {res['missing'][:3]}")
                finding = None
                if case["layout"] == "shared" and not shared_periods_coprime(case):
                    finding = "deeponet_shared_noncoprime"
                rep.fail(what, case, finding=finding)
    else:
        rep.count(f"fold:{case['norm']}")
        rep.count(f"fold-loader:{case.get('loader', 'points')}")
        if case.get("swap"):
            rep.count("fold:second-evaluation-after-the-loader-was-replaced")
        ref = res["ref"]
        if common.unq(model_reply) != ref:
            rep.disagree("full-data-set fold: drivers/C16.lean fold vs reference reduction", case, str(ref), model_reply)
        root = case.get("root", 1)
        want = float(ref) ** (1.0 / root) if root != 1 else float(ref)     # "the n-th root to be computed to obtain the final loss"
        if root != 1:
            rep.count(f"fold-root:{root}")
        rep.count(f"fold-scale:2^-{case.get('scale', 0)}")
        # the accumulator is float32: relative tolerance 1e-5 (absolute only below the float32 denormal range)
        if abs(res["value"] - want) > 1e-5 * abs(want) + 1e-37:
            rep.fail(f"{'DeepONet' if case.get('loader') == 'deeponet' else ''}DataCondition(use_full_dataset, norm={case['norm']}, root={root}) on a "
                     f"{case.get('loader', 'points')} loader returned {res['value']!r}, the documented aggregate over the batches of one pass is {want!r}", case)


def run(ctx, rep, cases=None):
    rep.rule = ("exhaustive over all (n, batch, drop_last, shuffle) and (nB, bB, nT, bT) in a box (sizes in input_distribution) "
                "plus seeded larger sizes; data encode their own indices; a case is non-trivial if the data set has >= 2 rows "
                "(points) / >= 2 functions and locations (DeepONet); distinct = distinct parameter tuples")
    cases = cases if cases is not None else gen_cases(ctx)
    results = [evaluate(c) for c in cases]
    lines = [r["line"] if c["kind"] == "fold" else model_line(c) for c, r in zip(cases, results)]
    try:
        replies = common.run_driver("C16", lines)
    except common.DriverFailure:
        for c, r in zip(cases, results):
            judge(rep, c, r, r.get("text", ""))  # oracles only
        rep.disagreements.clear()
        raise
    # the per-function DeepONet layout under the other tail policy, asked only where the coded policy does not match
    alt_idx = [i for i, (c, r, m) in enumerate(zip(cases, results, replies))
               if c["kind"] == "deeponet" and c["layout"] in ("unique", "uniqsame") and "error" not in r
               and not same_traversal(r["text"], m, c["shB"], c["shT"])]
    alt = dict(zip(alt_idx, common.run_driver("C16", [model_line(cases[i]).replace("unique", "uniquelast", 1) for i in alt_idx]))) if alt_idx else {}
    for i_, (c, r, m) in enumerate(zip(cases, results, replies)):
        nontrivial = (c.get("n", 0) >= 2) or (c.get("nB", 0) >= 2 and c.get("nT", 0) >= 2) or (c["kind"] == "fold" and (len(c.get("x", ())) >= 2 or c.get("nB", 0) * c.get("nT", 0) >= 2))
        rep.case(c, nontrivial, sample=dict(case=c, implementation=r.get("text", r.get("value")), model=m), kind=c["kind"] + c.get("layout", "") + c.get("loader", ""))
        if c.get("grid", 1) > 1:
            rep.count("points with a further axis per sample (shape [n, M, dim]), M=%d" % c["grid"])
        judge(rep, c, r, m, alt.get(i_))
    rep.hist["box"] = f"points n<={ctx.scale(7,12)}; deeponet sizes<={ctx.scale(6,9)}"


def replay(ctx, obj):
    rep = common.Report(ctx)
    inp = obj.get("failing_input") or obj.get("first")
    case = inp["input"]
    lean = common.lean_check("C16")
    run(ctx, rep, [case])
    return common.finish(ctx, rep, lean)
