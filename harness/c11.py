"""C11 — samplers follow their named laws: uniform, even grid, Gaussian, LHS.

The laws themselves are THEOREMS (lean/TPV/Props/C11*.lean) about the parametrisation maps and the selection
semantics of the model (lean/TPV/Model/GeomSample.lean, GeomLaw.lean).  This harness ties the model to the code
and searches failing inputs:

  * deterministic correspondences (exact / float32 tolerance), every run
      tape    primitives and primitive boundaries: the recorded torch.rand draws of a call, fed to the Lean
              parametrisations (driver `prim`), must reproduce the returned points
      union   UnionDomain._sample_random_with_n: recorded proposals, membership bits, ratio and draws -> the choice
              per row (`unionpick`)
      prod    dependent ProductDomain: recorded fibre volumes and draws -> accepted candidates (`prodaccept`)
      lhs     LHSSampler: recorded shifts and permutations -> every coordinate column (`lhs`), no top-up in a box
      gauss   GaussianSampler: recorded normal proposals and membership bits -> the first n accepted (`acc`)
      grid    Interval.sample_grid -> `igrid`
  * property oracles on EVERY case (independent of the model):
      chi-square tests of cell counts of large samples on partitions whose cell measures are known exactly
      (natural coordinates of the primitives, pulled back through motions; products; closed-form normal
      probabilities) or from an independent geometry kernel (Shapely; discs as 16384-gons, relative area error
      2.5e-8) for CSG expressions; exact one-point-per-slab test for LHS designs; cell-count test for grids.
    Decision rule: chi-square statistic above the Laurent-Massart bound df + 2 sqrt(df L) + 2 L with
    L = ln(1/ALPHA), ALPHA = 1e-13 per test (P[chi2_df > bound] <= ALPHA), cells merged to an expected count
    >= MIN_EXP; a run has < 10^4 tests, so the false-alarm probability per run is < 1e-9.  Statistics never stand
    in for a theorem: they are the failing-input search after a correspondence break and a sanity oracle.
"""
import math
import time
from fractions import Fraction as Fr
from unittest import mock

import numpy as np

import common
import geomgen
from geomgen import DIM, Gen, Node, PF, env_tokens

ALPHA = 1e-13
L_ALPHA = math.log(1.0 / ALPHA)
MIN_EXP = 200.0
CTOL = 5e-5              # tape correspondence: |impl - model| <= CTOL * max(1, |model|)
TIMEOUT = 60
INTENSIFIED_N = 400000   # points per parameter row of the distribution oracle when a correspondence is unusable
OUT_TOL = 1e-4           # normalised distance beyond which a point counts as outside its domain
PRIMS = ("interval", "par", "tri", "circle", "sphere")


# =============================================================================================
# small utilities

def pt_np(t, env):
    """numpy evaluation of a parameter term; env: name -> list of floats / arrays"""
    k = t[0]
    if k == "c":
        return float(t[1])
    if k == "v":
        return env[t[1]][t[2]]
    if k == "n":
        return -pt_np(t[1], env)
    a, b = pt_np(t[1], env), pt_np(t[2], env)
    return a + b if k == "+" else a - b if k == "-" else a * b


def pf_np(pf, env):
    return [pt_np(t, env) for t in pf.terms]


def fenv(env):
    """Fraction env -> float env"""
    return {k: [float(x) for x in v] for k, v in env.items()}


def gen_prows(rng, params, k):
    return [{p: [Fr(rng.randint(0, 16), 16)] for p in params} for _ in range(k)]


def prows_json(prows):
    return [{p: [str(x) for x in v] for p, v in r.items()} for r in prows]


def prows_of(case):
    return [{p: [Fr(x) for x in v] for p, v in r.items()} for r in case["prows"]]


# ---- variable names.  The generator (geomgen) writes every expression with the one-character names x, y, z, s, t, D; the
# LIBRARY objects of a case are built with the names of the case's naming scheme (multi-character names, names that share
# characters, names with digits), and the parameter columns in the case's column order.  Model side, partitions and replay
# files keep the canonical names; `nm` translates at the boundary to the library.
NAME_SCHEMES = [
    {},
    {"s": "tau", "t": "t", "D": "ta"},                                   # 't', 'ta', 'tau': names sharing characters
    {"s": "x1", "y": "x2", "t": "mu", "D": "D0"},                        # digits; 'x' and 'x1', 'x2'
    {"x": "pos", "y": "yy", "z": "zzz", "s": "time", "t": "tt", "D": "Dd"},
    {"s": "ss", "t": "s", "D": "t"},                                     # a name that is another variable's canonical name
]
for _sch in NAME_SCHEMES:
    for _k, _v in _sch.items():
        DIM.setdefault(_v, DIM[_k])
_CTX = dict(names={}, rev=False, scale=Fr(1), numstyle=None, int_params=False)
SPATIAL = ("x", "y", "z")          # coordinates that the length scale of a case applies to (not the product variable s, not parameters)


def set_naming(case):
    """the case's configuration at the boundary to the library: variable names, column order, LENGTH SCALE (all lengths of the
    canonical expression are multiplied by it when the library objects are built, returned coordinates are divided by it before
    they are judged) and NUMBER STYLE of constant shape parameters (python ints, integer / 0-d tensors, numpy numbers)"""
    _CTX["names"] = dict(case.get("names") or {})
    _CTX["rev"] = bool(case.get("param_order_reversed"))
    _CTX["scale"] = Fr(case.get("scale") or 1)
    _CTX["numstyle"] = case.get("numstyle")
    _CTX["int_params"] = bool(case.get("int_params"))


def lam():
    return float(_CTX["scale"])


def scale_node(node):
    """every length of the expression times the case's scale: points, radii, bounds, translations, rotation centres (not the
    rotation matrix)"""
    lam_ = _CTX["scale"]
    if lam_ == 1:
        return node
    def sc(p):
        return PF([("*", geomgen.c(lam_), t) for t in p.terms])
    k = node.kind
    if k == "rotate":
        pfs = [node.pfs[0], sc(node.pfs[1])]
    else:
        pfs = [sc(p) for p in node.pfs]
    if k == "interval" and node.var not in SPATIAL:
        pfs = node.pfs
    return Node(k, node.var, pfs, [scale_node(x) for x in node.kids], dict(node.flags))


def styled(vals, scalar):
    """constant integral shape parameters in the case's number style"""
    import torch
    st = _CTX["numstyle"]
    iv = [int(v) for v in vals]
    if st == "int":
        return iv[0] if scalar else iv
    if st == "int64":
        return torch.tensor(iv[0] if scalar else iv, dtype=torch.int64)
    if st == "t0d":
        return torch.tensor(float(iv[0])) if scalar else torch.tensor([float(v) for v in iv])
    if st == "np":
        return np.int64(iv[0]) if scalar else np.array(iv)
    raise ValueError(st)


def nm(v):
    return _CTX["names"].get(v, v)


def rename_term(t):
    k = t[0]
    if k == "c":
        return t
    if k == "v":
        return ("v", nm(t[1]), t[2])
    if k == "n":
        return ("n", rename_term(t[1]))
    return (k, rename_term(t[1]), rename_term(t[2]))


def rename_node(node):
    return Node(node.kind, nm(node.var) if node.var else node.var, [PF([rename_term(t) for t in p.terms]) for p in node.pfs],
                [rename_node(k) for k in node.kids], dict(node.flags))


def mk_params(tp, names, prows):
    import torch
    if not names or not prows:
        return tp.spaces.Points.empty()
    names = list(reversed(names)) if _CTX["rev"] else list(names)
    sp = None
    for p in names:
        s = tp.spaces.R1(nm(p))
        sp = s if sp is None else sp * s
    if _CTX.get("int_params"):       # parameter rows handed over as INT64 (shape parameters that are functions of them inherit the dtype)
        return tp.spaces.Points(torch.tensor([[int(r[p][0]) for p in names] for r in prows], dtype=torch.int64), sp)
    return tp.spaces.Points(torch.tensor([[float(r[p][0]) for p in names] for r in prows], dtype=torch.float32), sp)


class Tape:
    """records the random draws of one library call: torch.rand, rand_like, randperm, Normal.sample"""

    def __init__(self):
        self.draws = []     # (kind, tensor)

    def __enter__(self):
        import torch
        tape = self
        o_rand, o_like, o_perm = torch.rand, torch.rand_like, torch.randperm
        o_nsample = torch.distributions.normal.Normal.sample

        def rand(*a, **k):
            r = o_rand(*a, **k)
            tape.draws.append(("rand", r.clone()))
            return r

        def rand_like(*a, **k):
            r = o_like(*a, **k)
            tape.draws.append(("rand_like", r.clone()))
            return r

        def randperm(*a, **k):
            r = o_perm(*a, **k)
            tape.draws.append(("randperm", r.clone()))
            return r

        def nsample(self_, *a, **k):
            r = o_nsample(self_, *a, **k)
            tape.draws.append(("normal", r.clone()))
            return r
        self._p = [mock.patch("torch.rand", rand), mock.patch("torch.rand_like", rand_like),
                   mock.patch("torch.randperm", randperm),
                   mock.patch("torch.distributions.normal.Normal.sample", nsample)]
        for p in self._p:
            p.start()
        return self

    def __exit__(self, *exc):
        for p in self._p:
            p.stop()
        return False

    def of(self, kind):
        return [t for k, t in self.draws if k == kind]


def build_proxy_class(tp):
    from torchphysics.problem.domains.domain import Domain
    Points = tp.spaces.Points

    class Proxy(Domain):
        """delegates to `inner`, logging sampling calls, membership answers and volumes"""

        def __init__(self, inner, log, tag):
            self.inner, self.log, self.tag = inner, log, tag
            self.space, self.dim = inner.space, inner.dim
            self.necessary_variables = inner.necessary_variables
            self._user_volume = None

        def __call__(self, **data):
            return Proxy(self.inner(**data), self.log, self.tag)

        def sample_random_uniform(self, n=None, d=None, params=Points.empty(), device="cpu"):
            r = self.inner.sample_random_uniform(n=n, d=d, params=params, device=device)
            self.log.append((self.tag, "rand", n, r.as_tensor.clone()))
            return r

        def sample_grid(self, n=None, d=None, params=Points.empty(), device="cpu"):
            r = self.inner.sample_grid(n=n, d=d, params=params, device=device)
            self.log.append((self.tag, "grid", n, r.as_tensor.clone()))
            return r

        def _contains(self, points, params=Points.empty()):
            r = self.inner._contains(points, params)
            self.log.append((self.tag, "contains", None, r.reshape(-1).clone()))
            return r

        def volume(self, params=Points.empty(), device="cpu"):
            r = self.inner.volume(params, device=device)
            self.log.append((self.tag, "volume", None, r.clone()))
            return r

        def _get_volume(self, params=Points.empty(), device="cpu"):
            return self.inner.volume(params, device=device)

        def bounding_box(self, params=Points.empty(), device="cpu"):
            return self.inner.bounding_box(params, device=device)

        @property
        def boundary(self):
            return Proxy(self.inner.boundary, self.log, self.tag + ".bdry")
    return Proxy


# =============================================================================================
# chi-square decision

def chi2_decide(counts, probs, labels=None):
    """counts, probs: cells (probabilities sum to 1).  Cells with expected count < MIN_EXP are pooled.
    returns dict(ok, stat, bound, df, N, worst)"""
    counts = [int(x) for x in counts]
    N = sum(counts)
    cells = sorted(zip(probs, counts, labels or list(range(len(counts)))), key=lambda c: c[0])
    pooled, pool_p, pool_c = [], 0.0, 0
    for p, cnt, lab in cells:
        if N * p < MIN_EXP:
            pool_p += p; pool_c += cnt
        else:
            pooled.append((p, cnt, lab))
    if pool_p > 0 or pool_c > 0:
        if N * pool_p >= MIN_EXP or not pooled:
            pooled.append((pool_p, pool_c, "pooled-small-cells"))
        else:   # still too small: join the smallest regular cell
            p, cnt, lab = pooled[0]
            pooled[0] = (p + pool_p, cnt + pool_c, f"{lab}+pooled-small-cells")
    stat, worst = 0.0, None
    for p, cnt, lab in pooled:
        e = N * p
        if e <= 0:
            if cnt > 0:
                return dict(ok=False, stat=float("inf"), bound=0.0, df=len(pooled) - 1, N=N,
                            worst=dict(cell=lab, observed=cnt, expected=0.0))
            continue
        z = (cnt - e) ** 2 / e
        stat += z
        if worst is None or z > worst[0]:
            worst = (z, lab, cnt, e)
    df = max(1, len(pooled) - 1)
    bound = df + 2 * math.sqrt(df * L_ALPHA) + 2 * L_ALPHA
    return dict(ok=stat <= bound, stat=round(stat, 2), bound=round(bound, 2), df=df, N=N,
                worst=dict(cell=worst[1], observed=worst[2], expected=round(worst[3], 1)) if worst else None)


# =============================================================================================
# natural-coordinate partitions with exact cell probabilities

def _bary(X, o, c1, c2):
    d1x, d1y, d2x, d2y = c1[0] - o[0], c1[1] - o[1], c2[0] - o[0], c2[1] - o[1]
    det = d1x * d2y - d1y * d2x
    qx, qy = X[:, 0] - o[0], X[:, 1] - o[1]
    return (d2y * qx - d2x * qy) / det, (d1x * qy - d1y * qx) / det


def _cols(vals, N):
    return np.column_stack([np.broadcast_to(np.asarray(a, dtype=float), (N,)) for a in vals])


def _bin(u, m):
    """bin of u in [0,1] among m equal cells; -1 = outside by more than OUT_TOL"""
    idx = np.floor(np.clip(u, 0.0, 1.0 - 1e-12) * m).astype(np.int64)
    idx[(u < -OUT_TOL) | (u > 1 + OUT_TOL)] = -1
    return idx


def _combine(parts):
    """parts: list of (idx array with -1 = outside, number of cells) -> joint index (outside stays -1)"""
    idx = np.zeros_like(parts[0][0])
    bad = np.zeros(idx.shape, dtype=bool)
    for a, m in parts:
        bad |= a < 0
        idx = idx * m + np.where(a < 0, 0, a)
    idx[bad] = -1
    return idx


def nat_partition(node, X, env):
    """X: (N, dim) points of the node's own variable, env: float env (values may be arrays of length N).
    returns (idx, probs, labels): cell index per point (-1 = outside the domain), exact cell probabilities"""
    k = node.kind
    if k == "translate":
        t = pf_np(node.pfs[0], env)
        return nat_partition(node.kids[0], X - _cols(t, len(X)), env)
    if k == "rotate":
        m, c = pf_np(node.pfs[0], env), pf_np(node.pfs[1], env)
        det = m[0] * m[3] - m[1] * m[2]
        qx, qy = X[:, 0] - c[0], X[:, 1] - c[1]
        Y = np.stack([(m[3] * qx - m[1] * qy) / det + c[0], (m[0] * qy - m[2] * qx) / det + c[1]], axis=1)
        return nat_partition(node.kids[0], Y, env)
    if k == "bdry" and node.kids[0].kind in ("translate", "rotate"):
        inner = node.kids[0]
        pushed = Node(inner.kind, inner.var, inner.pfs, [Node("bdry", None, [], [inner.kids[0]])])
        return nat_partition(pushed, X, env)
    if k == "interval":
        (l,), (u,) = pf_np(node.pfs[0], env), pf_np(node.pfs[1], env)
        m = 16
        return _bin((X[:, 0] - l) / (u - l), m), [1.0 / m] * m, [f"[{i}/{m},{i + 1}/{m}) of the interval" for i in range(m)]
    if k == "par":
        o, c1, c2 = [pf_np(p, env) for p in node.pfs]
        s, t = _bary(X, o, c1, c2)
        m = 4
        return (_combine([(_bin(s, m), m), (_bin(t, m), m)]), [1.0 / (m * m)] * (m * m),
                [f"barycentric cell s in [{i}/{m},{i + 1}/{m}), t in [{j}/{m},{j + 1}/{m})" for i in range(m) for j in range(m)])
    if k == "tri":
        o, c1, c2 = [pf_np(p, env) for p in node.pfs]
        s, t = _bary(X, o, c1, c2)
        m = 5
        i, j = _bin(s, m), _bin(t, m)
        out = (i < 0) | (j < 0) | (s + t > 1 + OUT_TOL)
        i, j = np.where(out, 0, i), np.where(out, 0, j)
        # points on the far side of the diagonal by rounding belong to the diagonal cell
        over = i + j > m - 1
        j = np.where(over, m - 1 - i, j)
        cells, probs, labels = {}, [], []
        for a in range(m):
            for b in range(m - a):
                cells[(a, b)] = len(probs)
                probs.append((2.0 if a + b < m - 1 else 1.0) / (m * m))
                labels.append(f"barycentric cell s in [{a}/{m},{a + 1}/{m}), t in [{b}/{m},{b + 1}/{m}) of the triangle")
        lut = -np.ones((m, m), dtype=np.int64)
        for (a, b), ix in cells.items():
            lut[a, b] = ix
        idx = lut[i, j]
        idx[out] = -1
        return idx, probs, labels
    if k == "circle":
        c, (r,) = pf_np(node.pfs[0], env), pf_np(node.pfs[1], env)
        dx, dy = X[:, 0] - c[0], X[:, 1] - c[1]
        q = (dx * dx + dy * dy) / (r * r)
        ang = np.mod(np.arctan2(dy, dx), 2 * math.pi) / (2 * math.pi)
        mr, ma = 4, 8
        return (_combine([(_bin(q, mr), mr), (_bin(ang, ma), ma)]), [1.0 / (mr * ma)] * (mr * ma),
                [f"(|p-c|/r)^2 in [{i}/{mr},{i + 1}/{mr}), angle/2pi in [{j}/{ma},{j + 1}/{ma})" for i in range(mr) for j in range(ma)])
    if k == "sphere":
        c, (r,) = pf_np(node.pfs[0], env), pf_np(node.pfs[1], env)
        d = X - _cols(c, len(X))
        rho = np.sqrt((d * d).sum(axis=1))
        q = (rho / r) ** 3
        z = (d[:, 2] / np.maximum(rho, 1e-30) + 1) / 2
        ang = np.mod(np.arctan2(d[:, 1], d[:, 0]), 2 * math.pi) / (2 * math.pi)
        mr, mz, ma = 3, 4, 4
        return (_combine([(_bin(q, mr), mr), (_bin(z, mz), mz), (_bin(ang, ma), ma)]), [1.0 / (mr * mz * ma)] * (mr * mz * ma),
                [f"(|p-c|/r)^3 bin {i}/{mr}, height bin {j}/{mz}, azimuth bin {l}/{ma}" for i in range(mr) for j in range(mz) for l in range(ma)])
    if k in ("bdryL", "bdryR"):
        inner = node.kids[0]
        (l,), (u,) = pf_np(inner.pfs[0], env), pf_np(inner.pfs[1], env)
        target = l if k == "bdryL" else u
        idx = np.where(np.abs(X[:, 0] - target) <= OUT_TOL * np.abs(u - l), 0, -1)
        return idx, [1.0], ["the end point"]
    if k == "bdry":
        inner = node.kids[0]
        ik = inner.kind
        if ik == "interval":
            (l,), (u,) = pf_np(inner.pfs[0], env), pf_np(inner.pfs[1], env)
            w = np.abs(u - l)
            idx = np.where(np.abs(X[:, 0] - l) <= OUT_TOL * w, 0, np.where(np.abs(X[:, 0] - u) <= OUT_TOL * w, 1, -1))
            return idx, [0.5, 0.5], ["left end point", "right end point"]
        if ik in ("par", "tri"):
            o, c1, c2 = [pf_np(p, env) for p in inner.pfs]
            s, t = _bary(X, o, c1, c2)
            l1 = math.hypot(c1[0] - o[0], c1[1] - o[1])
            l2 = math.hypot(c2[0] - o[0], c2[1] - o[1])
            sub = 3
            if ik == "par":
                # edges in walking order: t=0 (param s), s=1 (param t), t=1 (param 1-s), s=0 (param 1-t)
                dist = np.stack([np.abs(t), np.abs(s - 1), np.abs(t - 1), np.abs(s)], axis=1)
                par = np.stack([s, t, 1 - s, 1 - t], axis=1)
                lens = [l1, l2, l1, l2]
                names = ["origin->corner_1", "corner_1->corner_3", "corner_3->corner_2", "corner_2->origin"]
            else:
                l3 = math.hypot(c2[0] - c1[0], c2[1] - c1[1])
                dist = np.stack([np.abs(t), np.abs(s + t - 1) / math.sqrt(2), np.abs(s)], axis=1)
                par = np.stack([s, t, 1 - t], axis=1)
                lens = [l1, l3, l2]
                names = ["origin->corner_1", "corner_1->corner_2", "corner_2->origin"]
            e = np.argmin(dist, axis=1)
            dmin = dist[np.arange(len(e)), e]
            pe = par[np.arange(len(e)), e]
            b = _bin(pe, sub)
            idx = e * sub + np.where(b < 0, 0, b)
            idx[(dmin > OUT_TOL) | (b < 0)] = -1
            tot = sum(lens)
            probs = [ln / tot / sub for ln in lens for _ in range(sub)]
            labels = [f"edge {nm}, part {i + 1}/{sub}" for nm in names for i in range(sub)]
            return idx, probs, labels
        if ik == "circle":
            c, (r,) = pf_np(inner.pfs[0], env), pf_np(inner.pfs[1], env)
            dx, dy = X[:, 0] - c[0], X[:, 1] - c[1]
            rad = np.sqrt(dx * dx + dy * dy) / r
            ang = np.mod(np.arctan2(dy, dx), 2 * math.pi) / (2 * math.pi)
            ma = 16
            idx = _bin(ang, ma)
            idx[np.abs(rad - 1) > OUT_TOL] = -1
            return idx, [1.0 / ma] * ma, [f"arc angle/2pi in [{j}/{ma},{j + 1}/{ma})" for j in range(ma)]
        if ik == "sphere":
            c, (r,) = pf_np(inner.pfs[0], env), pf_np(inner.pfs[1], env)
            d = X - _cols(c, len(X))
            rho = np.sqrt((d * d).sum(axis=1))
            z = (d[:, 2] / np.maximum(rho, 1e-30) + 1) / 2
            ang = np.mod(np.arctan2(d[:, 1], d[:, 0]), 2 * math.pi) / (2 * math.pi)
            mz, ma = 6, 6
            idx = _combine([(_bin(z, mz), mz), (_bin(ang, ma), ma)])
            idx[np.abs(rho / r - 1) > OUT_TOL] = -1
            return idx, [1.0 / (mz * ma)] * (mz * ma), [f"height slab {j}/{mz}, azimuth {l}/{ma}" for j in range(mz) for l in range(ma)]
    raise ValueError("no natural partition for " + k)


def fibre_volume_poly(a, env, svar):
    """volume of the primitive `a` as polynomial coefficients in the product variable `svar` (Fractions, up to a
    constant factor such as pi): parameters are affine in svar"""
    def aff(term):
        e0 = dict(env); e0[svar] = [Fr(0)]
        e1 = dict(env); e1[svar] = [Fr(1)]
        v0, v1 = geomgen.pt_eval(term, e0), geomgen.pt_eval(term, e1)
        return (v0, v1 - v0)
    if a.kind == "interval":
        l, u = aff(a.pfs[0].terms[0]), aff(a.pfs[1].terms[0])
        return [u[0] - l[0], u[1] - l[1]]
    if a.kind == "circle":
        r = aff(a.pfs[1].terms[0])
        return [r[0] * r[0], 2 * r[0] * r[1], r[1] * r[1]]
    if a.kind in ("par", "tri"):
        o, c1, c2 = [[aff(t) for t in p.terms] for p in a.pfs]
        # generator: all corners share one shift, so the edge vectors are constant
        d1 = (c1[0][0] - o[0][0], c1[1][0] - o[1][0]); d2 = (c2[0][0] - o[0][0], c2[1][0] - o[1][0])
        if any(c1[i][1] != o[i][1] or c2[i][1] != o[i][1] for i in range(2)):
            raise ValueError("edge vectors depend on the product variable")
        return [abs(d1[0] * d2[1] - d1[1] * d2[0])]
    raise ValueError(a.kind)


def build_tp(node, tp):
    """the library object of an expression, with the variable names of the case's naming scheme"""
    return _build_tp(rename_node(scale_node(node)), tp)


def _build_tp(node, tp):
    """like Node.to_tp; flagged unions / cuts are built with the classes of their own modules (tp.domains does not
    export UnionDomain / CutDomain, which geomgen's to_tp assumes)"""
    k = node.kind
    D = tp.domains
    if k in PRIMS:
        consts = all(t[0] == "c" and Fr(t[1]).denominator == 1 for p in node.pfs for t in p.terms)
        if _CTX["numstyle"] and consts:
            vals = [[t[1] for t in p.terms] for p in node.pfs]
            sp = node.space(tp)
            if k == "interval":
                return D.Interval(sp, styled(vals[0], True), styled(vals[1], True))
            if k in ("par", "tri"):
                return (D.Parallelogram if k == "par" else D.Triangle)(sp, *[styled(v, False) for v in vals])
            return (D.Circle if k == "circle" else D.Sphere)(sp, styled(vals[0], False), styled(vals[1], True))
        return node.to_tp(tp)
    kids = [_build_tp(x, tp) for x in node.kids]
    if k == "union":
        from torchphysics.problem.domains.domainoperations.union import UnionDomain
        return UnionDomain(kids[0], kids[1], disjoint=True) if node.flags.get("disjoint") else kids[0] + kids[1]
    if k == "cut":
        from torchphysics.problem.domains.domainoperations.cut import CutDomain
        return CutDomain(kids[0], kids[1], contained=True) if node.flags.get("contained") else kids[0] - kids[1]
    if k == "inter":
        return kids[0] & kids[1]
    if k == "prod":
        return kids[0] * kids[1]
    if k == "translate":
        return D.Translate(kids[0], node.pfs[0].py())
    if k == "rotate":
        return D.Rotate(kids[0], node.pfs[0].py(matrix=True), node.pfs[1].py())
    if k == "bdry":
        return kids[0].boundary
    if k == "bdryL":
        return kids[0].boundary_left
    if k == "bdryR":
        return kids[0].boundary_right
    raise ValueError(k)


def padd(p, q_, sign=1):
    n = max(len(p), len(q_))
    return [(p[i] if i < len(p) else 0) + sign * (q_[i] if i < len(q_) else 0) for i in range(n)]


def fibre_total_poly(a, env, svar):
    """measure of the first factor `a` of a product as a polynomial in the product variable (up to the factor pi for
    discs): primitives, their translations / rotations (measure preserving; the generator's matrices have determinant 1),
    cuts flagged `contained` (difference) and unions flagged `disjoint` (sum)"""
    if a.kind in PRIMS:
        return fibre_volume_poly(a, env, svar)
    if a.kind in ("translate", "rotate"):
        return fibre_total_poly(a.kids[0], env, svar)
    if a.kind == "bdry" and a.kids[0].kind == "circle":
        return circle_radius_poly(a.kids[0], env, svar)            # perimeter 2 pi r, up to the factor 2 pi
    if a.kind == "cut" and a.flags.get("contained"):
        return padd(fibre_total_poly(a.kids[0], env, svar), fibre_total_poly(a.kids[1], env, svar), -1)
    if a.kind == "union" and a.flags.get("disjoint"):
        return padd(fibre_total_poly(a.kids[0], env, svar), fibre_total_poly(a.kids[1], env, svar))
    raise ValueError(a.kind)


def circle_radius_poly(c, env, svar):
    e0 = dict(env); e0[svar] = [Fr(0)]
    e1 = dict(env); e1[svar] = [Fr(1)]
    t = c.pfs[1].terms[0]
    v0, v1 = geomgen.pt_eval(t, e0), geomgen.pt_eval(t, e1)
    return [v0, v1 - v0]


def fibre_cells(a, X, envf, env_row, svar="s"):
    """partition of the fibre A(s) of a product into cells whose measures are polynomials in s (exact, Fractions):
    returns (idx per point, list of polynomials, labels)"""
    k = a.kind
    if k == "translate":
        t = pf_np(a.pfs[0], envf)
        return fibre_cells(a.kids[0], X - _cols(t, len(X)), envf, env_row, svar)
    if k == "rotate":
        m, c = pf_np(a.pfs[0], envf), pf_np(a.pfs[1], envf)
        det = m[0] * m[3] - m[1] * m[2]
        qx, qy = X[:, 0] - c[0], X[:, 1] - c[1]
        Y = np.stack([(m[3] * qx - m[1] * qy) / det + c[0], (m[0] * qy - m[2] * qx) / det + c[1]], axis=1)
        return fibre_cells(a.kids[0], Y, envf, env_row, svar)
    if k == "union" and a.flags.get("disjoint"):
        ia, pa, la = fibre_cells(a.kids[0], X, envf, env_row, svar)
        ib, pb, lb = fibre_cells(a.kids[1], X, envf, env_row, svar)
        idx = np.where(ia >= 0, ia, np.where(ib >= 0, len(pa) + ib, -1))
        return idx, pa + pb, ["first operand: " + x for x in la] + ["second operand: " + x for x in lb]
    if k == "cut" and a.flags.get("contained") and a.kids[0].kind == "circle" and a.kids[1].kind == "circle":
        # annulus (same centre): (|p-c|^2 - q^2) / (r^2 - q^2) is uniform on [0,1], the angle is uniform
        big, hole = a.kids
        c, (r,), (q_,) = pf_np(big.pfs[0], envf), pf_np(big.pfs[1], envf), pf_np(hole.pfs[1], envf)
        dx, dy_ = X[:, 0] - c[0], X[:, 1] - c[1]
        w = (dx * dx + dy_ * dy_ - q_ * q_) / (r * r - q_ * q_)
        ang = np.mod(np.arctan2(dy_, dx), 2 * math.pi) / (2 * math.pi)
        mr, ma = 3, 6
        idx = _combine([(_bin(w, mr), mr), (_bin(ang, ma), ma)])
        tot = fibre_total_poly(a, env_row, svar)
        return (idx, [[x / (mr * ma) for x in tot] for _ in range(mr * ma)],
                [f"annulus: normalised squared radius bin {i + 1}/{mr}, angle bin {j + 1}/{ma}" for i in range(mr) for j in range(ma)])
    if k == "bdry" and a.kids[0].kind == "circle":
        idx, probs, labels = nat_partition(a, X, envf)
        vol = circle_radius_poly(a.kids[0], env_row, svar)
        return idx, [[Fr(p).limit_denominator(100000) * x for x in vol] for p in probs], labels
    if k in PRIMS:
        idx, probs, labels = nat_partition(a, X, envf)
        vol = fibre_volume_poly(a, env_row, svar)
        return idx, [[Fr(p).limit_denominator(100000) * x for x in vol] for p in probs], labels
    raise ValueError("no fibre partition for " + k)


def poly_int(coef, a, b):
    return sum(c * (b ** (i + 1) - a ** (i + 1)) / (i + 1) for i, c in enumerate(coef))


# =============================================================================================
# Shapely view of 1-D / 2-D CSG expressions (independent measure oracle)

def shp(node, env):
    """env: float env"""
    from shapely.geometry import Point, Polygon, box
    from shapely import affinity
    k = node.kind
    if k == "interval":
        (l,), (u,) = pf_np(node.pfs[0], env), pf_np(node.pfs[1], env)
        return box(l, 0.0, u, 1.0)
    if k == "par":
        o, c1, c2 = [pf_np(p, env) for p in node.pfs]
        return Polygon([o, c1, [c1[0] + c2[0] - o[0], c1[1] + c2[1] - o[1]], c2])
    if k == "tri":
        o, c1, c2 = [pf_np(p, env) for p in node.pfs]
        return Polygon([o, c1, c2])
    if k == "circle":
        c, (r,) = pf_np(node.pfs[0], env), pf_np(node.pfs[1], env)
        return Point(c[0], c[1]).buffer(r, quad_segs=4096)
    if k == "union":
        return shp(node.kids[0], env).union(shp(node.kids[1], env))
    if k == "cut":
        return shp(node.kids[0], env).difference(shp(node.kids[1], env))
    if k == "inter":
        return shp(node.kids[0], env).intersection(shp(node.kids[1], env))
    if k == "translate":
        t = pf_np(node.pfs[0], env)
        return affinity.translate(shp(node.kids[0], env), t[0], t[1] if len(t) > 1 else 0.0)
    if k == "rotate":
        m, c = pf_np(node.pfs[0], env), pf_np(node.pfs[1], env)
        return affinity.affine_transform(shp(node.kids[0], env),
                                         [m[0], m[1], m[2], m[3], c[0] - m[0] * c[0] - m[1] * c[1], c[1] - m[2] * c[0] - m[3] * c[1]])
    raise ValueError(k)


def grid_cells(geom, dim, g):
    from shapely.geometry import box
    if geom.is_empty or not all(math.isfinite(b_) for b_ in geom.bounds):
        raise DegenerateCase("empty region")
    x0, y0, x1, y1 = geom.bounds
    if dim == 1:
        return [box(x0 + (x1 - x0) * i / g, 0.0, x0 + (x1 - x0) * (i + 1) / g, 1.0) for i in range(g)], (x0, y0, x1, y1)
    return [box(x0 + (x1 - x0) * i / g, y0 + (y1 - y0) * j / g, x0 + (x1 - x0) * (i + 1) / g, y0 + (y1 - y0) * (j + 1) / g)
            for i in range(g) for j in range(g)], (x0, y0, x1, y1)


def grid_index(X, bounds, dim, g):
    x0, y0, x1, y1 = bounds
    i = np.floor(np.clip((X[:, 0] - x0) / (x1 - x0), 0, 1 - 1e-12) * g).astype(np.int64)
    if dim == 1:
        return i
    j = np.floor(np.clip((X[:, 1] - y0) / (y1 - y0), 0, 1 - 1e-12) * g).astype(np.int64)
    return i * g + j


def exact_volume_node(node):
    """does the library know the exact volume of this node?  (primitives and their motions)"""
    if node.kind in PRIMS:
        return True
    if node.kind in ("translate", "rotate"):
        return exact_volume_node(node.kids[0])
    return False


def unions_ok(node, envs):
    """every union inside has operands with exactly known volumes and an overlap of measure zero"""
    for kid in node.kids:
        if not unions_ok(kid, envs):
            return False
    if node.kind == "union":
        if not (exact_volume_node(node.kids[0]) and exact_volume_node(node.kids[1])):
            return False
        for e in envs:
            a, b = shp(node.kids[0], e), shp(node.kids[1], e)
            if a.intersection(b).area > 1e-12:
                return False
    return True


# =============================================================================================
# case generation

def dy(rng, lo, hi, den=8):
    return Fr(rng.randint(int(lo * den), int(hi * den)), den)


def gen_law_node(rng, params):
    """primitive or primitive boundary, possibly under translations / a rotation"""
    g = Gen(rng, params=params)
    var = rng.choice(["x", "x", "x", "y", "z"])
    node = g.prim(var)
    moved = rng.random() < 0.4
    if moved:
        for _ in range(rng.choice([1, 1, 2])):
            if DIM[var] == 2 and rng.random() < 0.5:
                co, si = rng.choice([(Fr(3, 5), Fr(4, 5)), (Fr(0), Fr(1)), (Fr(5, 13), Fr(12, 13)), (Fr(-3, 5), Fr(4, 5)), (Fr(-4, 5), Fr(-3, 5))])
                node = Node("rotate", var, [PF([geomgen.c(co), geomgen.c(-si), geomgen.c(si), geomgen.c(co)]),
                                            PF([geomgen.c(dy(rng, -1, 1)), geomgen.c(dy(rng, -1, 1))])], [node])
            else:
                node = Node("translate", var, [g.vec([dy(rng, -2, 2) for _ in range(DIM[var])])], [node])
    if rng.random() < 0.45:
        kind = "bdry"
        if var == "y" and not moved and rng.random() < 0.3:
            kind = rng.choice(["bdryL", "bdryR"])
        node = Node(kind, None, [], [node])
    return node


def gen_csg_node(rng, params, prows, depth):
    for _ in range(60):
        g = Gen(rng, params=params)
        var = rng.choice(["x", "x", "x", "y"])
        if var == "y":
            g.allow_rotate = False
        node = g.solid(depth, var)
        if node.is_prim():
            continue
        envs = [fenv(r) for r in prows] or [{}]
        try:
            if not unions_ok(node, envs):
                continue
            ok = True
            for e in envs:
                geom = shp(node, e)
                if not region_ok(geom):
                    ok = False
                    break
                x0, y0, x1, y1 = geom.bounds
                if geom.area < 0.08 * (x1 - x0) * (y1 - y0) or geom.area < 0.05:
                    ok = False
                # every rejection step must keep a decent share (else sampling is slow, not wrong)
                for sub in subtrees(node):
                    if sub.kind in ("cut", "inter"):
                        a = shp(sub.kids[0], e)
                        if shp(sub, e).area < 0.08 * a.area:
                            ok = False
            if ok:
                return node
        except Exception:
            continue
    return None


def subtrees(node):
    yield node
    for k in node.kids:
        yield from subtrees(k)


def gen_union_node(rng, params, prows):
    """top-level union of two primitives (or moved primitives) of one space that overlap"""
    for _ in range(60):
        g = Gen(rng, params=params)
        var = rng.choice(["x", "x", "y"])
        a, b = g.prim(var), g.prim(var)
        if rng.random() < 0.4:
            b = Node("translate", var, [g.vec([dy(rng, -1, 1) for _ in range(DIM[var])])], [b])
        node = Node("union", None, [], [a, b])
        envs = [fenv(r) for r in prows] or [{}]
        good = True
        for e in envs:
            A, B = shp(a, e), shp(b, e)
            ov = A.intersection(B).area
            if ov < 0.15 * min(A.area, B.area) or ov > 0.9 * min(A.area, B.area):
                good = False
        if good:
            return node
    return None


ROTS = [(Fr(3, 5), Fr(4, 5)), (Fr(0), Fr(1)), (Fr(5, 13), Fr(12, 13)), (Fr(-3, 5), Fr(4, 5)), (Fr(-4, 5), Fr(-3, 5))]


def gen_prod_node(rng, params, flavour, min_ratio=Fr(3, 2), wrap=None):
    """first factor(x or y) x interval(s).  flavour: "const" (independent factors), "moved" (the first factor's position
    depends on s, its measure does not), "voldep" (the fibre measure varies by a factor >= min_ratio over the interval, so the
    volume-weighted acceptance matters).  wrap: None (bare primitive), "translate-const" (constant shift of a shape that
    depends on s), "translate-dep" (shift depends on s), "rotate", "annulus" (disc minus a contained concentric disc),
    "union" (two far-apart shapes, flagged disjoint).  s ranges inside [0, 1] like every parameter, so that the generator's
    positive radii / widths stay positive on the whole interval"""
    for _ in range(600):
        lb = dy(rng, 0, 0.5)
        b = Node("interval", "s", [PF([geomgen.c(lb)]), PF([geomgen.c(lb + dy(rng, 0.25, 0.5))])])
        dependent = flavour != "const"
        ga = Gen(rng, params=params + (["s"] if dependent else []), p_dep=0.9 if dependent else 0.3)
        gc = Gen(rng, params=params, p_dep=0.3)          # terms that do not see s
        kinds = ["circle", "interval"] if flavour == "voldep" else ["circle", "circle", "interval", "par", "tri"]
        if wrap in ("rotate", "annulus"):
            kinds = ["circle"] if (flavour == "voldep" or wrap == "annulus") else ["circle", "par", "tri"]
        kind = rng.choice(kinds)

        def prim():
            for _t in range(50):
                p = ga.prim1("y") if kind == "interval" else ga.prim2("x")
                if p.kind == kind:
                    return p
            return None
        a = prim()
        if a is None or (dependent and "s" not in a.free_vars()):
            continue
        var = a.var
        if wrap == "translate-const":
            a = Node("translate", var, [gc.vec([dy(rng, -2, 2) for _ in range(DIM[var])])], [a])
        elif wrap == "translate-dep":
            a = Node("translate", var, [Gen(rng, params=["s"], p_dep=1.0).vec([dy(rng, -2, 2) for _ in range(DIM[var])])], [a])
        elif wrap == "rotate":
            co, si = rng.choice(ROTS)
            a = Node("rotate", var, [PF([geomgen.c(co), geomgen.c(-si), geomgen.c(si), geomgen.c(co)]),
                                     PF([geomgen.c(dy(rng, -1, 1)), geomgen.c(dy(rng, -1, 1))])], [a])
        elif wrap == "annulus":
            env0 = {p: [Fr(0)] for p in params}
            rmin = min(a.pfs[1].eval(dict(env0, s=[x]))[0] for x in (Fr(0), Fr(1)))
            hole = Node("circle", var, [a.pfs[0], PF([geomgen.c(rmin / 2)])])
            a = Node("cut", None, [], [a, hole], flags=dict(contained=True))
        elif wrap == "union":
            a2 = prim()
            if a2 is None:
                continue
            far = [dy(rng, 8, 10) * rng.choice([1, -1]) for _ in range(DIM[var])]
            a = Node("union", None, [], [a, Node("translate", var, [PF([geomgen.c(x) for x in far])], [a2])], flags=dict(disjoint=True))
        if dependent:
            try:
                env = {p: [Fr(1, 2)] for p in params}
                coef = fibre_total_poly(a, env, "s")
            except ValueError:
                continue
            (l,), (u,) = b.pfs[0].eval(env), b.pfs[1].eval(env)
            v0, v1 = poly_int(coef, l, l + (u - l) / 4), poly_int(coef, u - (u - l) / 4, u)
            if min(v0, v1) <= 0:
                continue
            varies = max(v0, v1) >= min_ratio * min(v0, v1)
            if (flavour == "voldep") != varies:
                continue
        return Node("prod", None, [], [a, b])
    return None


def box_node(rng, params):
    """axis-parallel boxes: interval, rectangle, product of two intervals, translated rectangle"""
    g = Gen(rng, params=params)
    kind = rng.choice(["interval", "rect", "rect", "prodbox", "trect"])
    if kind == "interval":
        return g.prim1("y")
    if kind == "prodbox":
        return Node("prod", None, [], [g.prim1("y"), Gen(rng, params=params).prim1("s")])
    o = [dy(rng, -2, 2), dy(rng, -2, 2)]
    w, h = dy(rng, 0.5, 3), dy(rng, 0.5, 3)
    sx, sy = rng.choice([1, -1]), rng.choice([1, -1])
    shift = [g.aff(0), g.aff(0)]

    def corner(pt):
        return PF([("+", geomgen.c(pt[0]), shift[0]) if shift[0] != geomgen.c(0) else geomgen.c(pt[0]),
                   ("+", geomgen.c(pt[1]), shift[1]) if shift[1] != geomgen.c(0) else geomgen.c(pt[1])])
    c1, c2 = [o[0] + sx * w, o[1]], [o[0], o[1] + sy * h]
    if rng.random() < 0.5:
        c1, c2 = c2, c1
    node = Node("par", "x", [corner(o), corner(c1), corner(c2)])
    if kind == "trect":
        node = Node("translate", "x", [g.vec([dy(rng, -2, 2), dy(rng, -2, 2)])], [node])
    return node


def box_bounds(node, env):
    """exact (Fraction) bounds per axis of a box_node at a parameter row, in the order of the node's coordinates"""
    k = node.kind
    if k == "interval":
        return [(node.pfs[0].eval(env)[0], node.pfs[1].eval(env)[0])]
    if k == "par":
        o, c1, c2 = [p.eval(env) for p in node.pfs]
        cs = [o, c1, c2, [c1[0] + c2[0] - o[0], c1[1] + c2[1] - o[1]]]
        return [(min(c[i] for c in cs), max(c[i] for c in cs)) for i in range(2)]
    if k == "translate":
        t = node.pfs[0].eval(env)
        return [(lo + s, hi + s) for (lo, hi), s in zip(box_bounds(node.kids[0], env), t)]
    if k == "prod":
        return box_bounds(node.kids[0], env) + box_bounds(node.kids[1], env)
    raise ValueError(k)


def make_cases(ctx):
    rng = ctx.rng
    cases = []

    union_count = [0]

    def add(kind, node, params, prows, **kw):
        sch = rng.choice(NAME_SCHEMES) if rng.random() < 0.6 else {}
        extra = {}
        if kind == "union":
            union_count[0] += 1
        if kind == "union" and union_count[0] % 2 == 0:
            extra["scale"] = "1/1000000"         # FIXED share: every second union case has lengths of order 1e-6 (measures below 1e-10)
        elif kind in ("tape", "law", "csg", "union", "prod", "evalhist", "gridx") and "numstyle" not in kw and rng.random() < (0.5 if kind == "union" else 0.3):
            extra["scale"] = str(rng.choice([Fr(1, 10 ** 6), Fr(1, 10 ** 6), Fr(1, 1000), Fr(1000), Fr(10 ** 6)]))      # length scales 1e-6 ... 1e6
        cases.append(dict(id=len(cases), kind=kind, dom=node.describe(), params=params, prows=prows_json(prows),
                          seed=rng.randint(0, 2 ** 31 - 1), names=sch, param_order_reversed=rng.random() < 0.3, **extra, **kw))

    def int_prim(kinds=("interval", "par", "tri", "circle", "sphere")):
        """a primitive all of whose shape parameters are integers, and a number style for them"""
        k_ = rng.choice(list(kinds))
        ci = lambda lo, hi: geomgen.c(rng.randint(lo, hi))
        if k_ == "interval":
            lo_ = rng.randint(-3, 2)
            n_ = Node("interval", "y", [PF([geomgen.c(lo_)]), PF([geomgen.c(lo_ + rng.randint(1, 4))])])
        elif k_ in ("par", "tri"):
            ox, oy, w_, h_ = rng.randint(-3, 2), rng.randint(-3, 2), rng.randint(1, 4) * rng.choice([1, -1]), rng.randint(1, 4) * rng.choice([1, -1])
            sh_ = rng.choice([0, 0, 1])
            n_ = Node(k_, "x", [PF([geomgen.c(ox), geomgen.c(oy)]), PF([geomgen.c(ox + w_), geomgen.c(oy)]), PF([geomgen.c(ox + sh_), geomgen.c(oy + h_)])])
        elif k_ == "circle":
            n_ = Node("circle", "x", [PF([ci(-3, 3), ci(-3, 3)]), PF([ci(1, 3)])])
        else:
            n_ = Node("sphere", "z", [PF([ci(-2, 2), ci(-2, 2), ci(-2, 2)]), PF([ci(1, 3)])])
        st_ = rng.choice(["int", "t0d", "np"] + (["int64"] if k_ in ("interval", "circle", "sphere") else []))
        return n_, st_

    def pr():
        params = rng.choice([[], ["t"], ["t"], ["t", "D"]])
        k = rng.choice([1, 2, 3]) if params else 0
        return params, gen_prows(rng, params, k)

    NBIG = ctx.scale(100000, 200000)
    # 1. tape correspondence (small n, all primitives and boundaries, parameter rows)
    for _ in range(ctx.scale(300, 3000)):
        params, prows = pr()
        g = Gen(rng, params=params)
        var = rng.choice(["x", "x", "x", "y", "z"])
        node = g.prim(var)
        if rng.random() < 0.5:
            node = Node(rng.choice(["bdry", "bdry", "bdry", "bdryL", "bdryR"]) if var == "y" else "bdry", None, [], [node])
        add("tape", node, params, prows, n=rng.choice([1, 2, 3, 7, 40]))
    # 2. laws of primitives / boundaries / moved ones: natural partitions
    for _ in range(ctx.scale(60, 600)):
        params, prows = pr()
        node = gen_law_node(rng, params)
        add("law", node, params, prows[:2] if ctx.quick else prows, N=NBIG,
            api=rng.choice(["dom.n", "dom.n", "smp.n", "smp.n2", "dom.d"]) if len(prows) <= 1 else rng.choice(["dom.n", "smp.n", "smp.n2"]))
    # 3. CSG expressions: Shapely cell measures
    for _ in range(ctx.scale(24, 240)):
        params, prows = pr()
        prows = prows[:2]
        node = gen_csg_node(rng, params, prows, rng.choice([2, 2, 3]) if ctx.quick else rng.choice([2, 3, 3, 4]))
        if node is not None:
            flt = None
            if rng.random() < 0.25:
                e0 = fenv(prows[0]) if prows else {}
                bx = shp(node, e0).bounds
                col = rng.choice([0, 1]) if DIM[node.vars()[0]] == 2 else 0
                lo_, hi_ = (bx[0], bx[2]) if col == 0 else (bx[1], bx[3])
                flt = [col, str(Fr(round(16 * (lo_ + (hi_ - lo_) * rng.choice([0.4, 0.5, 0.6]))), 16)), rng.choice([0, 1])]
                # both the kept and the removed part must be substantial at every parameter row (else the filtered sampler gives up)
                for r_ in (prows or [{}]):
                    g_ = shp(node, fenv(r_))
                    kept_geom = clip_geom(g_, flt)
                    if not region_ok(kept_geom) or not (0.2 * g_.area <= kept_geom.area <= 0.8 * g_.area):
                        flt = None
                        break
            add("csg", node, params, prows, N=ctx.scale(60000, 120000), n_small=rng.choice([2, 3, 7, 40]), filter=flt,
                api="smp.f" if flt else (rng.choice(["dom.n", "smp.n", "smp.n2", "dom.d"]) if len(prows) <= 1 else rng.choice(["dom.n", "smp.n", "smp.n2"])))
    # 4. overlapping unions: as-coded mixture law, choice correspondence (known finding: not uniform)
    for _ in range(ctx.scale(8, 80)):
        params, prows = pr()
        prows = prows[:2]
        node = gen_union_node(rng, params, prows)
        if node is not None:
            add("union", node, params, prows, N=NBIG, n_small=rng.choice([2, 7, 40]))
    # 4b. disjoint unions (flagged or not): must be uniform
    for _ in range(ctx.scale(8, 80)):
        params, prows = pr()
        prows = prows[:2]
        node = None
        for _try in range(40):
            g = Gen(rng, params=params)
            var = rng.choice(["x", "x", "y"])
            a, b = g.prim(var), g.prim(var)
            far = [dy(rng, 4, 6) * rng.choice([1, -1]) for _ in range(DIM[var])]
            b = Node("translate", var, [PF([geomgen.c(x) for x in far])], [b])
            cand = Node("union", None, [], [a, b], flags=dict(disjoint=True) if rng.random() < 0.5 else None)
            if unions_ok(cand, [fenv(r) for r in prows] or [{}]):
                node = cand
                break
        if node is not None:
            add("union", node, params, prows, N=NBIG, n_small=rng.choice([2, 7, 40]))
    # 4c. disjoint unions whose first operand is a cut / intersection with its exact measure set by set_volume: must be uniform
    for _ in range(ctx.scale(3, 30)):
        for _try in range(60):
            g0 = Gen(rng, params=[])
            p_, q_, r_ = g0.prim2("x"), g0.prim2("x"), g0.prim2("x")
            op = rng.choice(["cut", "inter"])
            P_, Q_ = shp(p_, {}), shp(q_, {})
            ov = P_.intersection(Q_).area
            if not (0.2 * P_.area <= ov <= 0.8 * P_.area):
                continue
            far = [dy(rng, 8, 10) * rng.choice([1, -1]) for _ in range(2)]
            cand = Node("union", None, [], [Node(op, None, [], [p_, q_]), Node("translate", "x", [PF([geomgen.c(x) for x in far])], [r_])],
                        flags=dict(disjoint=True) if rng.random() < 0.5 else None)
            add("union", cand, [], [], N=NBIG, n_small=rng.choice([2, 7, 40]), setvol_operands=True)
            break
    # 5. products: independent and dependent (volume-weighted acceptance); first factors: bare primitives and
    #    translated / rotated / Boolean combinations of shapes that depend on the second factor's variable
    WRAPS = [None, "translate-const", "rotate", "annulus", "union", "translate-dep"]
    for i in range(ctx.scale(24, 240)):
        params = rng.choice([[], [], ["t"]])
        prows = gen_prows(rng, params, 1 if params else 0)
        flavour = ["voldep", "voldep", "moved", "const"][i % 4]
        wrap = WRAPS[(i // 4 + i) % len(WRAPS)]
        node = gen_prod_node(rng, params, flavour, wrap=wrap)
        if node is not None:
            hist = ["solid", "solid"]
            if wrap is None and node.kids[0].kind == "circle":
                hist = rng.choice([["solid", "bdry"], ["solid", "solid", "bdry"], ["bdry", "solid"]])
            add("prod", node, params, prows, N=ctx.scale(50000, 120000), dependent=flavour != "const", flavour=flavour,
                wrap=wrap or "bare", n_small=rng.choice([5, 17, 40]), history=hist)
    # 5b. dependent products sampled one point per call (known finding: acceptance step skipped)
    for _ in range(ctx.scale(3, 30)):
        # fibre volume varies by a factor >= 4 over the interval: disc of radius 1/4 + a s or interval of that width
        a_ = rng.choice([Fr(3, 4), Fr(1)])
        grow = ("+", geomgen.c(Fr(1, 4)), ("*", geomgen.c(a_), geomgen.v("s")))
        b = Node("interval", "s", [PF([geomgen.c(0)]), PF([geomgen.c(rng.choice([Fr(1, 2), Fr(3, 4), Fr(1)]))])])
        if rng.random() < 0.5:
            a = Node("circle", "x", [PF([geomgen.c(dy(rng, -1, 1)), geomgen.c(dy(rng, -1, 1))]), PF([grow])])
        else:
            lo = geomgen.c(dy(rng, -1, 1))
            a = Node("interval", "y", [PF([lo]), PF([("+", lo, grow)])])
        add("prod1", Node("prod", None, [], [a, b]), [], [], calls=ctx.scale(1500, 6000))
    # 6. LHS designs in boxes
    for _ in range(ctx.scale(80, 800)):
        params, prows = pr()
        node = box_node(rng, params)
        setbox = False
        if rng.random() < 0.3:      # product of two constant intervals whose box the user sets with set_bounding_box
            g0 = Gen(rng, params=[])
            node = Node("prod", None, [], [g0.prim1("y"), g0.prim1("s")])
            setbox = True
        add("lhs", node, params, prows, n=rng.choice([1, 2, 3, 5, 8, 16, 50, 64]), calls=rng.choice([1, 2, 3]), setbox=setbox)
    # 7. Gaussian sampler on boxes
    for _ in range(ctx.scale(12, 120)):
        params, prows = pr()
        prows = prows[:1]        # mean and deviation are chosen relative to the box of the (single) parameter row
        node = box_node(rng, params)
        if node.kind == "prod":
            continue
        add("gauss", node, params, prows, N=ctx.scale(40000, 100000), n_small=rng.choice([3, 7, 40]),
            std_factor=float(rng.choice([Fr(3, 8), Fr(3, 4), Fr(1)])), off=[float(dy(rng, -0.75, 0.75)) for _ in range(2)])
    # 7b. Gaussian sampler with the mean outside the domain / far in the tail (acceptance 0.5 % .. 4 %), 1-D and 2-D boxes
    for _ in range(ctx.scale(6, 60)):
        params, prows = pr()
        prows = prows[:1]
        for _try in range(50):
            node = box_node(rng, params)
            if node.kind == "prod":
                continue
            d_, f_ = rng.choice([(Fr(3, 5), Fr(3, 10)), (Fr(4, 5), Fr(2, 5)), (Fr(1, 2), Fr(1, 4)), (Fr(9, 20), Fr(1, 4))])
            side = rng.choice([-1, 1])
            b0 = box_bounds(node, prows[0] if prows else {})
            sig = float(f_) * float(b0[0][1] - b0[0][0])
            p = 1.0
            for ax, (lo, hi) in enumerate(b0):
                w = float(hi - lo)
                mu = (float(lo) - float(d_) * w if side < 0 else float(hi) + float(d_) * w) if ax == 0 else float(lo + hi) / 2
                p *= norm_cdf((float(hi) - mu) / sig) - norm_cdf((float(lo) - mu) / sig)
            if 0.005 <= p <= 0.04:
                add("gauss", node, params, prows, N=ctx.scale(20000, 40000), n_small=rng.choice([3, 7, 40]), std_axis0=float(f_),
                    off=[side * (1 + 2 * float(d_)), 0.0], acceptance=round(p, 4))
                break
    # 7c. Gaussian sampler on a disc / ball with the mean in the centre (exact radial law), with parameter rows that do not matter
    for _ in range(ctx.scale(4, 40)):
        params, prows = pr()
        g0 = Gen(rng, params=[])
        node = g0.prim3("z") if rng.random() < 0.5 else Node("circle", "x", [g0.vec([dy(rng, -2, 2), dy(rng, -2, 2)]), PF([geomgen.c(dy(rng, 0.25, 2))])])
        add("gauss", node, params, prows[:2], N=ctx.scale(30000, 80000), n_small=rng.choice([3, 7, 40]),
            std_radius=float(rng.choice([Fr(1, 2), Fr(1), Fr(2)])), off=[0.0, 0.0, 0.0])
    # 8. interval grids
    for _ in range(ctx.scale(60, 600)):
        params, prows = pr()
        g = Gen(rng, params=params)
        add("grid", g.prim1("y"), params, prows[:1], n=rng.choice([1, 2, 3, 4, 7, 12, 40, 100, 257]), m=rng.choice([2, 3, 4, 5, 8, 16]))
    # 8b. evaluated domains D(t = v): several copies from one parent, earlier copies sampled after later ones were made
    for i in range(ctx.scale(16, 160)):
        node = two_var_shape(rng)
        k = 1       # the generator's lambdas stack columns of the evaluated value (1 row) and of D: one row of D per evaluated copy
        rowsD = [{"D": [Fr(rng.randint(0, 16), 16)]} for _ in range(k)]
        tv = rng.sample([Fr(j, 8) for j in range(0, 9)], rng.choice([2, 3]))
        order = rng.choice([[0, 1, 0], [0], [1, 0, "parent"], [0, "parent", 1], list(range(len(tv))) + [0]])
        order = [w for w in order if w == "parent" or w < len(tv)]
        add("evalhist", node, ["D"], rowsD, tvals=[str(v) for v in tv], order=order, N=ctx.scale(30000, 80000), n_small=rng.choice([2, 5]),
            api=rng.choice(["dom.n", "smp.n"]))
    # 8c. boundaries of Boolean combinations: feature crossing (operation x overlap/disjoint/contained x set_volume x n/density x translation)
    for i in range(ctx.scale(12, 120)):
        for _try in range(60):
            g0 = Gen(rng, params=[])
            a_, b_ = g0.prim2("x"), g0.prim2("x")
            op = rng.choice(["union", "cut", "inter"])
            A_, B_ = shp(a_, {}), shp(b_, {})
            ov = A_.intersection(B_).area
            if not (0.15 * min(A_.area, B_.area) <= ov <= 0.85 * min(A_.area, B_.area)):
                continue
            res_ = shp(Node(op, None, [], [a_, b_]), {})
            if res_.area < 0.1 * A_.area or res_.geom_type != "Polygon":
                continue
            node = Node(op, None, [], [a_, b_])
            if rng.random() < 0.3:
                node = Node("translate", "x", [PF([geomgen.c(dy(rng, -2, 2)), geomgen.c(dy(rng, -2, 2))])], [node])
            api = rng.choice(["dom.n", "smp.n", "dom.d"])
            add("boolbdry", node, [], [], N=ctx.scale(60000, 120000), api=api, set_volume=(api != "dom.d"))
            if i < ctx.scale(2, 10):      # the same boundary, a few points per call (known finding)
                add("boolbdry", node, [], [], N=0, api="dom.n", set_volume=True, small_n=rng.choice([2, 10]), calls=ctx.scale(800, 4000))
            break
    # 8d'. FIXED share: integer-dtype / python-int bounding boxes under the LHS law (n >= 3 not dividing the width): intervals with
    #      int64 / python-int bounds, products of intervals with set_bounding_box(python ints), bounds that are functions of INT64 parameters
    for i in range(ctx.scale(8, 80)):
        n_ = rng.choice([3, 5, 7, 11, 16, 50, 64])
        flavour = ["int64-interval", "set_bounding_box-ints", "int64-parameter-bounds", "int64-interval"][i % 4]
        lo_, w_ = rng.randint(-3, 2), rng.randint(1, 4)
        if flavour == "int64-interval":
            nd = Node("interval", "y", [PF([geomgen.c(lo_)]), PF([geomgen.c(lo_ + w_)])])
            add("lhs", nd, [], [], n=n_, calls=rng.choice([1, 2]), setbox=False, numstyle="int64", int_box=flavour)
        elif flavour == "set_bounding_box-ints":
            lo2, w2 = rng.randint(-3, 2), rng.randint(1, 4)
            nd = Node("prod", None, [], [Node("interval", "y", [PF([geomgen.c(lo_)]), PF([geomgen.c(lo_ + w_)])]),
                                         Node("interval", "s", [PF([geomgen.c(lo2)]), PF([geomgen.c(lo2 + w2)])])])
            add("lhs", nd, [], [], n=n_, calls=rng.choice([1, 2]), setbox=True, numstyle="int", int_box=flavour)
        else:
            nd = Node("interval", "y", [PF([geomgen.v("t")]), PF([("+", geomgen.v("t"), geomgen.c(w_))])])
            rows_ = [{"t": [Fr(rng.randint(-3, 3))]} for _ in range(rng.choice([1, 2]))]
            add("lhs", nd, ["t"], rows_, n=n_, calls=rng.choice([1, 2]), setbox=False, int_params=True, int_box=flavour)
    # 8d. integer-valued shape parameters in several number styles (python ints, int64 / 0-d tensors, numpy) for every law
    for i in range(ctx.scale(16, 160)):
        pick = ["law", "tape", "lhs", "gauss", "gridx", "lhs", "law", "lhs"][i % 8]
        if pick == "law":
            n_, st_ = int_prim()
            if rng.random() < 0.3 and st_ != "int64":
                n_ = Node("bdry", None, [], [n_])
            add("law", n_, [], [], N=NBIG, api=rng.choice(["dom.n", "smp.n"]), numstyle=st_)
        elif pick == "tape":
            n_, st_ = int_prim()
            add("tape", n_, [], [], n=rng.choice([1, 3, 7]), numstyle=st_)
        elif pick == "gridx":
            n_, st_ = int_prim(("par", "tri", "circle", "sphere"))
            add("gridx", n_, [], [], n=rng.choice([1, 3, 10, 100, 400]), api=rng.choice(["dom.grid", "smp.grid"]), numstyle=st_)
        elif pick == "gauss":
            n_, st_ = int_prim(("interval",))
            add("gauss", n_, [], [], N=ctx.scale(40000, 100000), n_small=rng.choice([3, 7]), std_factor=float(rng.choice([Fr(3, 8), Fr(3, 4)])),
                off=[float(dy(rng, -0.75, 0.75)) for _ in range(2)], numstyle=st_)
        else:
            if rng.random() < 0.5:
                n_, st_ = int_prim(("interval",))
                add("lhs", n_, [], [], n=rng.choice([2, 3, 8, 16, 64]), calls=rng.choice([1, 2]), setbox=False, numstyle=st_)
            else:
                (a_, _), (b_, _) = int_prim(("interval",)), int_prim(("interval",))
                b_ = Node("interval", "s", b_.pfs)
                add("lhs", Node("prod", None, [], [a_, b_]), [], [], n=rng.choice([2, 3, 8, 16, 64]), calls=rng.choice([1, 2]), setbox=True,
                    numstyle=rng.choice(["int", "t0d"]))
    # 9. grids of every primitive, primitive boundary and the polygon: extreme aspect ratios / sizes, n from 1 to 1000
    for i in range(ctx.scale(70, 700)):
        n = rng.choice([1, 2, 3, 5, 10, 30, 100, 100, 400, 1000])
        api = rng.choice(["dom.grid", "dom.grid", "smp.grid"])
        pick = rng.choice(["extreme", "extreme", "extreme", "prim", "prim", "bdry", "bdry", "poly"])
        if pick == "poly":
            pb = rng.random() < 0.35
            cases.append(dict(id=len(cases), kind="gridx", dom=None, poly=rng.choice(sorted(POLYGONS)), polybdry=pb, params=[], prows=[], n=n,
                              api="dom.grid" if pb else api, seed=rng.randint(0, 2 ** 31 - 1), names=rng.choice(NAME_SCHEMES), param_order_reversed=False))
            continue
        if pick == "extreme":
            node, params, prows = extreme_shape(rng), [], []
        else:
            params = rng.choice([[], [], ["t"]])
            prows = gen_prows(rng, params, 1 if params else 0)
            node = Gen(rng, params=params).prim(rng.choice(["x", "x", "x", "z", "y"]))
            if pick == "bdry" or node.kind == "interval":
                node = Node("bdry", None, [], [node])
        if pick == "extreme" and rng.random() < 0.25:
            node = Node("bdry", None, [], [node])
        if node.kind in ("par", "circle") and rng.random() < 0.3:
            api = "dom.grid.d"
        add("gridx", node, params, prows, n=n, api=api)
    # 10. ShapelyPolygon: random uniform law
    for i in range(ctx.scale(6, 60)):
        k_ = [0, 2, 3][i % 3]        # polygons cannot depend on parameters, but are sampled for several parameter rows: every block of rows must be uniform
        cases.append(dict(id=len(cases), kind="poly", dom=None, poly=rng.choice(sorted(POLYGONS)), polybdry=(i % 2 == 1), params=["t"] if k_ else [],
                          prows=prows_json(gen_prows(rng, ["t"], k_)), api=rng.choice(["dom.n", "smp.n"]),
                          N=ctx.scale(5000, 25000), seed=rng.randint(0, 2 ** 31 - 1), names=rng.choice(NAME_SCHEMES), param_order_reversed=False))
    for d_ in (1, 2, 3):
        cases.append(dict(id=len(cases), kind="poly", dom=None, point=[str(dy(rng, -2, 2)) for _ in range(d_)], params=[], prows=[], seed=0,
                          names=rng.choice(NAME_SCHEMES), param_order_reversed=False))
    # 11. random-uniform law on extreme aspect ratios / sizes
    for i in range(ctx.scale(8, 80)):
        node = extreme_shape(rng)
        if rng.random() < 0.3:
            node = Node("bdry", None, [], [node])
        add("law", node, [], [], N=NBIG, api=rng.choice(["dom.n", "smp.n", "dom.d"]))
    return cases


# =============================================================================================
# running the library

def coords_of(node, res, n_rows):
    """columns of the node's own coordinates as float64 array (N, dim), in the node's variable order"""
    cols = []
    for v in node.vars():
        col = res.coordinates[nm(v)].detach().double().numpy().reshape(n_rows, -1)
        cols.append(col / lam() if v in SPATIAL else col)
    return np.concatenate(cols, axis=1)


def sample_big(tp, dom, node, case, api, N):
    """returns list over parameter rows of arrays (N_i, dim)"""
    import torch
    prows = prows_of(case)
    names = case["params"]
    k = len(prows)
    S = tp.samplers
    out = []
    if api == "dom.d":
        # density sampling: one parameter row at most
        params = mk_params(tp, names, prows)
        vol = float(dom.volume(params).reshape(-1)[0])
        res = common.call_with_timeout(TIMEOUT, lambda: dom.sample_random_uniform(d=N / max(vol, 1e-9), params=params))
        return [coords_of(node, res, len(res))]
    params = mk_params(tp, names, prows)
    _fp = params.as_tensor.clone() if len(params) else None          # the user's parameter rows, fingerprinted by value
    try:
        return _sample_big_inner(tp, dom, node, case, api, N, params, k, S, out)
    finally:
        if _fp is not None and not torch.equal(_fp, params.as_tensor):
            raise RowCount(f"the sampling call changed the parameter rows handed to it: {_fp.tolist()} became {params.as_tensor.tolist()}")


def _sample_big_inner(tp, dom, node, case, api, N, params, k, S, out):
    import torch
    if api == "smp.f":
        col, thr, sense = case["filter"]
        var = nm(node.vars()[0])
        ns = {}
        exec(f"def _flt({var}):\n    return ({var}[:, {col}:{col + 1}] {'>=' if sense else '<='} {float(Fr(thr) * _CTX['scale'])!r})\n", ns)
        res = common.call_with_timeout(TIMEOUT, lambda: S.RandomUniformSampler(dom, n_points=N, filter_fn=ns["_flt"]).sample_points(params))
        X = coords_of(node, res, len(res))
        kk = max(k, 1)
        if len(X) != N * kk:
            raise RowCount(f"filtered sampler: {len(X)} rows returned for n={N} and {k} parameter rows")
        return [X[i * N:(i + 1) * N] for i in range(kk)]
    if api == "smp.n2":
        # one sampler object called twice; the first result is overwritten by the caller; both samples are tested
        smp = S.RandomUniformSampler(dom, n_points=N)
        kk = max(k, 1)
        for call in range(2):
            res = common.call_with_timeout(TIMEOUT, lambda: smp.sample_points(params))
            X = coords_of(node, res, len(res))
            res.as_tensor.add_(1000.0)
            if len(X) != N * kk:
                raise RowCount(f"call {call + 1}: {len(X)} rows returned for n={N} and {k} parameter rows")
            out += [X[i * N:(i + 1) * N] for i in range(kk)]
        return out
    if api == "smp.n":
        res = common.call_with_timeout(TIMEOUT, lambda: S.RandomUniformSampler(dom, n_points=N).sample_points(params))
    else:
        res = common.call_with_timeout(TIMEOUT, lambda: dom.sample_random_uniform(n=N, params=params))
    X = coords_of(node, res, len(res))
    kk = max(k, 1)
    if len(X) != N * kk:
        raise RowCount(f"{len(X)} rows returned for n={N} and {k} parameter rows")
    for i in range(kk):
        out.append(X[i * N:(i + 1) * N])
    return out


class RowCount(Exception):
    pass


def desc(case):
    if not case.get("dom"):
        return ("Point " + str(case["point"])) if case.get("point") else "ShapelyPolygon " + str(POLYGONS.get(case.get("poly")))
    node = geomgen.from_json(case["dom"])
    return node.tokens()


def inp_of(case):
    case = case.get("_orig") or case          # judged views of a case (other parameter rows) report the case they belong to
    return dict({k: v for k, v in case.items() if not k.startswith("_")}, expression=desc(case))


def fail_law(rep, case, what, row, verdict, finding=None, extra=None):
    d = dict(parameter_row=row, chi2=verdict, partition=extra)
    rep.fail(what, inp_of(case), detail=d, finding=finding)


def row_env(case, i):
    prows = prows_of(case)
    return prows[i % len(prows)] if prows else {}        # a sampler called several times yields several samples per row


# ---------------------------------------------------------------------------------------------
# kinds

def run_tape(tp, case, lines):
    import torch
    node = geomgen.from_json(case["dom"])
    prows = prows_of(case)
    params = mk_params(tp, case["params"], prows)
    n = case["n"]
    dom = build_tp(node, tp)
    torch.manual_seed(case["seed"])
    with Tape() as tape:
        res = common.call_with_timeout(TIMEOUT, lambda: dom.sample_random_uniform(n=n, params=params))
    kk = max(len(prows), 1)
    X = coords_of(node, res, len(res))
    out = dict(X=X, lines=[], reqs=[], draws=[])
    if len(X) != n * kk:
        out["error"] = f"{len(X)} rows returned for n={n} and {len(prows)} parameter rows"
        return out
    draws = tape.of("rand")
    dt = node.tokens()
    for i in range(kk):
        for j in range(n):
            r = []
            for T in draws:
                if tuple(T.shape[:2]) != (kk, n):
                    out["shape"] = [tuple(T.shape) for T in draws]
                    return out
                r += [float(x) for x in T[i, j].reshape(-1).tolist()]
            env = prows[i] if prows else {}
            out["reqs"].append(f"prim {dt} {env_tokens(env)} {common.lst(r, common.q)}")
            out["draws"].append((env, r))
    return out


def near_tie(node, line):
    """triangle mirror: |u + v - 1| tiny (the float32 sum decides differently from the exact sum)"""
    if node.kind == "tri":
        toks = line.split()
        u, v = Fr(toks[-2]), Fr(toks[-1])
        return abs(u + v - 1) < Fr(1, 10 ** 6)
    return False


def _tape_row_ok(impl, rl):
    if rl.startswith("err") or rl.startswith("bad-op"):
        return False
    model = [common.unfbits(t) for t in rl.split()]
    return len(model) == len(impl) and all(math.isfinite(a_) and abs(a_ - b_) <= CTOL * max(1.0, abs(b_)) for a_, b_ in zip(impl, model))


def judge_tape(rep, case, out, replies, retry):
    """first pass of the tape correspondence.  A case whose draws do not have one slot per output row (`pattern`) or whose
    points differ from the model parametrisation at the recorded draws (`values`) goes to `resolve_tape_retries`."""
    node = geomgen.from_json(case["dom"])
    if "error" in out:
        rep.fail("sample_random_uniform: " + out["error"], inp_of(case))
        return
    if "shape" in out:
        retry.append(dict(case=case, out=out, why="pattern"))
        return
    X = out["X"]
    for r, (line, rl) in enumerate(zip(out["reqs"], replies)):
        impl = [float(x) for x in X[r]]
        if not _tape_row_ok(impl, rl):
            if near_tie(node, line):
                rep.count("tape:near-tie(skipped)")
                continue
            retry.append(dict(case=case, out=out, why="values", row=r, model=rl))
            return
        rep.count("tape:rows-agree")
    rep.traces_validated += 1


def _rereadings(m):
    """the measure-preserving re-readings of a row of m uniform draws that the correspondence accepts: permutations of the
    draws combined with reflections u -> 1 - u (Props/C11.lean: law_of_reparam, reflect_uniform_mp, swap_uniform_mp)"""
    import itertools
    out = []
    for perm in itertools.permutations(range(m)):
        for mask in itertools.product((0, 1), repeat=m):
            if perm == tuple(range(m)) and not any(mask):
                continue
            out.append((perm, mask))
    return out


def resolve_tape_retries(tp, rep, retry):
    """second pass: (1) a value mismatch is re-read with permuted / reflected draws; (2) what still differs, and every case
    whose draws cannot be cut into rows, is `tape-unusable`: the distribution oracle is run at an intensified sample size for
    exactly that case.  A deviation is a failing input.  No deviation: a changed call pattern is accepted silently (the
    theorem-relevant content, the law, was searched); a different MAP of the same draws stays a reported disagreement."""
    lines, spans = [], []
    for job in retry:
        a0 = len(lines)
        job["sigmas"] = []
        if job["why"] == "values":
            dt = geomgen.from_json(job["case"]["dom"]).tokens()
            m = len(job["out"]["draws"][0][1]) if job["out"]["draws"] else 0
            if m <= 3:
                job["sigmas"] = _rereadings(m)
                for perm, mask in job["sigmas"]:
                    for env, r in job["out"]["draws"]:
                        rr = [(1 - Fr(r[p])) if mk else Fr(r[p]) for p, mk in zip(perm, mask)]
                        lines.append(f"prim {dt} {env_tokens(env)} {common.lst(rr, common.q)}")
        spans.append((a0, len(lines)))
    replies = common.run_driver("C11", lines) if lines else []
    for job, (a0, a1) in zip(retry, spans):
        case, out = job["case"], job["out"]
        node = geomgen.from_json(case["dom"])
        X = out["X"]
        nrow = len(out["draws"])
        found = None
        for si, sg in enumerate(job["sigmas"]):
            rs = replies[a0 + si * nrow:a0 + (si + 1) * nrow]
            if all(_tape_row_ok([float(x) for x in X[r]], rl) for r, rl in enumerate(rs)):
                found = sg
                break
        if found is not None:
            rep.count("tape:agrees-after-rereading-the-draws(perm=%s,reflect=%s)" % ("".join(map(str, found[0])), "".join(map(str, found[1]))))
            rep.count("tape:rows-agree", nrow)
            rep.traces_validated += 1
            continue
        rep.count("tape-unusable:" + job["why"])
        set_naming(case)
        big = dict(case, N=INTENSIFIED_N, api="dom.n")
        try:
            import torch
            torch.manual_seed(case["seed"] + 7)
            Xs = sample_big(tp, build_tp(node, tp), node, big, "dom.n", INTENSIFIED_N)
            bad = law_tests(rep, big, node, Xs, tag=f"(tape unusable: {job['why']}; intensified sample) ")
        except (common.CallTimeout, RowCount) as e:
            rep.fail(f"tape case, intensified sample: {e}", inp_of(case))
            continue
        if bad == 0 and job["why"] == "values":
            r = job["row"]
            rep.disagree("tape correspondence: identical draws must give identical points, also after permuting / reflecting the draws "
                         "(parametrisation " + node.kind + (":" + node.kids[0].kind if node.kids else "") + "); the distribution oracle at "
                         f"{INTENSIFIED_N} points per parameter row found no deviation from the law", dict(inp_of(case), request=out["reqs"][r], row=r),
                         [float(x) for x in X[r]], job["model"])
        elif bad == 0:
            rep.count("tape-unusable:law-confirmed-by-intensified-oracle")


def law_tests(rep, case, node, Xs, tag=""):
    """natural-partition chi-square test per parameter row; returns number of failing rows"""
    bad = 0
    for i, X in enumerate(Xs):
        env = fenv(row_env(case, i))
        idx, probs, labels = nat_partition(node, X, env)
        nout = int((idx < 0).sum())
        counts = np.bincount(idx[idx >= 0], minlength=len(probs)).tolist()
        rep.count("chi2-tests")
        if nout > 0:
            bad += 1
            j = int(np.where(idx < 0)[0][0])
            fail_law(rep, case, f"{tag}{nout} of {len(X)} sampled points lie outside the domain (a cell of measure zero), e.g. {X[j].tolist()}",
                     row_env_json(case, i), dict(outside=nout), extra=None)
            continue
        v = chi2_decide(counts, probs, labels)
        if not v["ok"]:
            bad += 1
            w = v["worst"]
            fail_law(rep, case, f"{tag}the sample is not uniform: cell '{w['cell']}' received {w['observed']} of {v['N']} points, its share of the measure "
                     f"gives {w['expected']} (chi-square {v['stat']} > {v['bound']}, df {v['df']})", row_env_json(case, i), v,
                     extra=dict(cells=labels, counts=counts, probabilities=probs))
    return bad


def row_env_json(case, i):
    return case["prows"][i % len(case["prows"])] if case["prows"] else {}


def run_law(tp, rep, case):
    import torch
    node = geomgen.from_json(case["dom"])
    dom = build_tp(node, tp)
    torch.manual_seed(case["seed"])
    Xs = sample_big(tp, dom, node, case, case["api"], case["N"])
    law_tests(rep, case, node, Xs)


class DegenerateCase(Exception):
    """a generated case whose region is empty / of negligible measure at one of its parameter rows: a generator miss, never a
    verdict about the library (counted and skipped)"""


def clip_geom(geom, flt):
    """the part of a region that a half-space filter keeps (RandomUniformSampler(filter_fn=half space))"""
    from shapely.geometry import box
    if not flt or geom.is_empty:
        return geom
    col, thr, sense = flt[0], float(Fr(flt[1])), flt[2]
    x0, y0, x1, y1 = geom.bounds
    half = (box(thr, y0 - 1, x1 + 1, y1 + 1) if sense else box(x0 - 1, y0 - 1, thr, y1 + 1)) if col == 0 else \
           (box(x0 - 1, thr, x1 + 1, y1 + 1) if sense else box(x0 - 1, y0 - 1, x1 + 1, thr))
    return geom.intersection(half)


def region_ok(geom):
    if geom.is_empty or not all(math.isfinite(b) for b in geom.bounds):
        return False
    x0, y0, x1, y1 = geom.bounds
    return x1 > x0 and y1 > y0 and geom.area > 1e-9


def csg_probs(node, env, dim, g=6, flt=None):
    geom = clip_geom(shp(node, env), flt)
    if not region_ok(geom):
        raise DegenerateCase(f"region empty or degenerate at the parameter row {env}")
    cells, bounds = grid_cells(geom, dim, g)
    areas = [geom.intersection(c).area for c in cells]
    tot = sum(areas)
    return geom, bounds, [a / tot for a in areas], tot


def csg_tests(rep, case, node, Xs, dim, tag=""):
    g = 6 if dim == 2 else 12
    bad = 0
    for i, X in enumerate(Xs):
        env = fenv(row_env(case, i))
        geom, bounds, probs, tot = csg_probs(node, env, dim, g, case.get("filter") if case.get("api") == "smp.f" else None)
        idx = grid_index(X, bounds, dim, g)
        counts = np.bincount(idx, minlength=len(probs)).tolist()
        labels = [f"grid cell {j} of the {g}{'x' + str(g) if dim == 2 else ''} partition of the bounding box {tuple(round(b, 4) for b in bounds)}" for j in range(len(probs))]
        rep.count("chi2-tests")
        v = chi2_decide(counts, probs, labels)
        if not v["ok"]:
            bad += 1
            w = v["worst"]
            fail_law(rep, case, f"{tag}the sample is not uniform: {w['cell']} received {w['observed']} of {v['N']} points, its share of the measure gives "
                     f"{w['expected']} (chi-square {v['stat']} > {v['bound']}, df {v['df']})", row_env_json(case, i), v,
                     extra=dict(counts=counts, probabilities=probs, measure=tot))
    return bad


def run_csg(tp, rep, case):
    import torch
    node = geomgen.from_json(case["dom"])
    dim = DIM[node.vars()[0]]
    dom = build_tp(node, tp)
    torch.manual_seed(case["seed"])
    Xs = sample_big(tp, dom, node, case, case["api"], case["N"])
    csg_tests(rep, case, node, Xs, dim)


def run_sel(tp, rep, case, lines, posts):
    """cut / intersection at the top of a csg case: the rejection loop returns the first n accepted proposals of the
    deciding round (driver `inside` = Model insideRow; Props: insideRow_first_n + rejection_uniform)"""
    import torch
    node = geomgen.from_json(case["dom"])
    if node.kind not in ("cut", "inter"):
        return
    prows = prows_of(case)
    params = mk_params(tp, case["params"], prows)
    kk = max(len(prows), 1)
    n = case["n_small"]
    Proxy = build_proxy_class(tp)
    log = []
    from torchphysics.problem.domains.domainoperations.cut import CutDomain
    from torchphysics.problem.domains.domainoperations.intersection import IntersectionDomain
    a, b = Proxy(build_tp(node.kids[0], tp), log, "A"), Proxy(build_tp(node.kids[1], tp), log, "B")
    dom = CutDomain(a, b) if node.kind == "cut" else IntersectionDomain(a, b)
    torch.manual_seed(case["seed"] + 2)
    res = common.call_with_timeout(TIMEOUT, lambda: dom.sample_random_uniform(n=n, params=params))
    out = res.as_tensor
    invert = node.kind == "cut"
    rounds, i = [], 0
    while i + 1 < len(log):
        x, y = log[i], log[i + 1]
        if x[0] == "A" and x[1] == "rand" and y[0] == "B" and y[1] == "contains" and len(y[3]) == len(x[3]):
            rounds.append(dict(n=x[2], pts=x[3], ok=[bool(v) != invert for v in y[3].tolist()]))
            i += 2
        else:
            break
    if i != len(log) or not rounds or len(out) != n * kk:
        rep.count("sel:not-applicable")
        return
    # Which accepted proposals may be returned?  The law theorems (rejection_uniform, joint_accepted_law) need: the output
    # rows are accepted proposals, none used twice, chosen by a rule that does not look at their values.  Two such rules are
    # modelled (insideRow: first n of the first round with >= n accepted; accLoop: first n of the accumulated stream); any
    # other selection of accepted proposals is accepted after an intensified distribution test of this very case.
    def split(rule):
        subs_, pos_ = [], 0
        for _ in range(kk):
            cnt, acc_ = 0, 0
            while pos_ + cnt < len(rounds):
                cnt += 1
                got_ = sum(rounds[pos_ + cnt - 1]["ok"])
                acc_ += got_
                if (got_ if rule == "restart" else acc_) >= n:
                    break
            subs_.append(rounds[pos_:pos_ + cnt]); pos_ += cnt
        return subs_ if pos_ == len(rounds) and len(subs_) == kk and all(subs_) else None
    cands = []
    for rule, op in (("restart", "inside"), ("accumulate", "acc")):
        sp = split(rule)
        if sp is not None:
            a0 = len(lines)
            for sub in sp:
                lines.append(f"{op} {n} {len(sub) + 2} " + common.lst(sub, lambda rd: common.lst(rd["ok"], common.q)))
            cands.append((rule, sp, len(lines) - a0))
    nrep = sum(c[2] for c in cands)

    def post(*replies):
        pos = 0
        for rule, sp, cnt in cands:
            rs = replies[pos:pos + cnt]; pos += cnt
            good = True
            for r, (sub, reply) in enumerate(zip(sp, rs)):
                if reply.startswith("err") or reply.startswith("bad-op"):
                    good = False
                    break
                idx = reply.split("|")[1]
                exp = [sub[int(t.split(":")[0])]["pts"][int(t.split(":")[1])] for t in idx.split()]
                exp = torch.stack(exp) if exp else torch.zeros((0, out.shape[1]))
                got = out[r * n:(r + 1) * n]
                if exp.shape != got.shape or not torch.equal(exp, got):
                    good = False
                    break
            if good:
                rep.count("sel:agrees:" + ("first-n-of-the-deciding-round" if rule == "restart" else "first-n-of-the-accumulated-stream"))
                rep.traces_validated += 1
                return
        # neither modelled rule: every output row must still be an accepted proposal, none used twice
        pool = {}
        for rd in rounds:
            for p_, ok_ in zip(rd["pts"], rd["ok"]):
                if ok_:
                    key = tuple(p_.tolist())
                    pool[key] = pool.get(key, 0) + 1
        for r in range(len(out)):
            key = tuple(out[r].tolist())
            if pool.get(key, 0) <= 0:
                rep.disagree("rejection loop: every returned row must be one of the accepted proposals of the call, none returned twice",
                             dict(inp_of(case), row=r), out[r].tolist(), "not among the (remaining) accepted proposals")
                return
            pool[key] -= 1
        rep.count("tape-unusable:selection-rule-not-modelled")
        set_naming(case)
        try:
            torch.manual_seed(case["seed"] + 11)
            big = dict(case, N=INTENSIFIED_N // 2, api="dom.n")
            dim_ = DIM[node.vars()[0]]
            Xs = sample_big(tp, build_tp(node, tp), node, big, "dom.n", big["N"])
            bad = csg_tests(rep, big, node, Xs, dim_, tag="(selection rule of the rejection loop not modelled; intensified sample) ")
        except (common.CallTimeout, RowCount) as e:
            rep.fail(f"csg case, intensified sample: {e}", inp_of(case))
            return
        if bad == 0:
            rep.count("tape-unusable:selection-law-confirmed-by-intensified-oracle")
    posts.append((post, nrep))


def run_union(tp, rep, case, lines, posts):
    """big sample: uniform law / as-coded mixture law; small sample: choice correspondence"""
    import torch
    node = geomgen.from_json(case["dom"])
    a, b = node.kids
    dim = DIM[node.vars()[0]]
    prows = prows_of(case)
    params = mk_params(tp, case["params"], prows)
    kk = max(len(prows), 1)
    # ---- choice correspondence on a small call with recording proxies
    Proxy = build_proxy_class(tp)
    log = []
    from torchphysics.problem.domains.domainoperations.union import UnionDomain
    def operand(x):
        # an operand whose volume() is only an estimate (cut / intersection) gets its exact measure with set_volume, as the
        # library's warning recommends (feature crossing: union mixture x user-set operand volume)
        o = build_tp(x, tp)
        if case.get("setvol_operands") and x.kind in ("cut", "inter"):
            o.set_volume(shp(x, {}).area * lam() ** dim)      # the measure of the operand as the library sees it (scaled lengths)
        return o
    pdom = UnionDomain(Proxy(operand(a), log, "A"), Proxy(operand(b), log, "B"), disjoint=bool(node.flags.get("disjoint")))
    n = case["n_small"]
    torch.manual_seed(case["seed"])
    with Tape() as tape:
        res = common.call_with_timeout(TIMEOUT, lambda: pdom.sample_random_uniform(n=n, params=params))
    out = res.as_tensor
    pa = [e[3] for e in log if e[0] == "A" and e[1] == "rand"]
    pb = [e[3] for e in log if e[0] == "B" and e[1] == "rand"]
    ina = [e[3] for e in log if e[0] == "A" and e[1] == "contains"]
    va = [e[3] for e in log if e[0] == "A" and e[1] == "volume"]
    vb = [e[3] for e in log if e[0] == "B" and e[1] == "volume"]
    us = tape.of("rand")
    if len(pa) == 1 and len(pb) == 1 and len(ina) == 1 and va and vb and us and len(out) == n * kk:
        u = us[-1].reshape(-1)
        ratio = torch.divide(va[-1], va[-1] + vb[-1]).reshape(-1)
        if len(ratio) == 1:
            ratio = ratio.repeat(len(u))
        if len(u) == len(out) == len(ratio) == len(ina[0]):
            lines.append("unionpick " + common.lst(ina[0].tolist(), common.q) + " " + common.lst([float(x) for x in u.tolist()], common.q) + " " +
                         common.lst([float(x) for x in ratio.tolist()], common.q))

            def post(reply, out=out, pa=pa[0], pb=pb[0]):
                if reply.startswith("err") or reply.startswith("bad-op"):
                    rep.disagree("drivers/C11.lean unionpick: model rejects", inp_of(case), None, reply)
                    return
                bits = [t == "1" for t in reply.split()]
                for r, bit in enumerate(bits):
                    want = pa[r] if bit else pb[r]
                    if not torch.equal(out[r], want) and not torch.equal(pa[r], pb[r]):
                        rep.disagree("union choice correspondence: row is the A-proposal iff (B-proposal in A) or u <= |A|/(|A|+|B|)",
                                     dict(inp_of(case), row=r), out[r].tolist(), dict(model_picks="A" if bit else "B", pa=pa[r].tolist(), pb=pb[r].tolist()))
                        return
                rep.count("union:choice-rows-agree", len(bits))
                rep.traces_validated += 1
            posts.append(post)
        else:
            rep.count("union:choice-not-applicable")
    else:
        rep.count("union:choice-not-applicable")
    # ---- laws on a big sample
    dom = UnionDomain(operand(a), operand(b), disjoint=bool(node.flags.get("disjoint")))   # geomgen reports: not exported from tp.domains
    torch.manual_seed(case["seed"] + 1)
    Xs = sample_big(tp, dom, node, case, "dom.n", case["N"])
    g = 6 if dim == 2 else 12
    for i, X in enumerate(Xs):
        env = fenv(row_env(case, i))
        A, B = shp(a, env), shp(b, env)
        U = A.union(B)
        cells, bounds = grid_cells(U, dim, g)
        idx = grid_index(X, bounds, dim, g)
        counts = np.bincount(idx, minlength=len(cells)).tolist()
        labels = [f"grid cell {j} of the {g}-partition of the bounding box {tuple(round(x, 4) for x in bounds)}" for j in range(len(cells))]
        uni = [U.intersection(c).area / U.area for c in cells]
        overlap = A.intersection(B).area
        rep.count("chi2-tests")
        v_uni = chi2_decide(counts, uni, labels)
        # the as-coded mixture law (Props/C11Finite.lean: union_mixture_law) with rho = |A|/(|A|+|B|)
        rho = A.area / (A.area + B.area)
        qq = overlap / B.area
        BmA = B.difference(A)
        coded = [(A.intersection(c).area / A.area) * (qq + (1 - qq) * rho) + (BmA.intersection(c).area / B.area) * (1 - rho) for c in cells]
        s = sum(coded)
        coded = [x / s for x in coded]
        rep.count("chi2-tests")
        v_cod = chi2_decide(counts, coded, labels)
        if not v_cod["ok"]:
            w = v_cod["worst"]
            fail_law(rep, case, f"union sample follows neither the uniform law nor the coded mixture law: {w['cell']} received {w['observed']} of "
                     f"{v_cod['N']} points, the mixture law gives {w['expected']} (chi-square {v_cod['stat']} > {v_cod['bound']})",
                     row_env_json(case, i), v_cod, extra=dict(counts=counts, mixture_law=coded, uniform_law=uni))
        elif not v_uni["ok"]:
            w = v_uni["worst"]
            share = overlap / A.area
            fail_law(rep, case, f"union of overlapping operands (|A and B|/|A| = {share:.3f}) is not sampled uniformly: {w['cell']} received {w['observed']} of "
                     f"{v_uni['N']} points, its share of the measure gives {w['expected']} (chi-square {v_uni['stat']} > {v_uni['bound']}); the sample "
                     f"follows the mixture law with density ratio 1 + |A and B|/|A| = {1 + share:.3f}", row_env_json(case, i), v_uni,
                     finding="union_overlap_nonuniform" if overlap > 1e-9 * U.area else None,
                     extra=dict(counts=counts, uniform_law=uni, mixture_law=coded))
        else:
            rep.count("union:uniform" + (":overlapping?!" if overlap > 0.05 * U.area else ""))


def prod_partition(node, X, env_row):
    """X columns: A's coordinates then s.  Joint cells (s-bin, fibre cell) with P = integral over the s-bin of the cell's
    measure / total measure of the product (exact).  returns idx, probs, labels, marginal law of the s-bins"""
    a, b = node.kids
    da = X.shape[1] - 1
    (l,), (u,) = b.pfs[0].eval(env_row), b.pfs[1].eval(env_row)
    ms = 4
    s = X[:, da]
    sb = _bin((s - float(l)) / float(u - l), ms)
    envf = fenv(env_row)
    envf["s"] = [s]
    ia, polys, la = fibre_cells(a, X[:, :da], envf, env_row)
    tot = sum(poly_int(p, l, u) for p in polys)
    edges = [l + (u - l) * Fr(i, ms) for i in range(ms + 1)]
    probs = [float(poly_int(p, edges[i], edges[i + 1]) / tot) for i in range(ms) for p in polys]
    ps = [sum(probs[i * len(polys):(i + 1) * len(polys)]) for i in range(ms)]
    idx = _combine([(sb, ms), (ia, len(polys))])
    labels = [f"s in part {i + 1}/{ms} of its interval and {lb}" for i in range(ms) for lb in la]
    return idx, probs, labels, ps


def run_prod(tp, rep, case, lines, posts):
    """history of products built one after the other FROM THE SAME FACTOR OBJECTS (the factor itself, again the factor,
    its boundary): every product is sampled; acceptance correspondence (small n, recording proxies, also reused) and
    chi-square test on exact joint cells for each of them.  The returned tensors are overwritten between the steps."""
    import torch
    from torchphysics.problem.domains.domainoperations.product import ProductDomain
    node = geomgen.from_json(case["dom"])
    a, b = node.kids
    prows = prows_of(case)
    params = mk_params(tp, case["params"], prows)
    env_row = prows[0] if prows else {}
    steps = case.get("history") or ["solid"]
    A_obj, B_obj = build_tp(a, tp), build_tp(b, tp)
    Proxy = build_proxy_class(tp)
    log = []
    PA, PB = Proxy(build_tp(a, tp), log, "A"), Proxy(build_tp(b, tp), log, "B")
    for h, step in enumerate(steps):
        where = f"product {h + 1} of {len(steps)} built from the same factor objects ({'the factor' if step == 'solid' else 'its boundary'} x interval)"
        fa, pfa, tagA = (A_obj, PA, "A") if step == "solid" else (A_obj.boundary, PA.boundary, "A.bdry")
        pnode = node if step == "solid" else Node("prod", None, [], [Node("bdry", None, [], [a]), b])
        cinp = dict(inp_of(case), history_step=h)
        # ---- acceptance correspondence (dependent products): small call with proxies
        if case["dependent"]:
            del log[:]
            pdom = ProductDomain(pfa, PB)
            n = case["n_small"]
            torch.manual_seed(case["seed"] + 10 * h)
            with Tape() as tape:
                res = common.call_with_timeout(TIMEOUT, lambda: pdom.sample_random_uniform(n=n, params=params))
            s_out = res.coordinates[nm("s")].reshape(-1).clone()
            res.as_tensor.add_(1000.0)
            bs = [e[3] for e in log if e[0] == "B" and e[1] == "rand"]
            vols = [e[3].reshape(-1) for e in log if e[0] == tagA and e[1] == "volume"]
            us = [t.reshape(-1) for t in tape.of("rand_like")]
            multi = [(bb, vv) for bb, vv in zip(bs, vols) if len(vv) != 1]
            if not vols and n > 1:
                rep.disagree("product acceptance correspondence: the first factor depends on the second factor's variable (model: free variables "
                             "of the expression), but the library sampled it as a constant product: no fibre volume was evaluated, no candidate "
                             "rejected; " + where, cinp, dict(volume_calls=0, b_batches=len(bs)), dict(expected="one acceptance step per batch"))
            elif len(bs) == len(vols) and len(multi) == len(us):
                ui = 0
                plan = []
                for bb, vv in zip(bs, vols):
                    if len(vv) == 1:
                        plan.append((bb, None))
                    else:
                        lines.append("prodaccept " + common.lst([float(x) for x in vv.tolist()], common.q) + " " +
                                     common.lst([float(x) for x in us[ui].tolist()], common.q))
                        plan.append((bb, (vv, us[ui])))
                        ui += 1

                def post(*replies, plan=plan, s_out=s_out, n=n, cinp=cinp):
                    exp, ri = [], 0
                    for bb, acc in plan:
                        col = bb.reshape(-1)
                        if acc is None:
                            exp += col.tolist()
                            continue
                        rl = replies[ri]; ri += 1
                        if rl.startswith("err") or rl.startswith("bad-op"):
                            rep.disagree("drivers/C11.lean prodaccept: model rejects", cinp, None, rl)
                            return
                        keep = [int(t) for t in rl.split()]
                        vv, uu = acc
                        mx = float(vv.max())
                        if any(abs(mx * float(uu[i]) - float(vv[i])) < 1e-6 * mx for i in range(len(vv))):
                            rep.count("prod:near-tie(skipped)")
                            return
                        exp += [float(col[i]) for i in keep]
                    exp = exp[:n]
                    got = [float(x) for x in s_out.tolist()]
                    if exp != got:
                        rep.disagree("product acceptance correspondence: a candidate b is kept iff max(vol)*u < vol_A(b) (first n kept, in order)",
                                     cinp, got[:8], exp[:8])
                    else:
                        rep.count("prod:acceptance-agrees")
                        rep.traces_validated += 1
                posts.append((post, sum(1 for _, acc in plan if acc is not None)))
            else:
                rep.count("prod:acceptance-not-applicable")
        # ---- law on a big sample
        dom = ProductDomain(fa, B_obj)
        torch.manual_seed(case["seed"] + 1 + 10 * h)
        N = case["N"]
        res = common.call_with_timeout(TIMEOUT, lambda: dom.sample_random_uniform(n=N, params=params))
        X = coords_of(pnode, res, len(res))
        res.as_tensor.add_(1000.0)          # the caller owns the returned tensor: overwriting it must not matter
        if len(X) != N:
            rep.fail(f"{where}: sample_random_uniform(n={N}) returned {len(X)} rows", cinp)
            return
        idx, probs, labels, ps = prod_partition(pnode, X, env_row)
        rep.count("chi2-tests")
        rep.count("prod-history-step:" + step + ("" if h == 0 else ":reused-factor"))
        nout = int((idx < 0).sum())
        if nout:
            j = int(np.where(idx < 0)[0][0])
            rep.fail(f"{where}: {nout} of {N} sampled points lie outside the product domain, e.g. {X[j].tolist()}", cinp,
                     detail=dict(parameter_row=row_env_json(case, 0), outside=nout))
            return
        counts = np.bincount(idx, minlength=len(probs)).tolist()
        v = chi2_decide(counts, probs, labels)
        if not v["ok"]:
            w = v["worst"]
            rep.fail(f"{where}: the sample is not uniform: cell '{w['cell']}' received {w['observed']} of {v['N']} points, its share of the "
                     f"measure gives {w['expected']} (chi-square {v['stat']} > {v['bound']}, df {v['df']}); marginal law of s over 4 equal parts "
                     f"should be {ps}", cinp, detail=dict(parameter_row=row_env_json(case, 0), chi2=v, partition=dict(counts=counts, probabilities=probs)))


def run_prod1(tp, rep, case):
    """dependent product, one point per call: the acceptance step is skipped for a single candidate"""
    import torch
    node = geomgen.from_json(case["dom"])
    a, b = node.kids
    dom = build_tp(node, tp)
    torch.manual_seed(case["seed"])
    calls = case["calls"]
    ss = []
    import warnings
    for _ in range(calls):
        r = dom.sample_random_uniform(n=1)
        ss.append(float(r.coordinates[nm("s")][0, 0]))
    (l,), (u,) = b.pfs[0].eval({}), b.pfs[1].eval({})
    ms = 4
    sb = _bin((np.array(ss) - float(l)) / float(u - l), ms)
    counts = np.bincount(sb[sb >= 0], minlength=ms).tolist()
    coef = fibre_volume_poly(a, {}, "s")
    tot = poly_int(coef, l, u)
    ps = [float(poly_int(coef, l + (u - l) * Fr(i, ms), l + (u - l) * Fr(i + 1, ms)) / tot) for i in range(ms)]
    labels = [f"s in part {i + 1}/{ms} of its interval" for i in range(ms)]
    rep.count("chi2-tests", 2)
    v = chi2_decide(counts, ps, labels)
    v_flat = chi2_decide(counts, [1.0 / ms] * ms, labels)
    if not v["ok"]:
        w = v["worst"]
        fail_law(rep, case, f"dependent product sampled with n=1 ({calls} calls): s is not distributed in proportion to the volume of its fibre: '{w['cell']}' "
                 f"received {w['observed']} of {v['N']} points, the product measure gives {w['expected']} (chi-square {v['stat']} > {v['bound']}); "
                 + ("the marginal is uniform on the interval instead" if v_flat["ok"] else "nor is it uniform on the interval"),
                 {}, v, finding="dependent_product_small_batch" if v_flat["ok"] else None, extra=dict(counts=counts, product_law=ps))
    else:
        rep.count("prod1:proportional-to-fibre-volume")


def slab_check(vals, lo, hi, n):
    """exactly one value per slab [lo + w i/n, lo + w (i+1)/n); values within 1e-5*w of a slab border may count for either side.
    returns None if fine, else a message"""
    w = hi - lo
    tol = Fr(1, 10 ** 5)
    occ = {}
    amb = []
    for x in vals:
        t = (Fr(x) - lo) / w * n
        i = math.floor(t)
        frac = t - i
        if frac < tol * n or frac > 1 - tol * n:
            amb.append((x, i, i - 1 if frac < tol * n else i + 1))
        else:
            occ.setdefault(i, []).append(x)
    for i, xs in occ.items():
        if i < 0 or i >= n:
            return f"value {xs[0]} lies outside [{float(lo)}, {float(hi)}]"
        if len(xs) > 1:
            return f"slab {i} of {n} on [{float(lo)}, {float(hi)}] holds {len(xs)} points: {xs[:3]}"
    free = set(range(n)) - set(occ)
    for x, i, j in amb:
        if i in free:
            free.discard(i)
        elif j in free:
            free.discard(j)
        else:
            return f"border value {x} has no free slab ({i} / {j} of {n})"
    if free:
        return f"slabs {sorted(free)[:4]} of {n} on [{float(lo)}, {float(hi)}] hold no point"
    return None


def run_lhs(tp, rep, case, lines, posts):
    """ONE sampler object, called `calls` times with all parameter rows; the slab structure is checked on every call and
    row; the returned tensor is overwritten between the calls"""
    import torch
    node = geomgen.from_json(case["dom"])
    prows = prows_of(case)
    params = mk_params(tp, case["params"], prows)
    n = case["n"]
    dom = build_tp(node, tp)
    if case.get("setbox"):
        bb_ = [x for lo_hi in box_bounds(node, {}) for x in lo_hi]
        dom.set_bounding_box([int(x) for x in bb_] if case.get("numstyle") == "int" and all(Fr(x).denominator == 1 for x in bb_)
                             else [float(x) for x in bb_])
    sampler = tp.samplers.LHSSampler(dom, n_points=n)
    for call in range(case.get("calls", 1)):
        torch.manual_seed(case["seed"] + call)
        with Tape() as tape:
            res = common.call_with_timeout(TIMEOUT, lambda: sampler.sample_points(params))
        X32 = torch.cat([res.coordinates[nm(v)].reshape(len(res), -1) for v in node.vars()], dim=1).clone()
        res.as_tensor.add_(1000.0)
        if not _lhs_call(tp, rep, case, lines, posts, node, dom, prows, params, n, tape, X32, call, sampler):
            return
    if case.pop("_lhs_tape_unusable", False):
        lhs_intensified(tp, rep, case, node, sampler, prows, params, n)


def lhs_intensified(tp, rep, case, node, sampler, prows, params, n):
    """what `lhs_one_per_slab` + uniform shifts + uniform permutation mean for the OUTPUT, tested on many designs of the
    same sampler object: exactly one point per slab (every design, every row, every axis), the offsets inside the slabs are
    uniform, the slab of the first output row is uniform over the slabs (a fixed assignment, e.g. no permutation, fails)"""
    import torch
    kk = max(len(prows), 1)
    dim = sum(DIM[v] for v in node.vars())
    calls = min(1500, max(math.ceil(1000 / (dim * kk)), math.ceil(12000 / (n * dim * kk))))
    offs, first = [], []
    bounds_rows = [box_bounds(node, prows[i] if prows else {}) for i in range(kk)]
    torch.manual_seed(case["seed"] + 99)
    for c in range(calls):
        res = common.call_with_timeout(TIMEOUT, lambda: sampler.sample_points(params))
        X = torch.cat([res.coordinates[nm(v)].reshape(len(res), -1) for v in node.vars()], dim=1).double().numpy()
        if len(X) != n * kk:
            rep.fail(f"intensified LHS test: design {c + 1} has {len(X)} rows for n={n} and {len(prows)} parameter rows", inp_of(case))
            return
        for i in range(kk):
            rows = X[i * n:(i + 1) * n]
            for ax, (lo, hi) in enumerate(bounds_rows[i]):
                t = (rows[:, ax] - float(lo)) / float(hi - lo) * n
                sl = np.clip(np.floor(t), 0, n - 1)
                if c < 40 or len(set(sl.tolist())) != n:        # exact check on the first designs and whenever the float view is suspicious
                    m = slab_check([float(x) for x in rows[:, ax].tolist()], lo, hi, n)
                    if m and not (abs(rows[:, ax] - float(lo)).min() < 1e-6 * float(hi - lo) or abs(rows[:, ax] - float(hi)).min() < 1e-6 * float(hi - lo)):
                        rep.fail(f"intensified LHS test (tape unusable), design {c + 1}: not exactly one point per slab: axis {ax}: {m}", inp_of(case),
                                 detail=dict(parameter_row=row_env_json(case, i), points=rows.tolist()[:60]))
                        return
                offs.append(t - sl)
                first.append(int(sl[0]))
    offs = np.clip(np.concatenate(offs), 0, 1 - 1e-12)
    rep.count("chi2-tests")
    v = chi2_decide(np.bincount(np.floor(offs * 8).astype(int), minlength=8).tolist(), [1 / 8] * 8, [f"offset in [{j}/8,{j + 1}/8) of the slab" for j in range(8)])
    if not v["ok"]:
        w = v["worst"]
        rep.fail(f"intensified LHS test (tape unusable, {calls} designs): the position of the points inside their slabs is not uniform: '{w['cell']}' "
                 f"holds {w['observed']} of {v['N']} points, expected {w['expected']} (chi-square {v['stat']} > {v['bound']})", inp_of(case), detail=dict(chi2=v))
        return
    G = min(n, 4)
    if G >= 2:
        grp = [s_ * G // n for s_ in first]
        probs = [sum(1 for s_ in range(n) if s_ * G // n == g) / n for g in range(G)]
        rep.count("chi2-tests")
        v = chi2_decide(np.bincount(grp, minlength=G).tolist(), probs, [f"slab group {g + 1}/{G}" for g in range(G)])
        if not v["ok"]:
            w = v["worst"]
            rep.fail(f"intensified LHS test (tape unusable, {calls} designs): the slab of the first output row is not uniform over the slabs: '{w['cell']}' "
                     f"occurred {w['observed']} of {v['N']} times, expected {w['expected']} (chi-square {v['stat']} > {v['bound']})", inp_of(case), detail=dict(chi2=v))
            return
    rep.count("tape-unusable:lhs-law-confirmed-by-intensified-oracle")


def _lhs_call(tp, rep, case, lines, posts, node, dom, prows, params, n, tape, X32, call, sampler):
    import torch
    kk = max(len(prows), 1)
    dim = X32.shape[1]
    tag = f"call {call + 1} of the same sampler object: "
    if len(X32) != n * kk:
        rep.fail(tag + f"LHSSampler(n_points={n}) returned {len(X32)} rows for {len(prows)} parameter rows", dict(inp_of(case), call=call))
        return False
    # the stratified draws are 1-D (`torch.rand(n_points)`), the draws of a top-up by the uniform sampler are 3-D
    rands = [t for t in tape.of("rand") if t.dim() == 1]
    perms = tape.of("randperm")
    topped = len(tape.of("rand")) != len(rands)
    if len(rands) != dim * kk or len(perms) != dim * kk:
        # another call pattern (e.g. one rand((n, dim)) and argsort permutations): the column correspondence is unusable;
        # what the theorem needs is checked on the output instead (run_lhs -> lhs_intensified)
        rep.count("tape-unusable:lhs-call-pattern")
        case["_lhs_tape_unusable"] = True
        rands = perms = None
    for i in range(kk):
        env = prows[i] if prows else {}
        bounds = box_bounds(node, env)
        rows = X32[i * n:(i + 1) * n]
        msgs = []
        for ax, (lo, hi) in enumerate(bounds):
            m = slab_check([float(x) for x in rows[:, ax].tolist()], lo, hi, n)
            if m:
                msgs.append(f"axis {ax}: {m}")
        if msgs and topped and rands is not None and _lhs_border_proposal(rands[i * dim:(i + 1) * dim], perms[i * dim:(i + 1) * dim], bounds, n):
            rep.count("lhs:border-proposal-rejected(skipped)")
            continue
        if msgs:
            rep.fail(tag + f"LHSSampler(n_points={n}) in the box {[(float(a), float(b)) for a, b in bounds]} does not put exactly one point into each of the "
                     f"{n} equal slabs: " + "; ".join(msgs), dict(inp_of(case), call=call),
                     detail=dict(parameter_row=row_env_json(case, i), points=rows.tolist()[:60]))
            continue
        rep.count("lhs:one-per-slab" + (":later-call" if call else ""))
        if rands is None:
            continue
        if topped:
            rep.count("lhs:topped-up")
            continue
        # column correspondence: box from the library's own float32 bounding box of the row
        ith = params[i, ] if len(prows) > 0 else tp.spaces.Points.empty()
        bb = dom.bounding_box(ith)
        bb = [float(x) for x in (bb.reshape(-1).tolist() if hasattr(bb, "reshape") else list(bb))]
        for ax in range(dim):
            us = [float(x) for x in rands[i * dim + ax].reshape(-1).tolist()]
            pm = [int(x) for x in perms[i * dim + ax].reshape(-1).tolist()]
            lines.append(f"lhs {common.q(bb[2 * ax])} {common.q(bb[2 * ax + 1])} {n} {common.lst(us, common.q)} {common.lst(pm)}")

            def post(reply, col=[float(x) for x in rows[:, ax].tolist()], w=bb[2 * ax + 1] - bb[2 * ax], ax=ax, i=i):
                if reply.startswith("err") or reply.startswith("bad-op"):
                    rep.disagree("drivers/C11.lean lhs: model rejects", inp_of(case), None, reply)
                    return
                model = [common.unfbits(t) for t in reply.split()]
                if len(model) != len(col) or any(abs(a - b) > 2e-6 * max(1.0, abs(b), abs(w)) for a, b in zip(col, model)):
                    rep.disagree("LHS column correspondence: column = (linspace(lo,hi,n+1)[:-1] + (hi-lo)/n * shifts)[permutation]",
                                 dict(inp_of(case), axis=ax, parameter_row=i), col[:8], model[:8])
                    if not case.get("_lhs_int_done"):        # failing-input search for exactly this case
                        case["_lhs_int_done"] = True
                        set_naming(case)
                        lhs_intensified(tp, rep, case, node, sampler, prows, params, n)
                else:
                    rep.count("lhs:columns-agree")
                    rep.traces_validated += 1
            posts.append(post)
    return True


def _lhs_border_proposal(rands, perms, bounds, n):
    """did a stratified proposal of this row sit on the border of the box (within 1e-6 of the width)?  Then float32
    rounding may have pushed it out of the closed box and the sampler legitimately replaced it by a random point."""
    for us, (lo, hi) in zip(rands, bounds):
        w = float(hi - lo)
        for i, u in enumerate(us.reshape(-1).tolist()):
            x = float(lo) + w * i / n + w / n * float(u)
            if x - float(lo) < 1e-6 * w or float(hi) - x < 1e-6 * w:
                return True
    return False


def norm_cdf(x):
    return 0.5 * (1.0 + math.erf(x / math.sqrt(2.0)))


def run_gauss(tp, rep, case, lines, posts):
    import torch
    node = geomgen.from_json(case["dom"])
    prows = prows_of(case)
    params = mk_params(tp, case["params"], prows)
    kk = max(len(prows), 1)
    dim = DIM[node.vars()[0]]
    round_domain = node.kind in ("circle", "sphere")
    if round_domain:
        ctr = [float(x) for x in node.pfs[0].eval({})]
        rad = float(node.pfs[1].eval({})[0])
        b0 = [(Fr(c_ - rad), Fr(c_ + rad)) for c_ in ctr]
        std = case["std_radius"] * rad
        mean = ctr
    else:
        b0 = box_bounds(node, prows[0] if prows else {})
        if "std_axis0" in case:
            std = case["std_axis0"] * float(b0[0][1] - b0[0][0])
        else:
            std = case["std_factor"] * float(sum(hi - lo for lo, hi in b0)) / len(b0)     # a dyadic number
        mean = [float((lo + hi) / 2) + case["off"][ax] * float(hi - lo) / 2 for ax, (lo, hi) in enumerate(b0)]
    rep.count("gauss:" + ("centred disc/ball" if round_domain else "tail (acceptance < 4%)" if "std_axis0" in case else "box, mean inside"))
    S = tp.samplers
    # ---- selection correspondence (small n)
    Proxy = build_proxy_class(tp)
    log = []
    pdom = Proxy(build_tp(node, tp), log, "D")
    n = case["n_small"]
    torch.manual_seed(case["seed"])
    with Tape() as tape:
        res = common.call_with_timeout(TIMEOUT, lambda: S.GaussianSampler(pdom, n_points=n, mean=mean, std=std).sample_points(params))
    out = torch.cat([res.coordinates[nm(v)].reshape(len(res), -1) for v in node.vars()], dim=1)
    props = tape.of("normal")
    bits = [e[3] for e in log if e[1] == "contains"]
    if len(out) != n * kk:
        rep.fail(f"GaussianSampler(n_points={n}) returned {len(out)} rows for {len(prows)} parameter rows", inp_of(case))
        return
    if len(props) == len(bits) and all(len(p) == len(bb) for p, bb in zip(props, bits)):
        # split the rounds by parameter row: a row ends when >= n accepted
        pos, rows = 0, []
        for i in range(kk):
            acc, cnt = 0, 0
            while pos + cnt < len(bits) and acc < n:
                acc += int(bits[pos + cnt].sum()); cnt += 1
            rows.append((pos, cnt))
            pos += cnt
        if pos == len(bits):
            for i, (p0, cnt) in enumerate(rows):
                lines.append(f"acc {n} {cnt + 2} " + common.lst(range(cnt), lambda r: common.lst(bits[p0 + r].tolist(), common.q)))

                def post(reply, p0=p0, cnt=cnt, i=i):
                    if reply.startswith("err") or reply.startswith("bad-op"):
                        rep.disagree("drivers/C11.lean acc: model gives no result", inp_of(case), None, reply)
                        return
                    rd, idx = reply.split("|")
                    exp = [props[p0 + int(t.split(":")[0])][int(t.split(":")[1])] for t in idx.split()]
                    exp = torch.stack(exp) if exp else torch.zeros((0, dim))
                    got = out[i * n:(i + 1) * n]
                    if int(rd) != cnt or exp.shape != got.shape or not torch.equal(exp, got):
                        rep.disagree("Gaussian sampler selection: the output is the first n accepted normal proposals, in proposal order",
                                     dict(inp_of(case), parameter_row=i), got.tolist()[:5], exp.tolist()[:5])
                    else:
                        rep.count("gauss:selection-agrees")
                        rep.traces_validated += 1
                posts.append(post)
        else:
            rep.disagree("Gaussian sampler selection: a parameter row keeps proposing after n accepted proposals", inp_of(case), len(bits), pos)
    else:
        rep.count("gauss:selection-not-applicable")
    # ---- conditional normal law on big samples: ONE sampler object called twice (first result overwritten in between)
    dom = build_tp(node, tp)
    N = case["N"] // 2
    torch.manual_seed(case["seed"] + 1)
    gs = S.GaussianSampler(dom, n_points=N, mean=mean, std=std)
    Xcalls = []
    for call in range(2):
        res = common.call_with_timeout(TIMEOUT, lambda: gs.sample_points(params))
        Xc = coords_of(node, res, len(res))
        res.as_tensor.add_(1000.0)
        if len(Xc) != N * kk:
            rep.fail(f"call {call + 1}: GaussianSampler(n_points={N}) returned {len(Xc)} rows for {len(prows)} parameter rows", inp_of(case))
            return
        Xcalls.append(Xc)
    X = np.concatenate(Xcalls, axis=0)
    kk_rows = kk
    kk = 2 * kk
    m = 8 if dim == 1 else 4
    for i in range(kk):
        env = prows[i % kk_rows] if prows else {}
        Xi = X[i * N:(i + 1) * N]
        if round_domain:
            # isotropic normal centred in the ball: the radius has the (truncated) Rayleigh / Maxwell law, the direction is uniform
            dvec = Xi - np.array(ctr)
            rho = np.sqrt((dvec ** 2).sum(1))
            F = (lambda a: 1 - math.exp(-a * a / (2 * std * std))) if dim == 2 else \
                (lambda a: math.erf(a / (std * math.sqrt(2))) - math.sqrt(2 / math.pi) * (a / std) * math.exp(-a * a / (2 * std * std)))
            mr = 4
            pr_ = [(F(rad * (j + 1) / mr) - F(rad * j / mr)) / F(rad) for j in range(mr)]
            parts = [(_bin(rho / rad, mr), mr)]
            ang = np.mod(np.arctan2(dvec[:, 1], dvec[:, 0]), 2 * math.pi) / (2 * math.pi)
            if dim == 2:
                parts.append((_bin(ang, 8), 8)); pdir = [1 / 8] * 8
            else:
                parts += [(_bin((dvec[:, 2] / np.maximum(rho, 1e-30) + 1) / 2, 4), 4), (_bin(ang, 4), 4)]; pdir = [1 / 16] * 16
            idx = _combine(parts)
            probs = [a_ * b_ for a_ in pr_ for b_ in pdir]
            labels = [f"radius bin {a_ + 1}/{mr}, direction cell {b_ + 1}/{len(pdir)}" for a_ in range(mr) for b_ in range(len(pdir))]
        else:
            bounds = box_bounds(node, env)
            parts, pax = [], []
            for ax, (lo, hi) in enumerate(bounds):
                lo, hi = float(lo), float(hi)
                parts.append((_bin((Xi[:, ax] - lo) / (hi - lo), m), m))
                edges = [lo + (hi - lo) * j / m for j in range(m + 1)]
                cdf = [norm_cdf((e - mean[ax]) / std) for e in edges]
                z = cdf[-1] - cdf[0]
                pax.append([(cdf[j + 1] - cdf[j]) / z for j in range(m)])
            idx = _combine(parts)
            probs = pax[0] if dim == 1 else [p * q_ for p in pax[0] for q_ in pax[1]]
            labels = [f"cell {j} of the {m}{'x' + str(m) if dim == 2 else ''} partition of the box" for j in range(len(probs))]
        rep.count("chi2-tests")
        nout = int((idx < 0).sum())
        if nout:
            fail_law(rep, case, f"{nout} of {N} Gaussian samples lie outside the domain", row_env_json(case, i), dict(outside=nout))
            continue
        counts = np.bincount(idx, minlength=len(probs)).tolist()
        v = chi2_decide(counts, probs, labels)
        if not v["ok"]:
            w = v["worst"]
            fail_law(rep, case, f"GaussianSampler(mean={mean}, std={std}) does not follow the normal law conditioned on the domain: '{w['cell']}' received "
                     f"{w['observed']} of {v['N']} points, the conditional normal law gives {w['expected']} (chi-square {v['stat']} > {v['bound']})",
                     row_env_json(case, i), v, extra=dict(counts=counts, probabilities=probs))


def run_grid(tp, rep, case, lines, posts):
    import torch
    node = geomgen.from_json(case["dom"])
    prows = prows_of(case)
    params = mk_params(tp, case["params"], prows)
    n, m = case["n"], case["m"]
    dom = build_tp(node, tp)
    first = common.call_with_timeout(TIMEOUT, lambda: dom.sample_grid(n=n, params=params))
    first_xs = [float(x) for x in first.as_tensor.reshape(-1).tolist()]
    first.as_tensor.add_(1000.0)                       # the caller owns the result
    res = common.call_with_timeout(TIMEOUT, lambda: dom.sample_grid(n=n, params=params))
    xs = [float(x) for x in res.as_tensor.reshape(-1).tolist()]
    if xs != first_xs:
        rep.fail(f"Interval.sample_grid(n={n}) is not repeatable: the second call on the same object returned {xs[:5]}, the first {first_xs[:5]}",
                 inp_of(case))
        return
    env = prows[0] if prows else {}
    l, u = node.pfs[0].eval(env)[0], node.pfs[1].eval(env)[0]
    if len(xs) != n:
        rep.fail(f"Interval.sample_grid(n={n}) returned {len(xs)} points", inp_of(case))
        return
    # evenness: every one of m equal cells holds its share n/m up to less than 2 points (Props: interval_grid_even);
    # points within 1e-5 of a cell border count for the better side
    tol = Fr(1, 10 ** 5)
    lo_cnt, hi_cnt = [0] * m, [0] * m
    for x in xs:
        t = (Fr(x) - l) / (u - l) * m
        if t < -tol or t > m + tol:
            rep.fail(f"Interval.sample_grid(n={n}) returned {x} outside [{float(l)}, {float(u)}]", inp_of(case))
            return
        i = min(max(math.floor(t), 0), m - 1)
        fr = t - math.floor(t)
        if fr < tol * m and i > 0:
            hi_cnt[i] += 1; hi_cnt[i - 1] += 1
        elif fr > 1 - tol * m and i < m - 1:
            hi_cnt[i] += 1; hi_cnt[i + 1] += 1
        else:
            lo_cnt[i] += 1; hi_cnt[i] += 1
    share = Fr(n, m)
    for i in range(m):
        if not (lo_cnt[i] < share + 2 and hi_cnt[i] > share - 2):
            rep.fail(f"Interval.sample_grid(n={n}) on [{float(l)}, {float(u)}] is not evenly spread: cell {i + 1} of {m} equal cells holds "
                     f"{lo_cnt[i]}..{hi_cnt[i]} points, its share is {float(share):.2f} (discretisation bound: less than 2 points)",
                     inp_of(case), detail=dict(points=xs[:50]))
            return
    rep.count("grid:even")
    lines.append(f"igrid {common.q(float(np.float32(float(l))))} {common.q(float(np.float32(float(u))))} {n}")

    def post(reply):
        if reply.startswith("err") or reply.startswith("bad-op"):
            rep.disagree("drivers/C11.lean igrid: model rejects", inp_of(case), None, reply)
            return
        model = [common.unfbits(t) for t in reply.split()]
        if len(model) != len(xs) or any(abs(a - b) > 2e-6 * max(1.0, abs(b), float(u - l)) for a, b in zip(xs, model)):
            rep.disagree("interval grid correspondence: points (ub - lb) * (j+1)/(n+1) + lb", inp_of(case), xs[:8], model[:8])
        else:
            rep.count("grid:agrees")
            rep.traces_validated += 1
    posts.append(post)


def two_var_shape(rng):
    """a shape one of whose parameters is ONE function of the two outside variables t and D (so that D(t = value) is a PARTIAL
    evaluation of that function), optionally under a translation that depends on both as well"""
    def both(base, spread=1):
        a_, b_ = dy(rng, -spread, spread, 4) or Fr(1, 4), dy(rng, -spread, spread, 4) or Fr(-1, 4)
        return ("+", ("+", geomgen.c(base), ("*", geomgen.c(a_), geomgen.v("t"))), ("*", geomgen.c(b_), geomgen.v("D")))
    kind = rng.choice(["circle", "interval", "par", "tri", "sphere"])
    if kind == "circle":
        node = Node("circle", "x", [PF([both(dy(rng, -2, 2)), both(dy(rng, -2, 2))]), PF([("+", geomgen.c(dy(rng, 0.5, 2)), ("*", geomgen.c(Fr(1, 4)), geomgen.v("t")))])])
    elif kind == "sphere":
        node = Node("sphere", "z", [PF([both(dy(rng, -1, 1)), geomgen.c(dy(rng, -1, 1)), both(dy(rng, -1, 1))]), PF([geomgen.c(dy(rng, 0.5, 2))])])
    elif kind == "interval":
        lo = both(dy(rng, -2, 1))
        node = Node("interval", "y", [PF([lo]), PF([("+", lo, geomgen.c(dy(rng, 0.5, 3)))])])
    else:
        base = Gen(rng, params=[]).prim2("x")
        while base.kind != kind:
            base = Gen(rng, params=[]).prim2("x")
        sh = [both(0), both(0)]
        node = Node(kind, "x", [PF([("+", p.terms[0], sh[0]), ("+", p.terms[1], sh[1])]) for p in base.pfs])
    if rng.random() < 0.3:
        var = node.var
        node = Node("translate", var, [PF([both(dy(rng, -1, 1)) for _ in range(DIM[var])])], [node])
    if rng.random() < 0.3:
        node = Node("bdry", None, [], [node])
    return node


def run_evalhist(tp, rep, case, lines, posts):
    """object history of EVALUATED domains: several copies D(t = v_i) are made from ONE parent first; then every copy — earlier
    ones after later ones were created — and finally the parent itself is sampled and judged against the law at ITS OWN values
    (natural-partition chi-square with the full parameter row, tape correspondence `prim` at the row  rho ++ {t: v_i};
    Props/C11.lean: primSample_peval, primSample_peval_siblings)"""
    import torch
    node = geomgen.from_json(case["dom"])
    rowsD = prows_of(case)                      # rows of the remaining parameter D
    tvals = [Fr(v) for v in case["tvals"]]
    parent = build_tp(node, tp)
    copies = [parent(**{nm("t"): torch.tensor([[float(v)]])}) for v in tvals]   # all copies are made before any of them is used
    dt = node.tokens()
    for step, which in enumerate(case["order"]):
        if which == "parent":
            dom, pnames = parent, ["t", "D"]
            full = [dict(r, t=[tvals[0]]) for r in rowsD]
            sub_rows = full
            who = "the parent (sampled with explicit rows after its evaluated copies were made and used)"
        else:
            dom, pnames = copies[which], ["D"]
            full = [dict(r, t=[tvals[which]]) for r in rowsD]
            sub_rows = rowsD
            who = (f"the evaluated copy D(t={float(tvals[which])}) (copy {which + 1} of {len(copies)}, sampled as step {step + 1} of the "
                   f"history {case['order']}; the other copies were made at t={[float(v) for j, v in enumerate(tvals) if j != which]})")
        sub = dict(case, params=pnames, prows=prows_json(sub_rows))
        judge = dict(case, params=["t", "D"], prows=prows_json(full), _orig=case)
        # ---- tape correspondence on a small call
        n = case["n_small"]
        params = mk_params(tp, pnames, sub_rows)
        torch.manual_seed(case["seed"] + step)
        with Tape() as tape:
            res = common.call_with_timeout(TIMEOUT, lambda: dom.sample_random_uniform(n=n, params=params))
        X = coords_of(node, res, len(res))
        kk = len(sub_rows)
        if len(X) != n * kk:
            rep.fail(f"{who}: {len(X)} rows returned for n={n} and {kk} parameter rows", inp_of(case))
            return
        draws = tape.of("rand")
        out = dict(X=X, reqs=[], draws=[])
        for i in range(kk):
            for j in range(n):
                r = []
                for T in draws:
                    if tuple(T.shape[:2]) != (kk, n):
                        out["shape"] = [tuple(T.shape) for T in draws]
                        break
                    r += [float(x) for x in T[i, j].reshape(-1).tolist()]
                out["reqs"].append(f"prim {dt} {env_tokens(full[i])} {common.lst(r, common.q)}")
                out["draws"].append((full[i], r))
        prim_like = node.kind in PRIMS or (node.kind == "bdry" and node.kids[0].kind in PRIMS)     # `prim` models primitives and their boundaries
        if "shape" not in out and prim_like:
            a0 = len(lines)
            lines += out["reqs"]
            posts.append((lambda *replies, out=out, judge=judge: judge_tape(rep, judge, out, list(replies), _EVAL_RETRY), len(lines) - a0))
        # ---- law on a big sample, judged at the copy's own values
        torch.manual_seed(case["seed"] + 100 + step)
        Xs = sample_big(tp, dom, node, sub, case["api"], case["N"])
        rep.count("evalhist:" + ("parent" if which == "parent" else "earlier-copy-after-later" if which < max([w for w in case["order"][:step] if w != "parent"] + [-1]) or which < len(copies) - 1 else "latest-copy"))
        if law_tests(rep, judge, node, Xs, tag=who + ": "):
            return


_EVAL_RETRY = []


def prim_bdry_dist(prim, P, env):
    """distance of the points to the boundary line of a 2-D primitive (vectorised)"""
    if prim.kind == "translate":
        t = pf_np(prim.pfs[0], env)
        return prim_bdry_dist(prim.kids[0], P - np.array([float(t[0]), float(t[1])]), env)
    if prim.kind == "circle":
        c, (r,) = pf_np(prim.pfs[0], env), pf_np(prim.pfs[1], env)
        return np.abs(np.sqrt(((P - np.array(c)) ** 2).sum(1)) - r)
    o, c1, c2 = [np.array(pf_np(p, env), dtype=float) for p in prim.pfs]
    V = np.array([o, c1, c1 + c2 - o, c2]) if prim.kind == "par" else np.array([o, c1, c2])
    E = np.roll(V, -1, axis=0) - V
    best = np.full(len(P), np.inf)
    for e in range(len(V)):
        q = P - V[e]
        t = np.clip((q @ E[e]) / (E[e] @ E[e]), 0, 1)
        best = np.minimum(best, np.sqrt(((q - t[:, None] * E[e]) ** 2).sum(1)))
    return best


def _boolbdry_small(tp, rep, case, node, inner, a, b, bd, line, V, env):
    """many calls with a small n: share of the arc of operand a (known finding: the alternate-and-truncate loop favours it)"""
    n, calls = case["small_n"], case["calls"]
    shift = np.array([float(x) for x in pf_np(node.pfs[0], env)]) if node.kind == "translate" else np.zeros(2)
    cnt = tot = 0
    for _ in range(calls):
        P = bd.sample_random_uniform(n=n).as_tensor.double().numpy() - shift
        cnt += int((prim_bdry_dist(a, P, env) < prim_bdry_dist(b, P, env)).sum()); tot += len(P)
    A_line = shp(a, env).boundary
    if node.kind == "translate":
        from shapely import affinity
        A_line = affinity.translate(A_line, float(shift[0]), float(shift[1]))
    pa = line.intersection(A_line.buffer(1e-7 * max(1.0, V))).length / V
    rep.count("chi2-tests")
    v = chi2_decide([cnt, tot - cnt], [pa, 1 - pa], ["arc of operand a", "arc of operand b"])
    if v["ok"]:
        rep.count("boolbdry-small-n:arc shares fit")
        return
    fail_law(rep, case, f"boundary of {node.tokens()} sampled with n={n} per call ({calls} calls, exact measure set with set_volume): the arc of operand a "
             f"holds {cnt / tot:.3f} of the samples, its length share is {pa:.3f} (chi-square {v['stat']} > {v['bound']})", {}, v,
             finding="boolean_boundary_small_n_bias" if cnt / tot > pa else None)


def run_boolbdry(tp, rep, case):
    """boundary of a union / cut / intersection of two overlapping (or disjoint / contained) 2-D primitives, optionally under a
    translation; the exact measure of the boundary is set with set_volume where the library asks for it (n points, overlapping
    operands); judged against the arclength shares of (arc of operand a / of operand b) x grid cells, computed with Shapely"""
    import torch
    from shapely.geometry import box
    node = geomgen.from_json(case["dom"])                 # the SOLID expression; its boundary is sampled
    inner = node.kids[0] if node.kind == "translate" else node
    a, b = inner.kids
    env = {}
    solid = shp(node, env)
    line = solid.boundary
    V = line.length
    dom = build_tp(node, tp)
    bd = dom.boundary
    if case["set_volume"]:
        bd.set_volume(V)
    N = case["N"]
    torch.manual_seed(case["seed"])
    if case.get("small_n"):
        return _boolbdry_small(tp, rep, case, node, inner, a, b, bd, line, V, env)
    if case["api"] == "dom.d":
        res = common.call_with_timeout(TIMEOUT, lambda: bd.sample_random_uniform(d=N / V))
    elif case["api"] == "smp.n":
        res = common.call_with_timeout(TIMEOUT, lambda: tp.samplers.RandomUniformSampler(bd, n_points=N).sample_points())
    else:
        res = common.call_with_timeout(TIMEOUT, lambda: bd.sample_random_uniform(n=N))
    X = res.coordinates[nm("x")].detach().double().numpy()
    if case["api"] != "dom.d" and len(X) != N:
        rep.fail(f"boundary of {node.tokens()}: {len(X)} rows returned for n={N}", inp_of(case))
        return
    # cells: which operand's boundary the point lies on  x  4x4 grid of the bounding box
    if node.kind == "translate":
        t = pf_np(node.pfs[0], env)
        from shapely import affinity
        A_line = affinity.translate(shp(a, env).boundary, t[0], t[1]); B_line = affinity.translate(shp(b, env).boundary, t[0], t[1])
        shift = np.array([float(t[0]), float(t[1])])
    else:
        A_line, B_line = shp(a, env).boundary, shp(b, env).boundary
        shift = np.zeros(2)
    eps = 1e-7 * max(1.0, V)
    on_a = line.intersection(A_line.buffer(eps))
    on_b = line.intersection(B_line.buffer(eps)).difference(A_line.buffer(eps))
    g = 4
    # grid lines must not run along an edge (a LINE lying on a cell border would be counted in both cells): the grid is laid over
    # the bounding box enlarged by incommensurable margins, so that its lines miss the dyadic coordinates of the generator
    from shapely.geometry import box as _box
    bx0, by0, bx1, by1 = solid.bounds
    wx, wy = bx1 - bx0, by1 - by0
    cells, bounds = grid_cells(_box(bx0 - 0.01371 * wx, by0 - 0.02913 * wy, bx1 + 0.03117 * wx, by1 + 0.01733 * wy), 2, g)
    da, db = prim_bdry_dist(a, X - shift, env), prim_bdry_dist(b, X - shift, env)
    which = (db < da).astype(np.int64)
    off = int((np.minimum(da, db) > 1e-4 * max(1.0, V)).sum())
    if off:
        rep.fail(f"boundary of {node.tokens()}: {off} of {len(X)} sampled points do not lie on the boundary of an operand", inp_of(case))
        return
    idx = which * (g * g) + grid_index(X, bounds, 2, g)
    probs = [on_a.intersection(c).length / V for c in cells] + [on_b.intersection(c).length / V for c in cells]
    tot = sum(probs)
    probs = [p / tot for p in probs]
    labels = [f"arc of operand {'a' if w == 0 else 'b'} in grid cell {j}" for w in (0, 1) for j in range(g * g)]
    counts = np.bincount(idx, minlength=len(probs)).tolist()
    rep.count("chi2-tests")
    rep.count("boolbdry:" + node.kind + ("(translated " + inner.kind + ")" if node.kind == "translate" else "") + ":" + case["api"] + (":set_volume" if case["set_volume"] else ""))
    v = chi2_decide(counts, probs, labels)
    if not v["ok"]:
        w = v["worst"]
        share_a = sum(counts[:g * g]) / max(1, len(X))
        fail_law(rep, case, f"boundary of {node.tokens()} ({case['api']}, " + ("exact measure set with set_volume" if case["set_volume"] else "no set_volume") +
                 f"): not uniform in arclength: '{w['cell']}' received {w['observed']} of {v['N']} points, its length share gives {w['expected']} "
                 f"(chi-square {v['stat']} > {v['bound']}); the arc of operand a holds {share_a:.3f} of the samples, its length share is {sum(probs[:g * g]):.3f}",
                 {}, v, extra=dict(counts=counts, probabilities=probs))


def stat_bound(m, p):
    """Bernstein bound (level ALPHA) for the deviation of a Binomial(m, p) count from m p: the random top-up points of a grid"""
    if m <= 0:
        return 0.0
    return math.sqrt(2 * m * p * (1 - p) * L_ALPHA) + 2 * L_ALPHA / 3


def extreme_shape(rng):
    """parallelogram / triangle with an extreme aspect ratio and / or size, any orientation, optionally sheared"""
    L, W = rng.choice([(100, Fr(1, 4)), (Fr(1, 4), 100), (30, Fr(1, 4)), (400, 1), (1, 1), (Fr(1, 256), Fr(1, 256)), (1000, 1000), (3, Fr(1, 8))])
    co, si = rng.choice([(Fr(1), Fr(0)), (Fr(3, 5), Fr(4, 5)), (Fr(0), Fr(1)), (Fr(-4, 5), Fr(3, 5))])
    sh = rng.choice([Fr(0), Fr(0), Fr(1, 2)])
    o = [dy(rng, -2, 2), dy(rng, -2, 2)]
    d1 = [L * co, L * si]
    d2 = [W * (-si) + sh * d1[0], W * co + sh * d1[1]]
    kind = rng.choice(["par", "par", "tri"])
    pf = lambda p: PF([geomgen.c(p[0]), geomgen.c(p[1])])
    return Node(kind, "x", [pf(o), pf([o[0] + d1[0], o[1] + d1[1]]), pf([o[0] + d2[0], o[1] + d2[1]])])


POLYGONS = {
    "strip": [(0, 0), (100, 0), (100, 0.25), (0, 0.25)], "tall-strip": [(0, 0), (0.25, 0), (0.25, 30), (0, 30)],
    "L": [(0, 0), (3, 0), (3, 1), (1, 1), (1, 3), (0, 3)], "quad": [(0, 0), (4, 1), (5, 4), (-1, 2)],
    "unit-square": [(0, 0), (1, 0), (1, 1), (0, 1)], "thin-L": [(0, 0), (40, 0), (40, 1), (1, 1), (1, 40), (0, 40)],
    "tiny-triangle": [(0, 0), (0.01, 0), (0, 0.02)],
}


def poly_edge_partition(vs, P, sub=2):
    """cells of a polygon outline: every edge cut into `sub` equal parts; share = length share"""
    V = np.array(vs, dtype=float)
    E = np.roll(V, -1, axis=0) - V
    ln = np.sqrt((E ** 2).sum(1))
    best_d = np.full(len(P), np.inf); best_e = np.zeros(len(P), dtype=int); best_t = np.zeros(len(P))
    for e in range(len(V)):
        q = P - V[e]
        t = np.clip((q @ E[e]) / (ln[e] ** 2), 0, 1)
        dist = np.sqrt(((q - t[:, None] * E[e]) ** 2).sum(1))
        upd = dist < best_d
        best_d[upd], best_e[upd], best_t[upd] = dist[upd], e, t[upd]
    idx = best_e * sub + np.minimum((best_t * sub).astype(int), sub - 1)
    idx[best_d > 1e-4 * ln.max()] = -1
    tot = ln.sum()
    return idx, [l_ / tot / sub for l_ in ln for _ in range(sub)], [f"edge {e + 1}, part {j + 1}/{sub}" for e in range(len(V)) for j in range(sub)]


def grid_cells_of(case, node, P, env):
    """cells of the evenness oracle: list of (label, count, share, deterministic bound)"""
    n = len(P)
    out = []
    if case.get("poly") and case.get("polybdry"):
        idx, probs, labels = poly_edge_partition(POLYGONS[case["poly"]], P)
        cnts = np.bincount(idx[idx >= 0], minlength=len(probs)).tolist()
        out = [("outside the outline", int((idx < 0).sum()), 0.0, 0.0)] if (idx < 0).any() else []
        return out + [(lb, cnts[j], probs[j], 3.0) for j, lb in enumerate(labels)]
    if case.get("poly"):
        from shapely.geometry import Polygon, box
        poly = Polygon(POLYGONS[case["poly"]])
        x0, y0, x1, y1 = poly.bounds
        for ax, (lo, hi, olo, ohi) in enumerate(((x0, x1, y0, y1), (y0, y1, x0, x1))):
            det = 2 * (math.sqrt(n * (ohi - olo) / (hi - lo)) + 1) + 2
            for m in (2, 4):
                for c in range(m):
                    a, b = lo + (hi - lo) * c / m, lo + (hi - lo) * (c + 1) / m
                    cell = box(a, y0, b, y1) if ax == 0 else box(x0, a, x1, b)
                    cnt = int(((P[:, ax] >= a) & (P[:, ax] < b)).sum())
                    out.append((f"part {c + 1}/{m} of the bounding box along axis {ax}", cnt, poly.intersection(cell).area / poly.area, det))
        return out
    k = node.kind
    if k in ("par", "tri"):
        o, c1, c2 = [pf_np(p, env) for p in node.pfs]
        s_, t_ = _bary(P, o, c1, c2)
        l1 = math.hypot(c1[0] - o[0], c1[1] - o[1]); l2 = math.hypot(c2[0] - o[0], c2[1] - o[1])
        for name, u, li, lo_ in (("first", s_, l1, l2), ("second", t_, l2, l1)):
            for m in (2, 4):
                for c in range(m):
                    a, b = c / m, (c + 1) / m
                    cnt = int(((u >= a - 1e-9) & (u < b - 1e-9)).sum())
                    if k == "par":
                        # Props/C11Grid.lean baryGrid_count_factor: count = (nodes of this axis in [a,b)) * (nodes across), so the
                        # deviation is < 2 * (nodes across) <= 2 (floor(sqrt(n l_other / l_this)) + 1)
                        out.append((f"barycentric {name} coordinate in [{a},{b})", cnt, 1 / m, 2 * (math.floor(math.sqrt(n * lo_ / li)) + 1) + 2))
                    else:
                        out.append((f"barycentric {name} coordinate in [{a},{b})", cnt, (1 - a) ** 2 - (1 - b) ** 2,
                                    3 * (math.sqrt(n * max(l1 / l2, l2 / l1)) + 1)))
        return out
    if k == "circle":
        c, (r,) = pf_np(node.pfs[0], env), pf_np(node.pfs[1], env)
        d = P - np.array(c)
        q = (d ** 2).sum(1) / r ** 2
        ang = np.mod(np.arctan2(d[:, 1], d[:, 0]), 2 * math.pi) / (2 * math.pi)
        det = 1.5 * (math.sqrt(n) + 1)
        out += [(f"(|p-c|/r)^2 in [{j}/2,{j + 1}/2)", int(((q >= j / 2) & (q < (j + 1) / 2 + (1e-9 if j else 0))).sum()), 0.5, det) for j in range(2)]
        out += [(f"angle/2pi in [{j}/4,{j + 1}/4)", int(((ang >= j / 4) & (ang < (j + 1) / 4)).sum()), 0.25, det) for j in range(4)]
        return out
    if k == "sphere":
        c, (r,) = pf_np(node.pfs[0], env), pf_np(node.pfs[1], env)
        d = P - np.array(c)
        det = 2 * (n ** (2 / 3) + 1)
        for ax in range(3):
            out.append((f"half space coordinate {ax} below the centre", int((d[:, ax] < 0).sum()), 0.5, det))
        out.append(("inner ball of half the volume", int((((d ** 2).sum(1)) ** 1.5 / r ** 3 < 0.5).sum()), 0.5, det))
        return out
    if k == "bdry":
        ik = node.kids[0].kind
        inner = node.kids[0]
        if ik == "circle":
            c, (r,) = pf_np(inner.pfs[0], env), pf_np(inner.pfs[1], env)
            d = P - np.array(c)
            ang = np.mod(np.arctan2(d[:, 1], d[:, 0]) + 1e-7, 2 * math.pi) / (2 * math.pi)
            return [(f"arc angle/2pi in [{j}/4,{j + 1}/4)", int(((ang >= j / 4) & (ang < (j + 1) / 4)).sum()), 0.25, 2.0) for j in range(4)]
        if ik == "sphere":
            c, (r,) = pf_np(inner.pfs[0], env), pf_np(inner.pfs[1], env)
            d = (P - np.array(c)) / r
            det = 2 * (math.sqrt(n) + 1)
            for ax in range(3):
                u = (d[:, ax] + 1) / 2
                out += [(f"zone {j + 1}/4 along coordinate {ax} (equal areas, Archimedes)", int(((u >= j / 4) & (u < (j + 1) / 4)).sum()), 0.25, det) for j in range(4)]
            return out
        if ik in ("par", "tri", "interval"):
            idx, probs, labels = nat_partition(node, P, env)
            cnts = np.bincount(idx[idx >= 0], minlength=len(probs)).tolist()
            if (idx < 0).any():
                out.append(("outside the boundary", int((idx < 0).sum()), 0.0, 0.0))
            return out + [(lb, cnts[j], probs[j], 3.0 if ik != "interval" else 1.0) for j, lb in enumerate(labels)]
    raise ValueError("no grid cells for " + k)


def run_gridx(tp, rep, case):
    """evenness of sample_grid / GridSampler for every primitive, primitive boundary and the polygon, on extreme aspect ratios
    and sizes, n from 1 to 1000: every coarse cell holds its share of the n points up to a discretisation bound (theorem for the
    parallelogram mesh, calibrated constants (>= 2x the worst deviation seen on the unchanged tree) otherwise) plus a Bernstein
    bound for the points the code fills up at random (their number is read off the recorded draws)"""
    import torch
    n = case["n"]
    node = geomgen.from_json(case["dom"]) if case.get("dom") else None
    if case.get("poly"):
        from torchphysics.problem.domains.domain2D.shapely_polygon import ShapelyPolygon
        dom = ShapelyPolygon(tp.spaces.R2(nm("x")), vertices=[list(map(float, v)) for v in POLYGONS[case["poly"]]])
        if case.get("polybdry"):
            dom = dom.boundary
        names = ["x"]
    else:
        dom = build_tp(node, tp)
        names = node.vars()
    prows = prows_of(case)
    params = mk_params(tp, case["params"], prows)
    torch.manual_seed(case["seed"])
    dens = None
    with Tape() as tape:
        if case["api"] == "smp.grid":
            res = common.call_with_timeout(TIMEOUT, lambda: tp.samplers.GridSampler(dom, n_points=n).sample_points(params))
        elif case["api"] == "dom.grid.d":
            dens = n / max(float(dom.volume(params).reshape(-1)[0]), 1e-12)       # density that asks for about n points
            res = common.call_with_timeout(TIMEOUT, lambda: dom.sample_grid(d=dens, params=params))
        else:
            res = common.call_with_timeout(TIMEOUT, lambda: dom.sample_grid(n=n, params=params))
    P = np.concatenate([res.coordinates[nm(v)].detach().double().numpy().reshape(len(res), DIM[v]) for v in names], axis=1) / lam()
    what = f"{case['api']}(n={n}) of " + ((f"the outline of the polygon" if case.get("polybdry") else "the polygon") + f" '{case['poly']}'" if case.get("poly") else node.tokens())
    if dens is not None:
        # with a density the number of points is ceil(d * volume) at most (meshes may hold fewer nodes): evenness relative to what came back
        if len(P) > n + 1:
            rep.fail(f"{what} (density {dens:.4g}) returned {len(P)} points, more than ceil(d * volume) = {n}", inp_of(case))
            return
        if len(P) == 0:
            rep.count("gridx:density-grid-empty")
            return
        n = len(P)
    elif len(P) != n:
        rep.fail(f"{what} returned {len(P)} points", inp_of(case))
        return
    if not np.isfinite(P).all():
        rep.fail(f"{what} returned non-finite coordinates", inp_of(case))
        return
    m_rand = max([T.numel() // max(T.shape[-1], 1) for T in tape.of("rand")] + [0])
    env = fenv(prows[0]) if prows else {}
    rep.count("gridx:random-top-up" if m_rand else "gridx:deterministic")
    for label, cnt, share, det in grid_cells_of(case, node, P, env):
        bound = det + stat_bound(min(m_rand, n), share)
        if abs(cnt - n * share) > bound:
            rep.fail(f"{what} is not evenly spread: the cell '{label}' holds {cnt} of the {n} grid points, its share of the measure is "
                     f"{n * share:.1f} (discretisation bound {det:.1f}" + (f" + {bound - det:.1f} for the {m_rand} points filled up at random" if m_rand else "") + ")",
                     inp_of(case), detail=dict(points=P[:40].tolist()))
            return
    rep.count("gridx:even")


def run_poly(tp, rep, case):
    """ShapelyPolygon.sample_random_uniform: chi-square against Shapely cell areas"""
    import torch
    from shapely.geometry import Polygon
    from torchphysics.problem.domains.domain2D.shapely_polygon import ShapelyPolygon
    if case.get("point"):
        # Point: every sample is the point itself (for every n, random and grid)
        pt = [float(Fr(x)) for x in case["point"]]
        sp = {1: tp.spaces.R1, 2: tp.spaces.R2, 3: tp.spaces.R3}[len(pt)](nm({1: "y", 2: "x", 3: "z"}[len(pt)]))
        dom = tp.domains.Point(sp, pt)
        for n in (1, 2, 7):
            for f in (dom.sample_random_uniform, dom.sample_grid):
                t = f(n=n).as_tensor
                if tuple(t.shape) != (n, len(pt)) or not bool((t == torch.tensor(pt)).all()):
                    rep.fail(f"Point({pt}).{f.__name__}(n={n}) returned {t.tolist()[:3]}", inp_of(case))
                    return
        rep.count("point:dirac")
        return
    vs = POLYGONS[case["poly"]]
    dom = ShapelyPolygon(tp.spaces.R2(nm("x")), vertices=[list(map(float, v)) for v in vs])
    prows = prows_of(case)
    params = mk_params(tp, case["params"], prows)
    kk = max(len(prows), 1)
    N = case["N"]
    torch.manual_seed(case["seed"])
    target = dom.boundary if case.get("polybdry") else dom
    if case.get("api") == "smp.n":
        res = common.call_with_timeout(TIMEOUT, lambda: tp.samplers.RandomUniformSampler(target, n_points=N).sample_points(params))
    else:
        res = common.call_with_timeout(TIMEOUT, lambda: target.sample_random_uniform(n=N, params=params))
    Xall = res.coordinates[nm("x")].detach().double().numpy()
    what = ("outline of the polygon" if case.get("polybdry") else "ShapelyPolygon") + f" '{case['poly']}'"
    if len(Xall) != N * kk:
        rep.fail(f"{what}: sample_random_uniform(n={N}) returned {len(Xall)} rows for {len(prows)} parameter rows", inp_of(case))
        return
    poly = Polygon(vs)
    for i in range(kk):          # the rows i*N ... (i+1)*N - 1 belong to parameter row i: each block must follow the law
        X = Xall[i * N:(i + 1) * N]
        rowtxt = f" (rows of parameter row {i + 1} of {kk})" if kk > 1 else ""
        rep.count("chi2-tests")
        if case.get("polybdry"):
            idx, probs, labels = poly_edge_partition(vs, X, sub=3)
            if (idx < 0).any():
                rep.fail(f"{what}{rowtxt}: {int((idx < 0).sum())} of {N} sampled points lie off the outline", inp_of(case))
                return
        else:
            g = 6
            cells, bounds = grid_cells(poly, 2, g)
            probs = [poly.intersection(c).area / poly.area for c in cells]
            idx = grid_index(X, bounds, 2, g)
            labels = [f"grid cell {j} of the 6x6 partition of the bounding box" for j in range(len(probs))]
        v = chi2_decide(np.bincount(idx, minlength=len(probs)).tolist(), probs, labels)
        if not v["ok"]:
            w = v["worst"]
            fail_law(rep, case, f"{what}{rowtxt}: the sample is not uniform: '{w['cell']}' received {w['observed']} of {v['N']} points, its share of the "
                     f"measure gives {w['expected']} (chi-square {v['stat']} > {v['bound']})", row_env_json(case, i), v)
            return
    rep.count("poly:rows-uniform" + (":several-parameter-rows" if kk > 1 else ""))


# =============================================================================================

def run(ctx, rep, cases=None):
    rep.rule = ("tape: primitives and primitive boundaries (slanted / clockwise / parameter-dependent, 0-3 parameter rows, n in 1..40); law: the same "
                "plus translated / rotated ones, N points per parameter row on the natural partition (exact cell probabilities); csg: union (disjoint, "
                "exact operand volumes) / cut / intersection / translate / rotate nestings of depth <= 3 (thorough 4) against Shapely cell measures; "
                "union: overlapping and disjoint two-operand unions; prod: independent and dependent products primitive x interval; lhs, gauss: "
                "axis-parallel boxes; grid: intervals.  non-trivial = parameter dependent, moved, boundary, or an operation node; distinct = distinct "
                "(kind, expression, parameter rows, sizes)")
    tp = common.use_repo()
    import warnings
    import torch
    warnings.filterwarnings("ignore")
    torch.set_num_threads(min(4, torch.get_num_threads()))      # several checks may run side by side
    if cases is None:
        cases = make_cases(ctx)
    lines, plan = [], []       # plan: (case, callable taking its replies, number of replies)
    tape_retry = []
    for cs in cases:
        node = geomgen.from_json(cs["dom"]) if cs.get("dom") else Node("par", "x", [PF([geomgen.c(0), geomgen.c(0)])] * 3)
        kind = cs["kind"]
        rep.count("kind:" + kind + (":" + cs["flavour"] if "flavour" in cs else "") + (":set_bounding_box" if cs.get("setbox") else "") + (":set_volume-on-operand" if cs.get("setvol_operands") else ""))
        if "wrap" in cs:
            rep.count("prod-first-factor:" + cs["wrap"])
        for kd in set(node.kinds()):
            rep.count("node:" + kd)
        rep.count("param-rows:%d" % len(cs["prows"]))
        nontrivial = node.depth() > 1 or bool(node.free_vars())
        rep.case(dict(kind=kind, dom=cs["dom"], prows=cs["prows"], n=cs.get("n"), N=cs.get("N"), api=cs.get("api")), nontrivial,
                 sample=dict(kind=kind, expression=node.tokens(), parameter_rows=cs["prows"], sizes={k: cs[k] for k in ("n", "N", "api", "n_small", "calls", "m") if k in cs}),
                 kind=kind)
        my_lines, posts = [], []
        set_naming(cs)
        if cs.get("names"):
            rep.count("naming:" + "/".join(sorted(set(cs["names"].values()))))
        if cs.get("scale"):
            rep.count("length-scale:%.0e" % float(Fr(cs["scale"])) + ":" + kind)
        if cs.get("numstyle"):
            rep.count("number-style:" + cs["numstyle"] + ":" + kind)
        if cs.get("int_box"):
            rep.count("lhs-integer-box:" + cs["int_box"])
        _t0 = time.time()
        try:
            if kind == "tape":
                out = run_tape(tp, cs, my_lines)
                my_lines = out["reqs"]
                posts = [("all", lambda replies, cs=cs, out=out: judge_tape(rep, cs, out, replies, tape_retry))]
            elif kind == "law":
                run_law(tp, rep, cs)
            elif kind == "csg":
                run_csg(tp, rep, cs)
                run_sel(tp, rep, cs, my_lines, posts)
            elif kind == "union":
                run_union(tp, rep, cs, my_lines, posts)
            elif kind == "prod":
                run_prod(tp, rep, cs, my_lines, posts)
            elif kind == "prod1":
                run_prod1(tp, rep, cs)
            elif kind == "lhs":
                run_lhs(tp, rep, cs, my_lines, posts)
            elif kind == "gauss":
                run_gauss(tp, rep, cs, my_lines, posts)
            elif kind == "grid":
                run_grid(tp, rep, cs, my_lines, posts)
            elif kind == "boolbdry":
                run_boolbdry(tp, rep, cs)
            elif kind == "evalhist":
                run_evalhist(tp, rep, cs, my_lines, posts)
            elif kind == "gridx":
                run_gridx(tp, rep, cs)
            elif kind == "poly":
                run_poly(tp, rep, cs)
            else:
                raise ValueError(kind)
        except DegenerateCase as e:
            rep.count("generator:degenerate-case-skipped")
            rep.notes.append(f"{kind} case {cs.get('id')} skipped: {e}")
            continue
        except common.CallTimeout:
            rep.fail(f"{kind} case: the sampling call did not return within {TIMEOUT}s on a domain of positive measure", inp_of(cs))
            continue
        except RowCount as e:
            rep.fail(f"{kind} case: {e}", inp_of(cs))
            continue
        except common.HarnessTrouble:
            raise
        except Exception as e:  # noqa — the library raised on a well-formed input
            import traceback
            tb = traceback.extract_tb(e.__traceback__)
            in_lib = any("torchphysics" in fr.filename for fr in tb)
            if not in_lib:
                raise
            rep.fail(f"{kind} case: the library raised {type(e).__name__}: {str(e)[:200]}", inp_of(cs))
            continue
        rep.hist["seconds:" + kind] = round(rep.hist.get("seconds:" + kind, 0) + time.time() - _t0, 2)
        plan.append((len(lines), len(my_lines), posts))
        lines += my_lines
    try:
        replies = common.run_driver("C11", lines)
    except common.DriverFailure:
        raise
    for start, cnt, posts in plan:
        rs = replies[start:start + cnt]
        pos = 0
        for p in posts:
            if isinstance(p, tuple) and p[0] == "all":
                p[1](rs)
            elif isinstance(p, tuple):
                f, k = p
                f(*rs[pos:pos + k]); pos += k
            else:
                p(rs[pos]); pos += 1
    for job in _EVAL_RETRY:            # evaluated copies: a tape mismatch is reported as it is (the law test of the same step decides)
        case_, out_ = job["case"], job["out"]
        if job["why"] == "values":
            r_ = job["row"]
            rep.disagree("tape correspondence of an evaluated domain: the copy D(t=v) must return the parent's point at the row rho ++ {t: v}",
                         dict(inp_of(case_), request=out_["reqs"][r_], row=r_), [float(x) for x in out_["X"][r_]], job["model"])
    del _EVAL_RETRY[:]
    if tape_retry:
        resolve_tape_retries(tp, rep, tape_retry)


def replay(ctx, obj):
    rep = common.Report(ctx)
    lean = common.lean_check("C11")
    inp = (obj.get("failing_input") or obj.get("first"))["input"]
    case = {k: v for k, v in inp.items() if k not in ("expression", "request", "row", "axis", "parameter_row")}
    run(ctx, rep, [case])
    return common.finish(ctx, rep, lean)
