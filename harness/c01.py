"""C01 — every sampled point lies in the domain it was sampled from.

Three layers, all on every run:
  * tape correspondence (primitives, their boundaries, random + grid): the uniform draws of one call are
    recorded by patching torch.rand; the Lean driver (`prim` / `grid`, Float) computes the same points with
    the parametrisations the theorems are about; coordinates are compared with a float32 tolerance.
  * selection correspondence (cut / intersection rejection loops): operands are wrapped in recording proxy
    domains; the driver (`inside`, `n1`) must reproduce exactly the requested counts and the indices of
    the returned proposals.
  * property oracle on EVERY returned row of every case: the Lean signed margin `sd` of the expression
    (Props/C01.lean: sd > 0 => member of the denoted set, sd < 0 => not a member) evaluated in exact rational
    arithmetic on the float32 coordinates with the row's own parameter row: interior samples need
    sd >= -EPS, boundary samples |sd| <= EPS.  NaN / inf coordinates, exceptions on well-formed input and
    calls that do not return within TIMEOUT seconds are failing inputs too."""
import json
import math
from fractions import Fraction as Fr
from unittest import mock

import common
import geomgen
from geomgen import DIM, Gen, Node, env_tokens

EPS = Fr(1, 5000)        # normalised slack tolerated for float32 outputs (2e-4)
TIMEOUT = 6              # seconds per library call
CTOL = 5e-5              # tape correspondence: |impl - model| <= CTOL * max(1, |model|)
PRIMS = ("interval", "par", "tri", "circle", "sphere")


# ---------------------------------------------------------------------------------------------
# float evaluation of expressions (generator-side validity filter only; never an oracle)

def _pf(p, env):
    return [float(x) for x in p.eval(env)]


def sd_float(node, pt, env):
    """float version of Lean `sd` (positive inside); pt: dict var -> [float]; env: dict name -> [Fraction]"""
    k = node.kind
    e = dict(env)
    for kk, vv in pt.items():
        e[kk] = [Fr(x) for x in vv]
    if k == "interval":
        (l,), (u,) = _pf(node.pfs[0], e), _pf(node.pfs[1], e)
        x = pt[node.var][0]
        w = abs(u - l) or 1.0
        return min((x - l) / w, (u - x) / w)
    if k in ("par", "tri"):
        o, c1, c2 = [_pf(p, e) for p in node.pfs]
        d1 = (c1[0] - o[0], c1[1] - o[1]); d2 = (c2[0] - o[0], c2[1] - o[1])
        det = d1[0] * d2[1] - d1[1] * d2[0]
        qx, qy = pt[node.var][0] - o[0], pt[node.var][1] - o[1]
        s = (d2[1] * qx - d2[0] * qy) / det
        t = (d1[0] * qy - d1[1] * qx) / det
        return min(s, 1 - s, t, 1 - t) if k == "par" else min(s, t, 1 - s - t)
    if k in ("circle", "sphere"):
        c, (r,) = _pf(node.pfs[0], e), _pf(node.pfs[1], e)
        d2 = sum((a - b) ** 2 for a, b in zip(pt[node.var], c))
        return min((r * r - d2) / ((r * r) or 1.0), r)
    if k == "union":
        return max(sd_float(node.kids[0], pt, env), sd_float(node.kids[1], pt, env))
    if k in ("inter", "prod"):
        return min(sd_float(node.kids[0], pt, env), sd_float(node.kids[1], pt, env))
    if k == "cut":
        return min(sd_float(node.kids[0], pt, env), -sd_float(node.kids[1], pt, env))
    if k in ("translate", "rotate"):
        # the point's other coordinates (a product partner's) are handed down as parameters (/repo 414d4d6)
        env2 = dict(env)
        for kk, vv in pt.items():
            if kk != node.var:
                env2[kk] = [Fr(x) for x in vv]
    if k == "translate":
        t = _pf(node.pfs[0], e)
        return sd_float(node.kids[0], {node.var: [a - b for a, b in zip(pt[node.var], t)]}, env2)
    if k == "rotate":
        m, c = _pf(node.pfs[0], e), _pf(node.pfs[1], e)
        det = m[0] * m[3] - m[1] * m[2]
        qx, qy = pt[node.var][0] - c[0], pt[node.var][1] - c[1]
        return sd_float(node.kids[0], {node.var: [(m[3] * qx - m[1] * qy) / det + c[0], (m[0] * qy - m[2] * qx) / det + c[1]]}, env2)
    if k == "bdry":
        return sd_float(node.kids[0], pt, env)
    raise ValueError(k)


def bbox_float(node, env):
    k = node.kind
    if k == "interval":
        return [(_pf(node.pfs[0], env)[0], _pf(node.pfs[1], env)[0])]
    if k in ("par", "tri"):
        o, c1, c2 = [_pf(p, env) for p in node.pfs]
        cs = [o, c1, c2] + ([[c1[0] + c2[0] - o[0], c1[1] + c2[1] - o[1]]] if k == "par" else [])
        return [(min(c[i] for c in cs), max(c[i] for c in cs)) for i in range(2)]
    if k in ("circle", "sphere"):
        c, (r,) = _pf(node.pfs[0], env), _pf(node.pfs[1], env)
        return [(x - r, x + r) for x in c]
    if k == "union":
        a, b = bbox_float(node.kids[0], env), bbox_float(node.kids[1], env)
        return [(min(x[0], y[0]), max(x[1], y[1])) for x, y in zip(a, b)]
    if k in ("cut", "inter", "bdry"):
        return bbox_float(node.kids[0], env)
    if k == "translate":
        t = _pf(node.pfs[0], env)
        return [(lo + s, hi + s) for (lo, hi), s in zip(bbox_float(node.kids[0], env), t)]
    if k == "rotate":
        m, c = _pf(node.pfs[0], env), _pf(node.pfs[1], env)
        (x0, x1), (y0, y1) = bbox_float(node.kids[0], env)
        cs = [(m[0] * (x - c[0]) + m[1] * (y - c[1]) + c[0], m[2] * (x - c[0]) + m[3] * (y - c[1]) + c[1])
              for x in (x0, x1) for y in (y0, y1)]
        return [(min(p[i] for p in cs), max(p[i] for p in cs)) for i in range(2)]
    raise ValueError(k)


def fraction_inside(node, env, margin=0.02):
    """share of a lattice over the node's box that is robustly inside"""
    box = bbox_float(node, env)
    dim = len(box)
    m = {1: 48, 2: 14, 3: 7}[dim]
    var = node.vars()[0]
    cnt = tot = 0
    import itertools
    for idx in itertools.product(range(m), repeat=dim):
        p = [lo + (hi - lo) * (i + 0.5) / m for (lo, hi), i in zip(box, idx)]
        tot += 1
        if sd_float(node, {var: p}, env) > margin:
            cnt += 1
    return cnt / tot


def nondeg_float(node, envs):
    """radii and interval lengths stay positive at every environment (a negative radius is malformed input)"""
    for env in envs:
        if node.kind in ("circle", "sphere") and _pf(node.pfs[1], env)[0] < 0.1:
            return False
        if node.kind == "interval" and _pf(node.pfs[1], env)[0] - _pf(node.pfs[0], env)[0] < 0.1:
            return False
    return all(nondeg_float(k, envs) for k in node.kids)


def certified(node, envs, need=0.05):
    """positive measure of every Boolean node (and its operands) at every parameter row"""
    if node.kind in ("union", "cut", "inter"):
        for env in envs:
            if fraction_inside(node, env) < need:
                return False
    if node.kind == "prod":
        return True
    return all(certified(k, envs, need) for k in node.kids)


# ---------------------------------------------------------------------------------------------
# case generation

def gen_prows(rng, params, k):
    return [{p: [Fr(rng.randint(0, 16), 16)] for p in params} for _ in range(k)]


def prows_json(prows):
    return [{p: [str(x) for x in v] for p, v in r.items()} for r in prows]


def prows_of(case):
    return [{p: [Fr(x) for x in v] for p, v in r.items()} for r in case["prows"]]


def gauss_mean(node, prows):
    """a lattice point that is robustly inside the domain at every parameter row (else None)"""
    import itertools
    envs = [dict(r) for r in prows] or [{}]
    box = bbox_float(node, envs[0])
    var = node.vars()[0]
    m = {1: 32, 2: 12, 3: 6}[len(box)]
    best, bestv = None, 0.05
    for idx in itertools.product(range(m), repeat=len(box)):
        p = [round(lo + (hi - lo) * (i + 0.5) / m, 3) for (lo, hi), i in zip(box, idx)]
        v = min(sd_float(node, {var: p}, e) for e in envs)
        if v > bestv:
            best, bestv = p, v
    return best


def cert_envs(node, prows, params):
    """environments at which positive measure is certified: the case's own parameter rows; for a product the
    second factor's variable ranges over its interval"""
    envs = [dict(r) for r in prows] or [{}]
    if node.kind == "prod":
        out = []
        for e in envs:
            (l,), (u,) = node.kids[1].pfs[0].eval(e), node.kids[1].pfs[1].eval(e)
            for i in range(5):
                out.append(dict(e, s=[l + (u - l) * Fr(i, 4)]))
        envs = out
    return envs


def gen_thin(rng, params):
    """cuts / intersections with a small area share (0.1 % - 6 %), positive by construction: thin annulus, a plug over
    the first grid point of A, a thin lens; optionally moved.  They make the first grid of the grid paths empty."""
    from geomgen import c as C, PF, dy
    cx, cy = dy(rng, -2, 2), dy(rng, -2, 2)
    r = dy(rng, 0.5, 2)
    kind = rng.choice(["annulus", "annulus", "plug-circle", "plug-par", "lens"])
    circ = lambda x, y, rr: Node("circle", "x", [PF([C(x), C(y)]), PF([C(rr)])])
    if kind == "annulus":
        rho = rng.choice([Fr(9, 10), Fr(15, 16), Fr(31, 32), Fr(63, 64)])
        node = Node("cut", None, [], [circ(cx, cy, r), circ(cx, cy, r * rho)])
    elif kind == "plug-circle":
        # the n = 1 sunflower point of A sits at radius r*sqrt(1/3), angle 2*pi/golden ratio
        import math
        ang = 2 * math.pi / ((math.sqrt(5) + 1) / 2)
        px = cx + Fr(round(float(r) * math.sqrt(1 / 3) * math.cos(ang) * 64), 64)
        py = cy + Fr(round(float(r) * math.sqrt(1 / 3) * math.sin(ang) * 64), 64)
        node = Node("cut", None, [], [circ(cx, cy, r), circ(px, py, r / 4)])
    elif kind == "plug-par":
        d1, d2 = [dy(rng, 1, 3), dy(rng, -1, 1)], [dy(rng, -1, 1), dy(rng, 1, 3)]
        par = Node("par", "x", [PF([C(cx), C(cy)]), PF([C(cx + d1[0]), C(cy + d1[1])]), PF([C(cx + d2[0]), C(cy + d2[1])])])
        node = Node("cut", None, [], [par, circ(cx + (d1[0] + d2[0]) / 2, cy + (d1[1] + d2[1]) / 2, Fr(3, 8))])
    else:
        delta = rng.choice([Fr(1, 4), Fr(1, 8), Fr(1, 16)]) * r
        node = Node("inter", None, [], [circ(cx, cy, r), circ(cx + 2 * r - delta, cy, r)])
    w = rng.random()
    if w < 0.25:
        t = [C(dy(rng, -2, 2)), C(dy(rng, -2, 2))]
        if params and rng.random() < 0.6:
            t[0] = ("+", t[0], ("*", C(dy(rng, -1, 1, 4) or Fr(1, 2)), ("v", params[0], 0)))
        node = Node("translate", "x", [PF(t)], [node])
    elif w < 0.4:
        co, si = rng.choice([(Fr(3, 5), Fr(4, 5)), (Fr(0), Fr(1)), (Fr(-4, 5), Fr(-3, 5))])
        node = Node("rotate", "x", [PF([C(co), C(-si), C(si), C(co)]), PF([C(dy(rng, -1, 1)), C(dy(rng, -1, 1))])], [node])
    return node


def gen_bool1d(rng, params):
    """disconnected / nested 1-D domains: interval with an interior hole, two disjoint intervals, their nestings and an
    intersection; pieces and holes may move with a parameter (all pieces keep their order for parameter values in [0, 1])"""
    from geomgen import c as C, PF, dy
    base = dy(rng, -2, 1)
    mv = (lambda: ("*", C(Fr(rng.choice([-1, 1, 2]), 8)), ("v", rng.choice(params), 0))) if params and rng.random() < 0.7 else None
    shift = mv() if mv else None

    def iv(a, b, moving=True):
        lo, hi = C(base + a), C(base + b)
        if shift is not None and moving:
            lo, hi = ("+", lo, shift), ("+", hi, shift)
        return Node("interval", "y", [PF([lo]), PF([hi])])
    kind = rng.choice(["hole", "hole", "disjoint", "disjoint", "two-holes", "union-minus-hole", "inter"])
    if kind == "hole":
        return Node("cut", None, [], [iv(0, 3, moving=rng.random() < 0.5), iv(1, 2)])
    if kind == "disjoint":
        return Node("union", None, [], [iv(0, 1), iv(2, 3)])
    if kind == "two-holes":
        return Node("cut", None, [], [Node("cut", None, [], [iv(0, 5, moving=False), iv(1, 2)]), iv(3, 4)])
    if kind == "union-minus-hole":
        return Node("cut", None, [], [Node("union", None, [], [iv(0, 2), iv(3, 5)]), iv(Fr(1, 2), Fr(3, 2))])
    return Node("inter", None, [], [Node("union", None, [], [iv(0, 1), iv(2, 3)]), iv(Fr(1, 2), Fr(5, 2), moving=False)])


def scale_node(node, sigma):
    """the same expression at another length scale: every length / position is multiplied by sigma (a power of two, so
    that all values stay exactly representable); rotation matrices are left alone"""
    from geomgen import PF
    out = Node(node.kind, node.var, [], [scale_node(kid, sigma) for kid in node.kids], node.flags)
    for i, pf in enumerate(node.pfs):
        if node.kind == "rotate" and i == 0:
            out.pfs.append(pf)
        else:
            out.pfs.append(PF([("*", ("c", Fr(sigma)), t) for t in pf.terms]))
    return out


SCALES = [Fr(1, 2 ** 20), Fr(1, 2 ** 20), Fr(1, 2 ** 10), Fr(2 ** 10), Fr(2 ** 20), Fr(2 ** 20)]      # 1e-6 ... 1e6


def gen_expr(ctx, mode, params, prows):
    """returns a Node (validated for positive measure) or None"""
    rng = ctx.rng
    if mode == "thin":
        return gen_thin(rng, params)
    if mode == "bool1d":
        return gen_bool1d(rng, params)
    for _ in range(40):
        g = Gen(rng, params=params, p_dep=0.7 if mode in ("prim", "primbdry") else 0.4)
        depth = rng.choice([2, 2, 3]) if ctx.quick else rng.choice([2, 3, 3, 4])
        if mode == "prim":
            var = rng.choice(["x", "x", "x", "y", "z"])
            node = g.prim(var)
        elif mode == "primbdry":
            var = rng.choice(["x", "x", "x", "y", "z"])
            inner = g.prim(var)
            kind = rng.choice(["bdry", "bdry", "bdryL", "bdryR"]) if var == "y" else "bdry"
            node = Node(kind, None, [], [inner])
        elif mode in ("solid", "bdry", "sel"):
            var = rng.choice(["x", "x", "x", "x", "y", "z"])
            if var != "x":
                g.allow_rotate = False
                depth = 2
            if mode == "sel":
                a, b = g.solid(depth - 1, var), g.solid(depth - 1, var)
                node = Node(rng.choice(["cut", "inter"]), None, [], [a, b])
            else:
                node = g.solid(depth, var)
                if node.is_prim():
                    continue
            if mode == "bdry":
                node = Node("bdry", None, [], [node])
        elif mode == "prod":
            gb = Gen(rng, params=params)
            b = gb.prim1("s")
            dep = rng.random() < 0.6
            ga = Gen(rng, params=params + (["s"] if dep else []), p_dep=0.6 if dep else 0.4,
                     allow_translate=True, allow_rotate=True)
            a = ga.solid(rng.choice([1, 1, 2]), "x")
            node = Node("prod", None, [], [a, b])
        else:
            raise ValueError(mode)
        try:
            envs = cert_envs(node, prows, params)
            if not nondeg_float(node.kids[1] if node.kind == "prod" else node, [dict(r) for r in prows] or [{}]):
                continue
            if node.kind == "prod" and not nondeg_float(node.kids[0], envs):
                continue
            if certified(node.kids[0] if node.kind == "prod" else node, envs):
                return node
        except ZeroDivisionError:
            continue
    return None


N_CHOICES = [1, 2, 3, 7, 40]


def fixed_cases(ctx, start):
    """situations that get a FIXED share of every run instead of being left to the draw (each was needed by a seeded change
    that the random stream caught only sometimes):
      (1) boundary of an OVERLAPPING union sampled through the one-point-per-row path (n = 1, several parameter rows) — the loop
          `_random_boundary_points_if_n_eq_1` must test proposals with the boundary test, not with membership in the union;
      (2) intersection with a TINY parallelogram partner (length scale 2^-20) inside a much larger first operand — almost every
          proposal has to be rejected by the partner's membership test at that scale."""
    from geomgen import c as C, PF, dy
    rng = ctx.rng
    out = []
    reps = ctx.scale(8, 40)
    for j in range(reps):
        # (1) two overlapping shapes: B's centre sits on A's rim region
        cx, cy, r = dy(rng, -2, 2), dy(rng, -2, 2), dy(rng, 0.75, 2)
        mv = ("*", C(Fr(rng.choice([1, 2, -1]), 4)), ("v", "t", 0))
        a = Node("circle", "x", [PF([("+", C(cx), mv), C(cy)]), PF([C(r)])])
        if j % 2:
            b = Node("circle", "x", [PF([("+", C(cx + r * Fr(3, 4)), mv), C(cy + r / 4)]), PF([C(r * Fr(3, 4))])])
        else:
            b = Node("par", "x", [PF([("+", C(cx), mv), C(cy - r / 2)]), PF([("+", C(cx + 2 * r), mv), C(cy)]), PF([("+", C(cx), mv), C(cy + r)])])
        node = Node("bdry", None, [], [Node("union", None, [], [a, b] if j % 4 < 2 else [b, a])])
        k = rng.choice([2, 3])
        prows = gen_prows(rng, ["t"], k)
        out.append(dict(id=start + len(out), mode="bdry", dom=node.describe(), params=["t"], prows=prows_json(prows),
                        call=dict(api=rng.choice(["dom.random", "smp.uniform"]), n=1), seed=rng.randint(0, 2 ** 31 - 1)))
    for j in range(reps):
        # (2) tiny parallelogram inside a disc of three times its size, both at scale 2^-20 (every second one at 2^-20 exactly)
        sigma = Fr(1, 2 ** 20)
        o = [dy(rng, -2, 2), dy(rng, -2, 2)]
        while True:
            d1, d2 = [dy(rng, -2, 2), dy(rng, -2, 2)], [dy(rng, -2, 2), dy(rng, -2, 2)]
            if abs(d1[0] * d2[1] - d1[1] * d2[0]) >= 1:
                break
        par = Node("par", "x", [PF([C(o[0]), C(o[1])]), PF([C(o[0] + d1[0]), C(o[1] + d1[1])]), PF([C(o[0] + d2[0]), C(o[1] + d2[1])])])
        ctr = [o[0] + (d1[0] + d2[0]) / 2, o[1] + (d1[1] + d2[1]) / 2]
        disc = Node("circle", "x", [PF([C(ctr[0]), C(ctr[1])]), PF([C(Fr(6))])])
        node = scale_node(Node("inter", None, [], [disc, par]), sigma)
        api = ["dom.random", "smp.uniform", "sel.random", "smp.lhs"][j % 4]
        out.append(dict(id=start + len(out), mode="sel" if api.startswith("sel.") else "solid", dom=node.describe(), params=[], prows=[],
                        call=dict(api=api, n=rng.choice([2, 7, 20]), scale=str(sigma)), seed=rng.randint(0, 2 ** 31 - 1)))
    return out


def make_case(ctx, idx):
    rng = ctx.rng
    mode = rng.choice(["prim", "prim", "primbdry", "primbdry", "solid", "solid", "solid", "solid", "bdry", "bdry", "prod", "sel", "sel", "thin", "thin",
                       "bool1d", "bool1d", "scaledsel", "scaledsel", "scaledsel"])
    params = rng.choice([[], ["t"], ["t"], ["t", "D"]])
    force_scale = None
    if mode == "scaledsel":
        # rejection against a parallelogram / triangle partner at an extreme length scale
        mode, force_scale = "sel", rng.choice([Fr(1, 2 ** 20), Fr(1, 2 ** 20), Fr(2 ** 20)])
    k = rng.choice([1, 2, 3]) if params else 0
    if mode == "prod":
        k = min(k, 1)     # row counts of products with several parameter rows are C02's (known finding there)
    prows = gen_prows(rng, params, k)
    node = gen_expr(ctx, mode, params, prows)
    if node is None:
        return None
    if force_scale is not None and node.kids[1].kind not in ("par", "tri"):
        return None
    n = rng.choice(N_CHOICES)
    if mode == "prim":
        api = rng.choice(["dom.random", "dom.random", "dom.grid", "dom.random.d", "dom.grid.d", "smp.uniform", "smp.grid", "smp.lhs", "smp.gauss",
                          "smp.adaptive"])
    elif mode == "primbdry":
        api = rng.choice(["dom.random", "dom.random", "dom.grid", "dom.random.d", "dom.grid.d", "smp.uniform", "smp.grid"])
    elif mode == "thin":
        api = rng.choice(["dom.grid", "dom.grid", "smp.grid", "dom.random", "smp.uniform"])
    elif mode == "sel":
        api = rng.choice(["sel.random", "sel.random", "sel.grid"])
    elif mode == "bool1d":
        # every sampler kind on disconnected 1-D domains
        api = rng.choice(["smp.lhs", "smp.lhs", "smp.gauss", "smp.uniform", "smp.grid", "smp.adaptive", "smp.uniform.f", "smp.grid.f",
                          "dom.random", "dom.grid", "dom.random.d", "smp.uniform.d"])
    elif mode == "prod":
        api = rng.choice(["dom.random", "dom.random", "dom.random.d", "smp.uniform"])
    elif mode == "bdry":
        api = rng.choice(["dom.random", "dom.random", "dom.grid", "dom.random.d", "dom.grid.d", "smp.uniform", "smp.grid", "smp.uniform.f"])
    else:
        api = rng.choice(["dom.random", "dom.random", "dom.grid", "dom.random.d", "dom.grid.d", "smp.uniform", "smp.uniform.d",
                          "smp.uniform.f", "smp.grid", "smp.grid.f", "smp.gauss", "smp.lhs", "smp.adaptive", "smp.adaptive"])
    call = dict(api=api, n=n)
    if api.endswith(".d"):
        call["d"] = 10.0 if mode == "prod" else rng.choice([0.5, 3.7, 10.0])
        k = min(k, 1) if api.startswith("dom.") else k
    if api in ("dom.grid", "sel.grid") :
        k = min(k, 1)           # domain-level grids are per parameter row (GridSampler loops over rows)
        call["n"] = rng.choice([1, 2, 3, 7, 12, 40, 100])
    if api.startswith("smp.grid"):
        call["n"] = rng.choice([1, 2, 3, 7, 12, 40])
    if mode == "thin":
        call["n"] = rng.choice([1, 1, 2, 3, 5, 8, 10])      # small n: the first grid of the grid paths is empty
    if api.endswith(".f"):
        # half-space through the centre of the domain's box at the first parameter row
        col = rng.choice([0, 1]) if DIM[node.vars()[0]] > 1 else 0
        box = bbox_float(node, prows[0] if prows else {})
        thr = Fr(round(8 * (box[col][0] + box[col][1]) / 2), 8)
        call["filter"] = [col, str(thr), rng.choice([0, 1])]
    if api == "smp.gauss":
        call["std"] = rng.choice([0.5, 1.0, 2.0])
        mean = gauss_mean(node, prows[:k])
        if mean is None:
            call["api"] = api = "smp.uniform"
        else:
            call["mean"] = mean
    prows = prows[:k]
    # length scales 1e-6 ... 1e6: the whole expression (and everything measured in its units) is scaled; membership is judged
    # exactly in the scaled frame (the signed margin is scale-free)
    if mode in ("prim", "primbdry", "solid", "bdry", "sel", "bool1d") and (force_scale is not None or rng.random() < 0.35):
        sigma = force_scale or rng.choice(SCALES)
        node = scale_node(node, sigma)
        call["scale"] = str(sigma)
        if call["api"].endswith(".d"):
            call["api"] = call["api"][:-2]          # a density is not scale-free: use the count form
            call.pop("d", None)
        if "filter" in call:
            call["filter"][1] = str(Fr(call["filter"][1]) * sigma)
        if "mean" in call:
            call["mean"] = [m * float(sigma) for m in call["mean"]]
            call["std"] = call["std"] * float(sigma)
    return dict(id=idx, mode=mode, dom=node.describe(), params=params, prows=prows_json(prows), call=call,
                seed=rng.randint(0, 2 ** 31 - 1))


# ---------------------------------------------------------------------------------------------
# implementation side

def mk_params(tp, names, prows):
    import torch
    if not names or not prows:
        return tp.spaces.Points.empty()
    sp = None
    for p in names:
        s = tp.spaces.R1(p)
        sp = s if sp is None else sp * s
    return tp.spaces.Points(torch.tensor([[float(r[p][0]) for p in names] for r in prows], dtype=torch.float32), sp)


class Tape:
    """records torch.rand / rand_like results of one call"""

    def __init__(self):
        self.draws = []

    def __enter__(self):
        import torch
        self._rand, self._rand_like = torch.rand, torch.rand_like
        tape = self

        def rand(*a, **k):
            r = tape._rand(*a, **k)
            tape.draws.append(r.clone())
            return r

        def rand_like(*a, **k):
            r = tape._rand_like(*a, **k)
            tape.draws.append(r.clone())
            return r
        self._p = [mock.patch("torch.rand", rand), mock.patch("torch.rand_like", rand_like)]
        for p in self._p:
            p.start()
        return self

    def __exit__(self, *exc):
        for p in self._p:
            p.stop()
        return False


def make_filter(spec, var):
    col, thr, sense = spec
    thr = float(Fr(thr))
    import torch
    src = f"def _flt({var}):\n    return ({var}[:, {col}:{col + 1}] {'>=' if sense else '<='} {thr!r})\n"
    ns = {"torch": torch}
    exec(src, ns)
    return ns["_flt"]


def build_proxy_class(tp):
    from torchphysics.problem.domains.domain import Domain
    Points = tp.spaces.Points

    class Proxy(Domain):
        """delegates to `inner`, logging every sampling call and membership answer"""

        def __init__(self, inner, log, tag):
            self.inner, self.log, self.tag = inner, log, tag
            self.space, self.dim = inner.space, inner.dim
            self.necessary_variables = inner.necessary_variables
            self._user_volume = None

        def sample_random_uniform(self, n=None, d=None, params=Points.empty(), device="cpu"):
            r = self.inner.sample_random_uniform(n=n, d=d, params=params, device=device)
            self.log.append((self.tag, "rand", n, len(params), r.as_tensor.clone(), params.as_tensor.clone() if len(params) else None))
            return r

        def sample_grid(self, n=None, d=None, params=Points.empty(), device="cpu"):
            r = self.inner.sample_grid(n=n, d=d, params=params, device=device)
            self.log.append((self.tag, "grid", n, len(params), r.as_tensor.clone(), params.as_tensor.clone() if len(params) else None))
            return r

        def _contains(self, points, params=Points.empty()):
            r = self.inner._contains(points, params)
            self.log.append((self.tag, "contains", None, len(params), r.reshape(-1).clone(), None))
            return r

        def _get_volume(self, params=Points.empty(), device="cpu"):
            return self.inner.volume(params, device=device)

        def bounding_box(self, params=Points.empty(), device="cpu"):
            return self.inner.bounding_box(params, device=device)

        @property
        def boundary(self):
            return Proxy(self.inner.boundary, self.log, self.tag + ".bdry")
    return Proxy


def run_impl(case):
    """executes the library call of a case; returns dict(rows=[(point dict, param dict)], tape, log, error, timeout)"""
    tp = common.use_repo()
    import torch
    import warnings
    warnings.filterwarnings("ignore")
    node = geomgen.from_json(case["dom"])
    prows = prows_of(case)
    names = case["params"]
    params = mk_params(tp, names, prows)
    call = case["call"]
    api, n, d = call["api"], call.get("n"), call.get("d")
    torch.manual_seed(case["seed"])
    out = dict(tape=None, log=None)
    log = []
    try:
        if api.startswith("sel."):
            Proxy = build_proxy_class(tp)
            a = Proxy(node.kids[0].to_tp(tp), log, "A")
            b = Proxy(node.kids[1].to_tp(tp), log, "B")
            from torchphysics.problem.domains.domainoperations.cut import CutDomain
            from torchphysics.problem.domains.domainoperations.intersection import IntersectionDomain
            dom = CutDomain(a, b) if node.kind == "cut" else IntersectionDomain(a, b)
        else:
            dom = node.to_tp(tp)
        S = tp.samplers
        vars_ = node.vars()
        if api in ("dom.random", "sel.random"):
            f = lambda: dom.sample_random_uniform(n=n, params=params)
        elif api == "dom.random.d":
            f = lambda: dom.sample_random_uniform(d=d, params=params)
        elif api in ("dom.grid", "sel.grid"):
            f = lambda: dom.sample_grid(n=n, params=params)
        elif api == "dom.grid.d":
            f = lambda: dom.sample_grid(d=d, params=params)
        elif api == "smp.uniform":
            f = lambda: S.RandomUniformSampler(dom, n_points=n).sample_points(params)
        elif api == "smp.uniform.d":
            f = lambda: S.RandomUniformSampler(dom, density=d).sample_points(params)
        elif api == "smp.uniform.f":
            f = lambda: S.RandomUniformSampler(dom, n_points=n, filter_fn=make_filter(call["filter"], vars_[0])).sample_points(params)
        elif api == "smp.grid":
            f = lambda: S.GridSampler(dom, n_points=n).sample_points(params)
        elif api == "smp.grid.f":
            f = lambda: S.GridSampler(dom, n_points=n, filter_fn=make_filter(call["filter"], vars_[0])).sample_points(params)
        elif api == "smp.gauss":
            mean = call["mean"]
            f = lambda: S.GaussianSampler(dom, n_points=n, mean=mean, std=call["std"]).sample_points(params)
        elif api == "smp.lhs":
            f = lambda: S.LHSSampler(dom, n_points=n).sample_points(params)
        elif api == "smp.adaptive":
            def f():
                # later calls come with OTHER parameter rows (reversed / shifted): a replaced row must carry the new point together
                # with the new parameter row, a kept row its old point with its old parameter row
                params2 = mk_params(tp, names, prows[::-1])
                params3 = mk_params(tp, names, prows[1:] + prows[:1])
                smp = S.AdaptiveThresholdRejectionSampler(dom, 0.5, n_points=n)
                first = smp.sample_points(params=params)
                loss = torch.linspace(0, 1, len(first))
                smp.sample_points(unreduced_loss=loss, params=params2)
                smp.sample_points(unreduced_loss=loss.flip(0), params=params3)
                smp2 = S.AdaptiveRandomRejectionSampler(dom, n_points=n)
                smp2.sample_points(params=params)
                smp2.sample_points(unreduced_loss=loss, params=params2)
                second = smp2.sample_points(unreduced_loss=loss.flip(0), params=params3)
                return smp.last_points | second
        else:
            raise ValueError(api)
        with Tape() as tape:
            res = common.call_with_timeout(TIMEOUT, f)
        out["tape"] = tape.draws
        out["log"] = log
    except common.CallTimeout:
        out["timeout"] = True
        return out
    except Exception as e:  # noqa
        out["error"] = f"{type(e).__name__}: {str(e)[:160]}"
        return out
    t = res.as_tensor
    out["shape"] = tuple(t.shape)
    if t.dim() != 2:
        out["error"] = f"result tensor has shape {tuple(t.shape)} (rows x coordinates expected)"
        return out
    coords = res.coordinates
    k = len(prows)
    rows = []
    for r in range(t.shape[0]):
        pt = {v: [float(x) for x in coords[v][r].tolist()] for v in vars_ if v in coords}
        if api.startswith("smp."):
            env = {p: [Fr(float(coords[p][r, 0]))] for p in names if p in coords} if k else {}
            if k and len(env) != len(names):
                out["error"] = f"sampler output lacks the parameter columns {names} (space {list(coords.keys())})"
                return out
        elif k == 0:
            env = {}
        elif api.endswith(".d") or api in ("dom.grid", "sel.grid"):
            env = prows[0]
        else:
            if t.shape[0] != n * k:
                out["error"] = f"{t.shape[0]} rows returned for n={n} and {k} parameter rows"
                return out
            env = prows[r // n]
        rows.append((pt, env))
    out["rows"] = rows
    return out


# ---------------------------------------------------------------------------------------------
# oracle lines / evaluation

def sd_line(node_tokens, pt, env):
    pe = {v: [Fr(x) for x in xs] for v, xs in pt.items()}
    return f"sd {node_tokens} {env_tokens(pe)} {env_tokens(env)}"


def finite(pt):
    return all(math.isfinite(x) for xs in pt.values() for x in xs)


def is_boundary(node):
    return node.kind in ("bdry", "bdryL", "bdryR")


def classify_error(case, err):
    """known findings (keys in known_findings.d/C01.json) — narrow matchers"""
    if (case["mode"] == "prod" and case["call"]["api"].endswith(".d") and case["prows"]
            and "shape '[10, -1]' is invalid for input of size" in err):
        return "product_density_constant_volume_factor"
    return None


def abs_atol_excuse(case, node, m):
    """boundary of an expression with disc / ball / interval leaves at a length scale <= 2^-10: |margin| within what an absolute
    tolerance of 1e-8 amounts to relative to the smallest generated radius / width (0.25 units): 2 * 1e-8 / (0.25 * scale) * 1.5"""
    if "scale" not in case["call"] or node.kind != "bdry":
        return False
    sigma = float(Fr(case["call"]["scale"]))
    if sigma > 2 ** -10:
        return False
    if not any(k_ in ("circle", "sphere", "interval") for k_ in node.kinds()):
        return False
    return abs(float(m)) <= 1.2e-7 / sigma


def describe_call(case):
    c = case["call"]
    return f"{c['api']}(n={c.get('n')}, d={c.get('d')}) with {len(case['prows'])} parameter rows"


def tape_rows(node, draws, k, n):
    """per output row: the draws it consumed (random variant of a primitive / primitive boundary)"""
    kk = max(k, 1)
    rows = []
    for i in range(kk):
        for j in range(n):
            r = []
            for T in draws:
                if tuple(T.shape[:2]) != (kk, n):
                    return None
                r += [float(x) for x in T[i, j].reshape(-1).tolist()]
            rows.append(r)
    return rows


def expected_tape(node, kk, n):
    """shapes of the torch.rand calls of the modelled parametrisation (Model/GeomSample.lean: primSample)"""
    inner = node.kids[0].kind if node.kind in ("bdry", "bdryL", "bdryR") else node.kind
    if node.kind in ("bdryL", "bdryR"):
        return []
    if node.kind == "bdry":
        return [(kk, n, 1)] * (2 if inner == "sphere" else 1)
    return {"interval": [(kk, n, 1)], "par": [(kk, n, 2)], "tri": [(kk, n, 2)], "circle": [(kk, n, 1)] * 2, "sphere": [(kk, n, 1)] * 3}[inner]


def prim_lines(case, res):
    """driver requests of the tape correspondence for a primitive case; None if not applicable"""
    node = geomgen.from_json(case["dom"])
    api, n = case["call"]["api"], case["call"].get("n")
    prows = prows_of(case)
    k = len(prows)
    dt = node.tokens()
    if api == "dom.random":
        if [tuple(T.shape) for T in res["tape"]] != expected_tape(node, max(k, 1), n):
            return "tape-unusable"      # the implementation uses its randomness in another way than the modelled parametrisation
        tr = tape_rows(node, res["tape"], k, n)
        if tr is None or len(tr) != len(res["rows"]):
            return "tape-unusable"
        return [f"prim {dt} {env_tokens(env)} {common.lst(t, common.q)}" for t, (_, env) in zip(tr, res["rows"])]
    if api == "dom.grid":
        env = prows[0] if prows else {}
        tops = []
        inner = node.kind
        if inner in ("par", "tri"):
            for T in res["tape"]:
                tops += [[float(a), float(b)] for a, b in T.reshape(-1, 2).tolist()]
        elif inner == "sphere":
            if len(res["tape"]) == 3:
                a, b, c = [T.reshape(-1).tolist() for T in res["tape"]]
                tops = [[x, y, z] for x, y, z in zip(a, b, c)]
        if inner == "tri":
            # candidates before the first-n cut: which n mesh nodes survive depends on the row order, not on the property
            o, c1, c2 = [p_.eval(env) for p_ in node.pfs]
            return ["tripool " + " ".join(common.q(x) for x in (o + c1 + c2)) + f" {n} {common.lst(tops, lambda t: common.lst(t, common.q))}"]
        return [f"grid {dt} {env_tokens(env)} {n} {common.lst(tops, lambda t: common.lst(t, common.q))}"]
    return None


def match_points(impl, model, dim, subset=False):
    """order-free comparison: every implementation point is matched to a distinct model point within CTOL
    (subset=False: same number of points).  Returns None if they match, else a description."""
    ip = [impl[i:i + dim] for i in range(0, len(impl), dim)]
    mp = [model[i:i + dim] for i in range(0, len(model), dim)]
    if (len(ip) != len(mp)) if not subset else (len(ip) > len(mp)):
        return f"{len(ip)} implementation points, {len(mp)} model points"
    used = [False] * len(mp)
    for p_ in ip:
        best, bj = None, -1
        for j, q_ in enumerate(mp):
            if used[j]:
                continue
            w = compare_coords(p_, q_)
            if best is None or w < best:
                best, bj = w, j
        if best is None or best > CTOL:
            return f"implementation point {p_} is not among the model's points (closest unused one differs by {best})"
        used[bj] = True
    return None


UNIT = [1.0]      # length unit of the case being compared (scaled expressions)


def compare_coords(impl, model):
    worst = 0.0
    for a, b in zip(impl, model):
        if not math.isfinite(a) or not math.isfinite(b):
            return float("inf")
        worst = max(worst, abs(a - b) / max(UNIT[0], abs(b)))
    return worst


def canonical_selection(case, rounds, pts, n, k):
    """what the PROPERTY needs from a rejection sampler, independent of the loop's schedule: every returned row is
    (bit-equal to) a proposal of the first operand that the partner test accepted, generated for the row's own parameter
    row.  Which accepted proposals are returned, from which round, and how many rounds there were is not checked here.
    Returns None if this holds, else a description."""
    import torch
    prows = prows_of(case)
    names = case["params"]
    want = [[float(r[p][0]) for p in names] for r in prows]
    for r in range(pts.shape[0]):
        row = r // n if k else 0
        found = False
        for rd in rounds:
            P = rd["pts"]
            m = P.shape[0]
            hit = (P == pts[r]).all(dim=1)
            for j in torch.nonzero(hit).reshape(-1).tolist():
                if not rd["ok"][j]:
                    continue
                if k:
                    pr = rd["params"]
                    if pr is None:
                        continue
                    pj = pr[0] if pr.shape[0] == 1 else pr[j // max(m // pr.shape[0], 1)]
                    if [float(x) for x in pj.tolist()] != [float(torch.tensor(x, dtype=torch.float32)) for x in want[row]]:
                        continue
                found = True
                break
            if found:
                break
        if not found:
            return f"returned row {r} ({pts[r].tolist()}) is not an accepted proposal generated for parameter row {row}"
    return None


def selection_check(case, res):
    """driver requests for the rejection loops of cut / intersection (operands are recording proxies) and a
    function that evaluates the replies: returns (lines, evaluate) or None when not applicable"""
    import torch
    node = geomgen.from_json(case["dom"])
    api, n = case["call"]["api"], case["call"]["n"]
    k = len(case["prows"])
    log = res["log"]
    pts = torch.tensor([[x for v in node.vars() for x in pt[v]] for pt, _ in res["rows"]], dtype=torch.float32).reshape(len(res["rows"]), -1)
    invert = node.kind == "cut"
    # pair every A-proposal batch with the following B-membership answer
    rounds = []
    i = 0
    while i + 1 < len(log):
        a, b = log[i], log[i + 1]
        if a[0] == "A" and a[1] in ("rand", "grid") and b[0] == "B" and b[1] == "contains" and len(b[4]) == len(a[4]):
            ok = [bool(x) != invert for x in b[4].tolist()]
            rounds.append(dict(kind=a[1], n=a[2], pts=a[4], ok=ok, params=a[5]))
            i += 2
        else:
            return None
    if i != len(log) or not rounds:
        return None
    bits = lambda r: common.lst(r["ok"], common.q)
    canon = canonical_selection(case, rounds, pts, n, k)
    if api == "sel.random" and n >= 2:
        # D.1: one loop per parameter row; a row ends with the first round that has >= n valid proposals
        subs, pos = [], 0
        for row in range(max(k, 1)):
            cnt = 0
            while pos + cnt < len(rounds):
                cnt += 1
                if sum(rounds[pos + cnt - 1]["ok"]) >= n:
                    break
            subs.append(rounds[pos:pos + cnt])
            pos += cnt
        if pos != len(rounds):
            return ([], lambda replies: ("number of rounds differs", dict(model_used=pos, implementation=len(rounds))), canon)
        lines = [f"inside {n} {len(sub) + 2} {common.lst(sub, bits)}" for sub in subs]

        def evaluate(replies):
            out_rows = []
            for sub, rp in zip(subs, replies):
                if rp == "none" or rp.startswith("bad-op"):
                    return ("model gives no result", rp)
                rq, idx = rp.split("|")
                rq = [int(x) for x in rq.split()]
                if rq != [r["n"] for r in sub]:
                    return ("requested counts differ", dict(model=rq, implementation=[r["n"] for r in sub]))
                for tok in idx.split():
                    rd, ii = map(int, tok.split(":"))
                    out_rows.append(sub[rd]["pts"][ii])
            exp = torch.stack(out_rows) if out_rows else torch.zeros((0, pts.shape[1]))
            if exp.shape != pts.shape or not torch.equal(exp, pts):
                return ("returned rows are not the first n valid proposals of the last round", dict(expected=exp.tolist()[:4], got=pts.tolist()[:4]))
            return None
        return lines, evaluate, canon
    if api == "sel.random" and n == 1:
        lines = [f"n1 {len(rounds) + 2} {k} {common.lst(rounds, bits)}"]

        def evaluate(replies):
            rp = replies[0]
            if rp == "none" or rp.startswith("bad-op"):
                return ("model gives no result", rp)
            rd, idx = rp.split("|")
            if int(rd) != len(rounds):
                return ("number of rounds differs", dict(model=int(rd), implementation=len(rounds)))
            exp = torch.stack([rounds[int(t.split(":")[0])]["pts"][int(t.split(":")[1])] for t in idx.split()])
            if exp.shape != pts.shape or not torch.equal(exp, pts):
                return ("returned rows differ from the last valid proposal of each row", dict(expected=exp.tolist()[:4], got=pts.tolist()[:4]))
            return None
        return lines, evaluate, canon
    if api == "sel.grid" and rounds[0]["kind"] == "grid":
        # D.3: first grid (n), optional second grid (m), optional random top-up (D.1 rounds, checked by membership only)
        g1 = rounds[0]
        g2 = rounds[1] if len(rounds) > 1 and rounds[1]["kind"] == "grid" else None
        lines = [f"gridinside {n} {bits(g1)} {g2['n'] if g2 else 0} {bits(g2) if g2 else '0'}"]

        def evaluate(replies):
            rp = replies[0]
            if rp == "none" or rp.startswith("bad-op"):
                return ("model gives no result", rp)
            m, idx = rp.split("|")
            m = int(m)
            if g2 is not None and m != g2["n"]:
                return ("size of the second grid differs", dict(model=m, implementation=g2["n"]))
            if g2 is None and m not in (n, 0):
                return ("model asks for a second grid, the implementation did not", dict(model=m))
            exp = []
            for tok in idx.split():
                rd, ii = map(int, tok.split(":"))
                if rd == 9:
                    break
                exp.append((g1 if rd == 0 else g2)["pts"][ii])
            if exp:
                exp = torch.stack(exp)
                if len(exp) > len(pts) or not torch.equal(exp, pts[:len(exp)]):
                    return ("grid rows differ from the valid grid points in order", dict(expected=exp.tolist()[:4], got=pts.tolist()[:4]))
            return None
        return lines, evaluate, canon
    return None


# ---------------------------------------------------------------------------------------------

def intensify(ctx, rep, n_dis_before):
    """a correspondence broke: before `no-failing-input-found` is concluded, the failing-input search is intensified on exactly
    those cases — the same expression / call re-run with many seeds and with larger n, every row judged by the exact oracle"""
    seen, variants = set(), []
    for dsg in rep.disagreements[n_dis_before:]:
        inp = dsg["input"]
        if not isinstance(inp, dict) or "dom" not in inp or "call" not in inp:
            continue
        key = json.dumps([inp["dom"], inp["call"], inp["prows"]], sort_keys=True, default=str)
        if key in seen or len(seen) >= 6:
            continue
        seen.add(key)
        mode = "solid" if inp["mode"] == "sel" else inp["mode"]       # plain library objects instead of proxies
        for j in range(ctx.scale(24, 60)):
            call = dict(inp["call"])
            if mode != inp["mode"]:
                call["api"] = call["api"].replace("sel.", "dom.")
            if "d" not in call and j % 3 == 2 and not call["api"].endswith("grid"):
                call["n"] = 60
            variants.append(dict(id=10 ** 6 + len(variants), mode=mode, dom=inp["dom"], params=inp["params"], prows=inp["prows"], call=call,
                                 seed=(inp["seed"] * 7919 + 104729 * j) % (2 ** 31 - 1)))
    if not variants:
        return
    sub = common.Report(ctx)
    run(ctx, sub, variants, _intensified=True)
    rep.count("intensified-search:cases", len(variants))
    rep.count("intensified-search:rows", sub.hist.get("rows-checked", 0))
    rep.failures += sub.failures
    for kf, ex in sub.known_hits.items():
        rep.known_hits.setdefault(kf, ex)


def run(ctx, rep, cases=None, _intensified=False):
    rep.rule = ("(a) domain expressions generated from the public constructors (primitives incl. slanted / clockwise / parameter-dependent "
                "ones, their boundaries, union / cut / intersection / translate / rotate nestings of depth <= 3 (thorough 4), products incl. "
                "dependent ones), every Boolean node certified to have positive measure; sampled through Domain.sample_random_uniform / "
                "sample_grid (n or density) and the point samplers (uniform, grid, filtered, Gaussian, LHS, adaptive) with 0-3 parameter rows; "
                "non-trivial = operation node or parameter dependence or boundary; distinct = distinct (expression, call, parameter rows); "
                "(b) oracle-only streams (harness/c01_opaque.py): ShapelyPolygon (convex / star / dart / rectilinear / with hole), TrimeshPolyhedron, Point, "
                "polygons in cut / intersection / union / motions / products with modelled shapes, composed samplers (append, +, *, static, filtered) "
                "over parameter-dependent domains with >= 2 parameter rows judged with the parameter columns of the same row")
    n_dis_before = len(rep.disagreements)
    if cases is None:
        # oracle-only streams: ShapelyPolygon / TrimeshPolyhedron / Point (exact membership oracles in the harness),
        # polygons inside operations, composed samplers with the own-row oracle
        import c01_opaque
        c01_opaque.run(ctx, rep)
        cases = fixed_cases(ctx, 10 ** 5)
        want = ctx.scale(600, 6000)
        i = 0
        while len(cases) < want and i < 4 * want:
            cs = make_case(ctx, i)
            i += 1
            if cs is not None:
                cases.append(cs)
            else:
                rep.count("generator:no-valid-expression")
    results = []
    lines = []
    spans = []
    sels = []
    unusable = []
    timeouts = 0
    for cs in cases:
        node = geomgen.from_json(cs["dom"])
        if timeouts >= 5:
            res = dict(skipped=True)     # enough hanging calls found; do not wait for more
        else:
            res = run_impl(cs)
        if res.get("timeout"):
            timeouts += 1
        results.append(res)
        a = len(lines)
        if "rows" in res:
            dt = node.tokens()
            for pt, env in res["rows"]:
                lines.append(sd_line(dt, pt, env) if finite(pt) else "sd-skip")
        b = len(lines)
        pl = None
        if "rows" in res and cs["mode"] in ("prim", "primbdry") and cs["call"]["api"] in ("dom.random", "dom.grid"):
            pl = prim_lines(cs, res)
            if pl == "tape-unusable":
                # no correspondence possible: the exact membership oracle above is the judge of this case; it is also re-run with
                # more seeds below (counted in the evidence, not a disagreement)
                rep.count("tape-unusable:" + "-".join(node.kinds()))
                unusable.append(cs)
                pl = None
            if pl:
                lines += pl
        c = len(lines)
        sel = None
        if "rows" in res and cs["mode"] == "sel":
            sel = selection_check(cs, res)
            if sel:
                lines += sel[0]
        sels.append(sel)
        spans.append((a, b, c, len(lines)))
    replies = common.run_driver("C01", [l if l != "sd-skip" else "sd-skip" for l in lines])
    for cs, res, (a, b, c, e), sel in zip(cases, results, spans, sels):
        node = geomgen.from_json(cs["dom"])
        call = cs["call"]
        rep.count("mode:" + cs["mode"])
        rep.count("scale:" + ("1" if "scale" not in cs["call"] else "2^%d" % round(math.log2(float(Fr(cs["call"]["scale"]))))))
        if cs["call"]["api"].startswith("smp."):
            rep.count("sampler-kind x dim:%s:%dD%s" % (cs["call"]["api"], DIM[node.vars()[0]] if len(node.vars()) == 1 else sum(DIM[v] for v in node.vars()),
                                                   ":boolean" if any(k_ in ("union", "cut", "inter") for k_ in node.kinds()) else ""))
        rep.count("api:" + call["api"])
        rep.count("depth:%d" % node.depth())
        rep.count("param-rows:%d" % len(cs["prows"]))
        rep.count("n:%s" % (call.get("n") if "d" not in call else "density"))
        for kd in set(node.kinds()):
            rep.count("node:" + kd)
        nontrivial = node.depth() > 1 or bool(node.free_vars())
        inp = dict(dom=cs["dom"], expression=node.tokens(), params=cs["params"], prows=cs["prows"], call=call, seed=cs["seed"], mode=cs["mode"])
        sample = dict(expression=node.tokens(), call=describe_call(cs), rows=len(res.get("rows", [])),
                      first_row=(res["rows"][0][0] if res.get("rows") else res.get("error") or ("not run" if res.get("skipped") else "timeout")),
                      model_margin=(replies[a] if b > a else None))
        rep.case(dict(dom=cs["dom"], call=call, prows=cs["prows"]), nontrivial, sample=sample, kind=cs["mode"] + ":" + call["api"])
        if res.get("skipped"):
            rep.count("not-run(after 5 time-outs)")
            continue
        if res.get("timeout"):
            rep.fail(f"{describe_call(cs)} did not return within {TIMEOUT}s on a domain of positive measure", inp,
                     finding=classify_error(cs, "timeout"))
            continue
        if "error" in res and "filter" in call and "Run 20 iterations" in res["error"]:
            rep.count("filter-sampler-gave-up(documented)")
            continue
        if "error" in res:
            rep.count("raised")
            rep.fail(f"{describe_call(cs)} failed: {res['error']}", inp, finding=classify_error(cs, res["error"]))
            continue
        if not res["rows"]:
            if "d" in call:
                rep.count("empty-density-sample")
                continue
            rep.fail(f"{describe_call(cs)} returned no points", inp, finding=classify_error(cs, "no points"))
            continue
        bdry = is_boundary(node)
        bad = None
        for (pt, env), rl in zip(res["rows"], replies[a:b]):
            rep.count("rows-checked")
            if not finite(pt):
                bad = (pt, env, "a coordinate is NaN / inf")
                break
            if rl == "none" or rl.startswith("bad-op"):
                rep.disagree("drivers/C01.lean sd: the model cannot evaluate a returned row", dict(inp, point=pt, row_params=env), pt, rl)
                break
            m = Fr(rl)
            if (m < -EPS or (bdry and m > EPS)) and abs_atol_excuse(cs, node, m):
                # known finding: the isclose boundary tests of disc / ball / interval have the ABSOLUTE tolerance 1e-8, which at a
                # length scale of 1e-6 is percents of the radius; the row is recorded, the remaining rows are still judged
                rep.fail(f"{describe_call(cs)} returned the point {pt}: margin {float(m):.4g} relative to the shape at length scale {float(Fr(call['scale'])):.3g} "
                         f"(absolute deviation below 1e-7, accepted by the isclose(atol=1e-8) boundary tests)", inp, finding="abs_tolerance_tiny_scale")
                continue
            if m < -EPS or (bdry and m > EPS):
                where = ("outside the denoted set" if m < 0 else "in the interior, not on the boundary")
                bad = (pt, env, f"{where}: exact signed margin {float(m):.4g} (tolerance {float(EPS)})")
                break
            rep.count("margin<=eps" if abs(m) <= EPS else "margin>eps")
        if bad:
            pt, env, why = bad
            rep.fail(f"{describe_call(cs)} returned the point {pt} for the parameter row "
                     f"{ {p: float(v[0]) for p, v in env.items()} }: {why}", inp, detail=dict(point=pt, row_params={p: str(v[0]) for p, v in env.items()}),
                     finding=classify_error(cs, why))
            continue
        # tape correspondence
        UNIT[0] = float(Fr(call.get("scale", "1")))
        if c > b:
            rep.traces_validated += 1
            if call["api"] == "dom.random":
                for (pt, env), rl, line in zip(res["rows"], replies[b:c], lines[b:c]):
                    impl = [x for v in node.vars() for x in pt[v]]
                    if rl == "none" or rl.startswith("bad-op"):
                        rep.disagree("drivers/C01.lean prim: model rejects", inp, impl, rl)
                        break
                    model = [common.unfbits(t) for t in rl.split()]
                    w = compare_coords(impl, model)
                    if len(model) != len(impl) or w > CTOL:
                        if near_tie(node, line):
                            rep.count("tape:near-tie(skipped)")
                            continue
                        rep.disagree("tape correspondence (random parametrisation)", dict(inp, request=line), impl, model)
                        break
                    rep.count("tape:rows-agree")
            else:
                rl = replies[b]
                impl = [x for pt, _ in res["rows"] for v in node.vars() for x in pt[v]]
                if rl == "none" or rl.startswith("bad-op"):
                    rep.disagree("drivers/C01.lean grid: model rejects", inp, impl[:6], rl)
                else:
                    toks = rl.split()
                    model = [common.unfbits(t) for t in toks[1:]]
                    dim = len(impl) // max(len(res["rows"]), 1)
                    # the grid is compared as a SET of points (row order is not part of the property); for the triangle the
                    # implementation's points must be n distinct members of the model's candidate pool
                    why = match_points(impl, model, dim, subset=(node.kind == "tri")) if res["rows"] else "no rows"
                    if why is None and node.kind == "tri" and len(res["rows"]) != call["n"]:
                        why = f"{len(res['rows'])} points for n={call['n']}"
                    if why is not None:
                        if grid_tie(cs, node, res):
                            rep.count("grid:near-tie(skipped)")
                        else:
                            rep.disagree("tape correspondence (grid, as a set of points): " + why, dict(inp, request=lines[b][:300]), impl[:8], model[:8])
                    else:
                        rep.count("grid:cases-agree")
        if cs["mode"] == "sel":
            if sel is None:
                rep.count("selection:not-applicable")
            else:
                r = sel[1](replies[c:e])
                rep.traces_validated += 1
                if sel[2] is not None:
                    # the schedule-independent requirement fails: a correspondence the theorems need (insideRow_sound, n1Loop_sound,
                    # gridInside_sound: only accepted proposals of the own parameter row are returned)
                    rep.disagree("selection correspondence (canonical): " + sel[2], inp, r[1] if r else None, None)
                elif r is None:
                    rep.count("selection:agree:" + call["api"])
                else:
                    # same accepted proposals, other schedule (which ones / how many rounds): not part of the property
                    rep.count("selection:schedule-differs(canonical check passed):" + call["api"] + ":" + r[0][:40])
    if not _intensified and unusable and not rep.failures:
        fake = [dict(input=dict(dom=c_["dom"], call=c_["call"], prows=c_["prows"], params=c_["params"], mode=c_["mode"], seed=c_["seed"]))
                for c_ in unusable]
        keep = rep.disagreements
        rep.disagreements = fake
        intensify(ctx, rep, 0)
        rep.disagreements = keep
    if not _intensified and len(rep.disagreements) > n_dis_before and not rep.failures:
        intensify(ctx, rep, n_dis_before)


def near_tie(node, line):
    """triangle mirror: |u + v - 1| tiny (float32 sum decides differently from the exact sum)"""
    inner = node.kind
    if inner == "tri":
        toks = line.split()
        u, v = Fr(toks[-2]), Fr(toks[-1])
        return abs(u + v - 1) < Fr(1, 10 ** 6)
    return False


def grid_tie(cs, node, res):
    """grid sizes int(sqrt(..)) / ball-mesh nodes on the surface: float32 and float64 may floor differently"""
    if node.kind in ("par", "tri"):
        env = prows_of(cs)[0] if cs["prows"] else {}
        o, c1, c2 = [[float(x) for x in p.eval(env)] for p in node.pfs]
        l1 = math.hypot(c1[0] - o[0], c1[1] - o[1])
        l2 = math.hypot(c2[0] - o[0], c2[1] - o[1])
        n = cs["call"]["n"] * (2 if node.kind == "tri" else 1)
        for v in (math.sqrt(n * l1 / l2), math.sqrt(n * l2 / l1)):
            if abs(v - round(v)) < 1e-4:
                return True
        if node.kind == "tri":
            return _tri_diag_tie(n, l1, l2)
    if node.kind == "sphere":
        return True
    return False


def _tri_diag_tie(n, l1, l2):
    # mesh nodes with u + v == 1 exactly are kept or dropped depending on rounding
    n1, n2 = int(math.sqrt(n * l1 / l2)), int(math.sqrt(n * l2 / l1))
    for i in range(n1):
        for j in range(n2):
            if Fr(i + 1, n1 + 1) + Fr(j + 1, n2 + 1) == 1:
                return True
    return False


def replay(ctx, obj):
    rep = common.Report(ctx)
    lean = common.lean_check("C01")
    inp = (obj.get("failing_input") or obj.get("first"))["input"]
    if "stream" in inp:
        import c01_opaque
        c01_opaque.run(ctx, rep, [inp])
        return common.finish(ctx, rep, lean)
    case = dict(id=0, mode=inp["mode"], dom=inp["dom"], params=inp["params"], prows=inp["prows"], call=inp["call"], seed=inp["seed"])
    run(ctx, rep, [case])
    return common.finish(ctx, rep, lean)
