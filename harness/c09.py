"""C09 — DeepONet output = branch-trunk inner product; fast trunk path == plain network.

Correspondence (model = lean/TPV/Model/DeepONet.lean through lean/drivers/C09.lean):
  net   : whole DeepONet forward in Float (per-layer activations), fast and plain trunk, rank-2 / rank-3 trunk input,
          every way of supplying the branch input; exact rational contraction of the features the
          implementation exposes; reverse sweep with the coded backward formulas (trunk.vjp)
  lin   : ONE TrunkLinear layer in exact rational arithmetic (small dyadic data: torch is exact too):
          output, grad_input, grad_weight, grad_bias
  mesh  : FunctionSet meshgrid / function batch / collections, exact
  hist  : histories of conditions / direct supplies on one or two models with several function sets
  reuse : the SAME branch-input object again after its content or the weights changed, no_grad / inference_mode / grad
  uniq  : plain trunk with one location set per function
  conv  : ConvBranchNet1D, property oracles only (its layers are not modelled)
  nondiv: output_neurons not divisible by the output dimension must be rejected (or handled consistently)
  malformed branch tensors (wrong number of points) are counted, never judged
Property oracles (run on every case, independent of the Lean model):
  O1 out[i,j,c] == sum_k branchfeat[i, c*K+k] * trunkfeat[j, c*K+k]  (reference MLP in numpy from the parameters)
  O2 batch independence: function i alone / location j alone / permuted batches give the same numbers
  O3 every way of supplying the same input functions gives the same output (incl. callables / function-set functions
     that are plain functions, lambdas, callable objects, bound methods with 0-3 declared defaults of different values)
  O4 (under a generated requires_grad pattern over all trunk/branch parameters, None / zero / value judged per parameter)
     fast trunk == plain trunk with the same weights: outputs, 1st and 2nd input derivatives, parameter
     gradients of a loss that contains both derivatives; single layer: also double backward
"""
import json
import math
from fractions import Fraction

import common
from common import q, fbits, unfbits

TOL = 1e-9          # float64 computations, values O(1)..O(100): relative to max(1, |reference|)
DEN = 16


# ------------------------------------------------------------------------------------------
# encoding / decoding of nested lists

def enc(x, f):
    if isinstance(x, (list, tuple)):
        return " ".join([str(len(x))] + [enc(y, f) for y in x])
    return f(x)


def dec(tokens, depth, f, pos=0):
    """parse a length-prefixed nested list of the given depth; returns (value, next position)"""
    if depth == 0:
        return f(tokens[pos]), pos + 1
    n = int(tokens[pos]); pos += 1
    out = []
    for _ in range(n):
        v, pos = dec(tokens, depth - 1, f, pos)
        out.append(v)
    return out, pos


def dec_all(text, depth, f):
    toks = text.split()
    v, pos = dec(toks, depth, f)
    if pos != len(toks):
        raise ValueError("trailing tokens")
    return v


def enc_t23(x, f):
    depth = _depth(x)
    return f"{depth} " + enc(x, f)


def _depth(x):
    d = 0
    while isinstance(x, list):
        d += 1
        x = x[0] if x else None
    return d


def enc_layer(L, f):
    W, b = L
    return enc(W, f) + (" 1 " + enc(b, f) if b is not None else " 0")


def maxdiff(a, b):
    """max |a-b| / max(1,|b|) over two equally nested lists; inf if shapes differ"""
    if isinstance(a, list) != isinstance(b, list):
        return math.inf
    if isinstance(a, list):
        if len(a) != len(b):
            return math.inf
        return max([0.0] + [maxdiff(x, y) for x, y in zip(a, b)])
    a, b = float(a), float(b)
    if math.isnan(a) or math.isnan(b):
        return math.inf
    return abs(a - b) / max(1.0, abs(b))


def shape_of(x):
    s = []
    while isinstance(x, list):
        s.append(len(x))
        x = x[0] if x else None
    return s


# ------------------------------------------------------------------------------------------
# generators

def dy(rng, lo=-24, hi=24, den=DEN):
    return rng.randint(lo, hi) / den


def gen_layers(rng, sizes, bias=True):
    out = []
    for nin, nout in zip(sizes[:-1], sizes[1:]):
        W = [[dy(rng) for _ in range(nin)] for _ in range(nout)]
        b = [dy(rng) for _ in range(nout)] if bias else None
        out.append([W, b])
    return out


ACT_NAMES = ["tanh", "sigmoid", "softplus", "sin", "relu", "identity"]


def gen_acts(rng, n):
    """per-layer activation codes (see drivers/C09.lean actOf) and the form in which they are handed to the
    constructor: one activation object for all layers, or a list / tuple with one entry per hidden layer"""
    form = rng.choice(["single", "list", "list", "list", "tuple"])
    if form == "single":
        return [rng.choice([0, 0, 1, 2, 3])] * n, form
    codes = [rng.choice([0, 0, 1, 2, 3, 4, 5]) for _ in range(n)]
    if n >= 2 and len(set(codes)) == 1:            # per-layer lists are there to be different
        codes[rng.randrange(n)] = (codes[0] + rng.randint(1, 4)) % 5
    return codes, form


def gen_gains(rng, n):
    """xavier gains only influence the initial weights (which the harness overwrites) but select code paths"""
    if rng.random() < 0.5:
        return rng.choice([1.0, 5 / 3])
    return [rng.choice([0.5, 1.0, 5 / 3]) for _ in range(n)]


def gen_req(rng, case, nt, nb):
    """requires_grad pattern over the parameter tensors [W0, b0, W1, b1, ...] of trunk and branch"""
    pat = rng.choice(["all", "all", "weights", "biases", "trunk-biases", "trunk-layer-frozen", "one-trunk-bias",
                      "one-trunk-weight", "branch-only", "random", "random"])
    rt, rb = [1] * (2 * nt), [1] * (2 * nb)
    if pat == "weights":
        rt, rb = [1, 0] * nt, [1, 0] * nb
    elif pat == "biases":
        rt, rb = [0, 1] * nt, [0, 1] * nb
    elif pat == "trunk-biases":
        rt = [0, 1] * nt
    elif pat == "trunk-layer-frozen":
        i = rng.randrange(nt); rt[2 * i] = rt[2 * i + 1] = 0
    elif pat == "one-trunk-bias":
        rt, rb = [0] * (2 * nt), [0] * (2 * nb); rt[2 * rng.randrange(nt) + 1] = 1
    elif pat == "one-trunk-weight":
        rt, rb = [0] * (2 * nt), [0] * (2 * nb); rt[2 * rng.randrange(nt)] = 1
    elif pat == "branch-only":
        rt = [0] * (2 * nt)
    elif pat == "random":
        rt = [rng.randint(0, 1) for _ in rt]; rb = [rng.randint(0, 1) for _ in rb]
    case.update(req_pattern=pat, req_trunk=rt, req_branch=rb)


def gen_net(ctx, idx):
    rng = ctx.rng
    din = rng.choice([1, 2, 2, 3])
    d = rng.choice([1, 1, 2, 2, 3])
    k = rng.randint(1, 4)
    neurons = d * k
    th = [rng.randint(1, 5) for _ in range(rng.choice([1, 2, 2, 3, 3, 4]))]
    bh = [rng.randint(1, 5) for _ in range(rng.choice([1, 2, 2, 3]))]
    tacts, tform = gen_acts(rng, len(th))
    bacts, bform = gen_acts(rng, len(bh))
    fdim = rng.choice([1, 1, 2])
    npts = rng.randint(1, 5)
    B = rng.choice([1, 1, 2, 3, 4])
    N = rng.randint(1, 5)
    rank = rng.choice(["r2", "r3x1", "r3xB"])
    params = [[dy(rng, -16, 16), dy(rng, -16, 16), dy(rng, -16, 16)] for _ in range(B)]
    pts = sorted({dy(rng, 0, 16) for _ in range(npts * 3)})[:npts]
    while len(pts) < npts:
        pts.append(pts[-1] + 1 / DEN)
    variants = ["tensor3", "points3", "functionset", "functionset_d"]
    if B == 1:
        variants += ["tensor2", "points2", "callable", "callable_d"]
    if B >= 2:
        variants += ["collection"]
    case = dict(kind="net", din=din, d=d, neurons=neurons, trunk_hidden=th, branch_hidden=bh, fdim=fdim,
                B=B, N=N, rank=rank, params=params, pts=[[p] for p in pts],
                tacts=tacts, tform=tform, bacts=bacts, bform=bform,
                req_pattern=None,
                cdef=[rng.choice(["function", "lambda", "object", "method"]), rng.choice([1, 2, 2, 3, 3])],
                fsdef=[rng.choice(["function", "lambda", "object", "method"]), rng.choice([2, 3])],
                tgains=gen_gains(rng, len(th)), bgains=gen_gains(rng, len(bh)),
                trunk=gen_layers(rng, [din] + th + [neurons]),
                branch=gen_layers(rng, [npts * fdim] + bh + [neurons]),
                x=[[dy(rng, -32, 32) for _ in range(din)] for _ in range(N)],
                variants=variants, primary=rng.choice(variants),
                pick=[rng.randrange(B), rng.randrange(N)], perm_seed=rng.randrange(10 ** 6),
                A_seed=rng.randrange(10 ** 6))
    # malformed stream: a tensor with a wrong number of discretisation points (re-cut or rejected)
    gen_req(rng, case, len(th) + 1, len(bh) + 1)
    # Sequential(NormalizationLayer, trunk): the other finalize path of DeepONet (box [-2,2]^din: x -> x/2 exactly)
    case["seq"] = din <= 2 and idx % 6 == 5
    if idx % 12 == 11:
        case["primary"] = "tensor3bad"
        case["bad_extra"] = rng.choice([1, npts, 2 * npts])
    return case


def gen_uniq(ctx, idx):
    """plain trunk (trunk_input_copied=False) with ONE location set per function (DeepONetDataset_Unique layout)"""
    case = gen_net(ctx, 0)
    rng = ctx.rng
    case["kind"] = "uniq"
    case["B"] = B = rng.choice([2, 3, 4])
    case["params"] = [[dy(rng, -16, 16), dy(rng, -16, 16), dy(rng, -16, 16)] for _ in range(B)]
    case["primary"] = "tensor3"
    case["rank"] = "r3uniq"
    case["xu"] = [[[dy(rng, -32, 32) for _ in range(case["din"])] for _ in range(case["N"])] for _ in range(B)]
    case["pick"] = [rng.randrange(B), rng.randrange(case["N"])]
    # crossed features: Sequential(NormalizationLayer, plain trunk), gradient tracking on the trunk input, autograd
    # context, the way the functions are supplied
    case["seq"] = case["din"] <= 2 and rng.random() < 0.5
    case["xgrad"] = rng.random() < 0.4
    case["ctx"] = "grad" if case["xgrad"] else rng.choice(["grad", "no_grad", "inference_mode"])
    case["primary"] = rng.choice(["tensor3", "points3", "functionset", "functionset_d", "collection"])
    return case


def gen_conv(ctx, idx):
    """ConvBranchNet1D (its layers are not modelled): property oracles only"""
    case = gen_net(ctx, 0)
    case["kind"] = "conv"
    case["seq"] = False
    if case["primary"] == "tensor3bad":
        case["primary"] = "tensor3"
    case["torch_seed"] = ctx.rng.randrange(10 ** 6)
    case["copied"] = ctx.rng.random() < 0.6
    case["seq"] = case["din"] <= 2 and ctx.rng.random() < 0.4
    case["conv_kernel"] = ctx.rng.choice([1, 3])
    case["conv_deep"] = ctx.rng.random() < 0.3
    return case


def gen_hist(ctx, idx):
    """histories: one or two DeepONets, several function sets (fresh parameters at every sampling) used through
    conditions (`_forward_branch`) in equal and different iteration numbers, interleaved with direct supply"""
    rng = ctx.rng
    case = gen_net(ctx, 0)
    case.update(kind="hist", seq=case["din"] <= 2 and rng.random() < 0.4, copied=rng.random() < 0.6, primary="tensor3", rank="r2")
    B = case["B"]
    nsets = rng.choice([2, 2, 3])
    nmodels = rng.choice([1, 1, 2])
    sizes = [B] * nsets
    if rng.random() < 0.25:
        sizes[-1] = B + 1
    ndraw = 8
    case["sets"] = [[[[dy(rng, -16, 16), dy(rng, -16, 16), dy(rng, -16, 16)] for _ in range(sz)] for _ in range(ndraw)] for sz in sizes]
    case["fixed"] = [[[dy(rng, -16, 16), dy(rng, -16, 16), dy(rng, -16, 16)] for _ in range(rng.choice([1, B]))] for _ in range(3)]
    sizes_t = [case["din"]] + case["trunk_hidden"] + [case["neurons"]]
    sizes_b = [len(case["pts"]) * case["fdim"]] + case["branch_hidden"] + [case["neurons"]]
    case["models"] = [dict(trunk=case["trunk"], branch=case["branch"])] + \
        [dict(trunk=gen_layers(rng, sizes_t), branch=gen_layers(rng, sizes_b)) for _ in range(nmodels - 1)]
    ops, k = [], 0
    for _ in range(rng.randint(3, 9)):
        r = rng.random()
        m = rng.randrange(nmodels)
        if r < 0.65:
            ops.append(["cond", m, rng.randrange(nsets), k])
        elif r < 0.8:
            ops.append(["fwd", m, rng.randrange(3), rng.choice(["tensor3", "points3", "functionset"])])
        elif r < 0.9:
            ops.append(["fix", m, rng.randrange(3)])
        else:
            ops.append(["eval", m])
        if rng.random() < 0.4:
            k += rng.choice([1, 1, 2])
    # every history ends with the pattern that matters: the same condition again in the same iteration
    if idx % 2 == 0:
        s0 = rng.randrange(nsets)
        ops += [["cond", 0, s0, k + 1], ["cond", 0, (s0 + 1) % nsets, k + 1], ["cond", 0, s0, k + 1]]
    if nmodels == 2 and idx % 3 == 0:
        ops += [["cond", 0, 0, k + 2], ["cond", 1, 0, k + 2]]
    case["ops"] = ops
    return case


def gen_reuse(ctx, idx):
    """the SAME branch-input object handed to the model again after its content or the model's weights changed,
    under every autograd context; every call must equal a fresh model with the current weights on the current content"""
    rng = ctx.rng
    case = gen_net(ctx, 0)
    case.update(kind="reuse", seq=case["din"] <= 2 and rng.random() < 0.4, copied=rng.random() < 0.6, primary="tensor3",
                rank=rng.choice(["r2", "r3x1"]))
    B = case["B"]
    case["contents"] = [[[dy(rng, -16, 16), dy(rng, -16, 16), dy(rng, -16, 16)] for _ in range(B)] for _ in range(4)]
    sizes_t = [case["din"]] + case["trunk_hidden"] + [case["neurons"]]
    sizes_b = [len(case["pts"]) * case["fdim"]] + case["branch_hidden"] + [case["neurons"]]
    case["weights"] = [dict(trunk=case["trunk"], branch=case["branch"])] + \
        [dict(trunk=gen_layers(rng, sizes_t), branch=gen_layers(rng, sizes_b)) for _ in range(3)]
    case["obj"] = rng.choice(["tensor3", "points3", "callable", "functionset"] + (["tensor2", "points2"] if B == 1 else []))
    case["ctx"] = rng.choice(["no_grad", "no_grad", "inference_mode", "grad"])
    # between the calls: change the content of the object in place, load other weights, both, or nothing
    case["changes"] = [rng.choice(["content", "content", "weights", "both", "none"]) for _ in range(rng.randint(1, 3))]
    if idx % 2 == 0:
        case["changes"][0] = rng.choice(["content", "weights"])
    return case


def gen_lin(ctx, idx):
    rng = ctx.rng
    nin, nout = rng.randint(1, 4), rng.randint(1, 4)
    rows = rng.randint(1, 4)
    rank = rng.choice([2, 3, 3])
    copies = 1 if rank == 2 else rng.randint(1, 3)
    shared = True   # the fast layer is specified for copies of ONE input only (documented precondition)
    x0 = [[dy(rng, -8, 8, 4) for _ in range(nin)] for _ in range(rows)]
    if rank == 2:
        x, shared = x0, True
    elif shared:
        x = [x0 for _ in range(copies)]
    else:
        x = [[[dy(rng, -8, 8, 4) for _ in range(nin)] for _ in range(rows)] for _ in range(copies)]
        shared = copies == 1
    W = [[dy(rng, -8, 8, 4) for _ in range(nin)] for _ in range(nout)]
    b = [dy(rng, -8, 8, 4) for _ in range(nout)] if rng.random() < 0.8 else None
    g = [[[dy(rng, -8, 8, 4) for _ in range(nout)] for _ in range(rows)] for _ in range(copies)]
    v = [[[dy(rng, -8, 8, 4) for _ in range(nin)] for _ in range(rows)] for _ in range(copies)]
    req = rng.choice([[1, 1, 1], [0, 0, 1], [0, 0, 1], [1, 0, 1], [0, 1, 0], [1, 0, 0], [1, 1, 0], [0, 1, 1]])
    return dict(kind="lin", rank=rank, shared=shared, x=x, W=W, b=b, g=g, v=v, req=req)


def gen_mesh(ctx, idx):
    rng = ctx.rng
    pdim = rng.choice([1, 2])
    sets = []
    for _ in range(rng.choice([1, 1, 2, 3])):
        m = rng.randint(1, 4)
        sets.append([[dy(rng) for _ in range(pdim)] for _ in range(m)])
    npts = rng.randint(1, 5)
    return dict(kind="mesh", pdim=pdim, sets=sets, pts=[[dy(rng)] for _ in range(npts)])


def gen_nondiv(ctx, idx):
    rng = ctx.rng
    d = rng.choice([2, 3])
    neurons = rng.choice([n for n in range(1, 13) if n % d != 0])
    B = rng.choice([1, 2, 3, 4, 6])
    N = rng.choice([1, 2, 3, 4, 6])
    copied = rng.random() < 0.5
    rank = rng.choice(["r2", "r3x1"])
    chunk = d * (neurons // d)
    if idx % 2 == 0 and chunk > 0:
        # batch sizes for which a flat re-cut of the feature matrices is possible at all
        m = chunk // math.gcd(chunk, neurons)
        B, N, copied, rank = m * rng.randint(1, 2), m * rng.randint(1, 2), False, "r2"
    return dict(kind="nondiv", d=d, neurons=neurons, B=B, N=N, copied=copied, rank=rank, seed=rng.randrange(10 ** 6))


def gen_cases(ctx):
    cases = []
    for i in range(ctx.scale(240, 2400)):
        cases.append(gen_net(ctx, i))
    for i in range(ctx.scale(50, 500)):
        cases.append(gen_uniq(ctx, i))
    for i in range(ctx.scale(60, 600)):
        cases.append(gen_hist(ctx, i))
    for i in range(ctx.scale(60, 600)):
        cases.append(gen_reuse(ctx, i))
    for i in range(ctx.scale(30, 300)):
        cases.append(gen_conv(ctx, i))
    for i in range(ctx.scale(400, 4000)):
        cases.append(gen_lin(ctx, i))
    for i in range(ctx.scale(80, 800)):
        cases.append(gen_mesh(ctx, i))
    # the input that showed the (repaired) defect of the pinned snapshot always runs first
    cases.append(dict(kind="nondiv", d=2, neurons=3, B=4, N=6, copied=False, rank="r2", seed=1))
    for i in range(ctx.scale(40, 400)):
        cases.append(gen_nondiv(ctx, i))
    return cases


# ------------------------------------------------------------------------------------------
# implementation side

_ENV = {}


def env():
    if _ENV:
        return _ENV
    tp = common.use_repo()
    import torch
    import numpy as np

    class Fixed(tp.samplers.PointSampler):
        """a sampler that returns the given float64 points (discretisation points / parameters)"""

        def __init__(self, points):
            super().__init__(n_points=len(points))
            self.points = points

        def sample_points(self, params=tp.spaces.Points.empty(), device="cpu"):
            return self.points

    _ENV.update(tp=tp, torch=torch, np=np, Fixed=Fixed)
    return _ENV


def t64(x):
    torch = env()["torch"]
    return torch.tensor(x, dtype=torch.float64)


def fval(k, t, fdim):
    """the input function family, evaluated exactly (dyadic data): f(k, t) in R^fdim, three parameters"""
    out = [k[0] + k[1] * t + k[2] * t * t]
    if fdim == 2:
        out.append(k[0] * t * t - k[1] + k[2] * t)
    return out


def formula(fdim):
    torch = env()["torch"]

    def F(t, k0, k1, k2):
        cols = [k0 + k1 * t + k2 * t * t]
        if fdim == 2:
            cols.append(k0 * t * t - k1 + k2 * t)
        return torch.cat(cols, dim=-1)
    return F


def fn_torch(fdim):
    F = formula(fdim)

    def f(k, t):
        return F(t, k[..., 0:1], k[..., 1:2], k[..., 2:3])
    return f


def make_callable(fdim, k, kind, nd):
    """the function t -> f(k, t) as a callable whose LAST `nd` of the three parameters are declared defaults
    (different values), the others constants; kind: function / lambda / object (__call__) / method (bound)"""
    names = ["k0", "k1", "k2"]
    sig = "".join(f", {n}={float(v)!r}" for n, v in list(zip(names, k))[3 - nd:])
    args = ", ".join(n if i >= 3 - nd else repr(float(k[i])) for i, n in enumerate(names))
    ns = dict(F=formula(fdim))
    if kind == "function":
        exec(f"def g(t{sig}):\n    return F(t, {args})", ns)
        return ns["g"]
    if kind == "lambda":
        exec(f"g = lambda t{sig}: F(t, {args})", ns)
        return ns["g"]
    if kind == "object":
        exec(f"class G:\n    def __call__(self, t{sig}):\n        return F(t, {args})\ng = G()", ns)
        return ns["g"]
    exec(f"class G:\n    def evaluate(self, t{sig}):\n        return F(t, {args})\ng = G().evaluate", ns)
    return ns["g"]


def make_set_function(fdim, kind, nd):
    """the function (k, t) -> f(k, t) of a function set with `nd` further declared defaults of different, NEUTRAL
    values (u0 = 0 is added, u1 = 1 and u2 - 1 = 1 are multiplied): any mix-up of the defaults changes the values"""
    sig = ", u0=0.0, u1=1.0" + (", u2=2.0" if nd == 3 else "")
    body = "(B(k, t) + u0) * u1" + (" * (u2 - 1.0)" if nd == 3 else "")
    ns = dict(B=fn_torch(fdim))
    if kind == "function":
        exec(f"def g(k, t{sig}):\n    return {body}", ns)
    elif kind == "lambda":
        exec(f"g = lambda k, t{sig}: {body}", ns)
    elif kind == "object":
        exec(f"class G:\n    def __call__(self, k, t{sig}):\n        return {body}\ng = G()", ns)
    else:
        exec(f"class G:\n    def evaluate(self, k, t{sig}):\n        return {body}\ng = G().evaluate", ns)
    return ns["g"]


def act_modules(codes, form):
    torch = env()["torch"]
    nn = torch.nn

    class Sin(nn.Module):
        def forward(self, x):
            return torch.sin(x)

    mk = [nn.Tanh, nn.Sigmoid, nn.Softplus, Sin, nn.ReLU, nn.Identity]
    if form == "single":
        return mk[codes[0]]()
    mods = [mk[c]() for c in codes]
    return tuple(mods) if form == "tuple" else mods


def np_act(np, code):
    return [np.tanh, lambda z: 1 / (1 + np.exp(-z)), lambda z: np.where(z > 20, z, np.log1p(np.exp(np.minimum(z, 20)))),
            np.sin, lambda z: np.maximum(z, 0), lambda z: z][code]


def load_weights(module, layers):
    torch = env()["torch"]
    ps = list(module.parameters())
    flat = []
    for W, b in layers:
        flat.append(W)
        if b is not None:
            flat.append(b)
    if len(ps) != len(flat):
        raise common.HarnessTrouble(f"expected {len(flat)} parameter tensors, module has {len(ps)}")
    with torch.no_grad():
        for p, v in zip(ps, flat):
            v = t64(v)
            if tuple(p.shape) != tuple(v.shape):
                raise common.HarnessTrouble(f"parameter shape {tuple(p.shape)} vs generated {tuple(v.shape)}")
            p.copy_(v)


def spaces_of(case):
    tp = env()["tp"]
    S = tp.spaces
    T = {1: S.R1, 2: S.R2, 3: S.R3}[case["din"]]("x")
    U = {1: S.R1, 2: S.R2, 3: S.R3}[case["d"]]("u")
    Fo = {1: S.R1, 2: S.R2}[case["fdim"]]("f")
    Ti = S.R1("t")
    Kp = S.R3("k")
    return T, U, Fo, Ti, Kp


def build_net(case, copied):
    e = env(); tp = e["tp"]
    T, U, Fo, Ti, Kp = spaces_of(case)
    fs = tp.spaces.FunctionSpace(tp.domains.Interval(Ti, 0, 1), Fo)
    disc = e["Fixed"](tp.spaces.Points(t64(case["pts"]), Ti))
    trunk = tp.models.FCTrunkNet(T, hidden=tuple(case["trunk_hidden"]), trunk_input_copied=copied,
                                 activations=act_modules(case["tacts"], case["tform"]), xavier_gains=case["tgains"])
    branch = tp.models.FCBranchNet(fs, disc, hidden=tuple(case["branch_hidden"]),
                                   activations=act_modules(case["bacts"], case["bform"]), xavier_gains=case["bgains"])
    if case.get("seq"):
        box = tp.domains.Interval(T, -2, 2) if case["din"] == 1 else tp.domains.Parallelogram(T, [-2, -2], [2, -2], [-2, 2])
        net = tp.models.DeepONet(tp.models.Sequential(tp.models.NormalizationLayer(box), trunk), branch, U, case["neurons"]).double()
        load_weights(trunk, case["trunk"])
    else:
        net = tp.models.DeepONet(trunk, branch, U, case["neurons"]).double()
        load_weights(net.trunk, case["trunk"])
    load_weights(net.branch, case["branch"])
    return net, fs


def fn_values(case, params=None):
    params = case["params"] if params is None else params
    return [[fval(k, p[0], case["fdim"]) for p in case["pts"]] for k in params]


def supply(case, variant, fs, params=None):
    """the object handed to DeepONet.forward as `branch_inputs` for one way of supplying the functions"""
    e = env(); tp = e["tp"]
    T, U, Fo, Ti, Kp = spaces_of(case)
    params = case["params"] if params is None else params
    vals = fn_values(case, params)
    if variant == "tensor3":
        return t64(vals)
    if variant == "tensor3bad":
        extra = case["bad_extra"]
        bad = [row + [row[-1]] * extra for row in vals]
        return t64(bad)
    if variant == "points3":
        return tp.spaces.Points(t64(vals), Fo)
    if variant == "tensor2":
        return t64(vals[0])
    if variant == "points2":
        return tp.spaces.Points(t64(vals[0]), Fo)
    if variant == "callable":
        k = params[0]
        F = formula(case["fdim"])
        return lambda t: F(t, k[0], k[1], k[2])
    if variant == "callable_d":
        return make_callable(case["fdim"], params[0], *case["cdef"])
    if variant == "functionset_d":
        return tp.domains.CustomFunctionSet(fs, e["Fixed"](tp.spaces.Points(t64(params), Kp)),
                                            make_set_function(case["fdim"], *case["fsdef"]))
    if variant == "functionset":
        return tp.domains.CustomFunctionSet(fs, e["Fixed"](tp.spaces.Points(t64(params), Kp)), fn_torch(case["fdim"]))
    if variant == "collection":
        cut = max(1, len(params) // 2)
        a = tp.domains.CustomFunctionSet(fs, e["Fixed"](tp.spaces.Points(t64(params[:cut]), Kp)), fn_torch(case["fdim"]))
        b = tp.domains.CustomFunctionSet(fs, e["Fixed"](tp.spaces.Points(t64(params[cut:]), Kp)), fn_torch(case["fdim"]))
        return a + b
    raise ValueError(variant)


def trunk_tensor(case, xs=None, copies=None):
    xs = case["x"] if xs is None else xs
    x = t64(xs)
    if case["rank"] == "r2":
        return x
    if case["rank"] == "r3x1":
        return x.unsqueeze(0)
    c = case["B"] if copies is None else copies
    return x.unsqueeze(0).repeat(c, 1, 1)


def model_x(case, xs):
    """what the trunk network proper receives: the normalisation layer of a Sequential trunk maps [-2,2] to [-1,1]"""
    if case.get("seq"):
        return [[v / 2 for v in row] for row in xs]
    return xs


def ref_mlp(np, layers, x, acts):
    """the network the user specified: hidden layer i is followed by ITS activation acts[i]"""
    h = np.array(x, dtype=np.float64)
    for i, (W, b) in enumerate(layers):
        h = h @ np.array(W, dtype=np.float64).T
        if b is not None:
            h = h + np.array(b, dtype=np.float64)
        if i < len(layers) - 1:
            h = np_act(np, acts[i])(h)
    return h


def run_net(case):
    """everything the implementation is asked for one net case"""
    e = env(); tp = e["tp"]; torch = e["torch"]; np = e["np"]
    T, U, Fo, Ti, Kp = spaces_of(case)
    res = dict(problems=[])
    fast, fs = build_net(case, True)
    plain, _ = build_net(case, False)
    bad = case["primary"] == "tensor3bad"

    def fwd(net, variant, x=None, params=None):
        xin = trunk_tensor(case) if x is None else x
        return net(tp.spaces.Points(xin, T), supply(case, variant, fs, params)).as_tensor

    # ---- primary outputs, both trunk variants
    for name, net in (("fast", fast), ("plain", plain)):
        try:
            res[name] = fwd(net, case["primary"]).tolist()
        except Exception as ex:  # rejected input
            res[name] = "err:" + type(ex).__name__
    if bad:
        return res
    for name in ("fast", "plain"):
        if isinstance(res[name], str):
            res["problems"].append(f"{name} trunk: forward raised {res[name]} on a well-formed input")
            return res
    out = res["fast"]
    B, N, d, K = case["B"], case["N"], case["d"], case["neurons"] // case["d"]
    if shape_of(out) != [B, N, d]:
        res["problems"].append(f"output shape {shape_of(out)} for {B} functions, {N} locations, {d} components")
        return res

    # ---- features the implementation exposes (public: branch.current_out, trunk(points))
    with torch.no_grad():
        tfeat = fast.trunk(tp.spaces.Points(trunk_tensor(case), T))
        if tfeat.dim() == 3:      # a trunk may answer a rank-2 batch without a leading axis (the plain one does)
            tfeat = tfeat.unsqueeze(0)
        bfeat = fast.branch.current_out.detach()
    res["tfeat_shape"] = list(tfeat.shape)
    res["bfeat_shape"] = list(bfeat.shape)
    if list(bfeat.shape) == [B, d, K] and list(tfeat.shape)[-3:] == [N, d, K] and tfeat.dim() == 4:
        res["tfeat"] = tfeat.reshape(tfeat.shape[0], N, d * K).tolist()
        res["bfeat"] = bfeat.reshape(B, d * K).tolist()
        # O1a: contraction over the neuron axis of exactly these features
        tf, bf = tfeat.numpy(), bfeat.numpy()
        o = np.array(out)
        for i in range(B):
            ti = tf[i] if tf.shape[0] == B and B > 1 else tf[0]
            for j in range(N):
                for c in range(d):
                    want = float(sum(bf[i, c, kk] * ti[j, c, kk] for kk in range(K)))
                    if abs(o[i, j, c] - want) > TOL * max(1.0, abs(want)):
                        res["problems"].append(
                            f"output[{i},{j},{c}]={o[i,j,c]!r} is not the inner product {want!r} of branch.current_out[{i},{c},:] "
                            f"and trunk(points)[{j},{c},:]")
                        break
                else:
                    continue
                break
            else:
                continue
            break
    else:
        res["problems"].append(f"feature shapes: branch {list(bfeat.shape)}, trunk {list(tfeat.shape)}; expected (B,d,K)=({B},{d},{K}) and (.,N,d,K)")

    # ---- O1: reference network from the parameters, features split row-major into (output_dim, neurons)
    tref = ref_mlp(np, case["trunk"], model_x(case, case["x"]), case["tacts"])           # (N, d*K)
    bref = ref_mlp(np, case["branch"], [sum(r, []) for r in fn_values(case)], case["bacts"])   # (B, d*K)
    want = np.einsum("ick,jck->ijc", bref.reshape(B, d, K), tref.reshape(N, d, K))
    res["ref"] = want.tolist()
    for name in ("fast", "plain"):
        dd = maxdiff(res[name], res["ref"])
        if dd > TOL:
            o = np.array(res[name])
            idx = np.unravel_index(np.argmax(np.abs(o - want) / np.maximum(1, np.abs(want))), want.shape) if o.shape == want.shape else None
            res["problems"].append(
                f"{name} trunk: output{list(idx) if idx is not None else ''} differs from the inner product of the branch features of "
                f"function i and trunk features of location j (reference network with the same weights): "
                f"{o[idx] if idx is not None else shape_of(res[name])} vs {want[idx] if idx is not None else list(want.shape)}")

    # ---- O3: every way of supplying the same functions
    res["variants"] = {}
    for v in case["variants"]:
        try:
            ov = fwd(fast, v).tolist()
        except Exception as ex:
            res["problems"].append(f"branch input supplied as {v}: raised {type(ex).__name__}: {str(ex)[:120]}")
            continue
        res["variants"][v] = maxdiff(ov, out)
        if maxdiff(ov, out) > 1e-12:
            how = {"callable_d": f" ({case['cdef'][0]} with {case['cdef'][1]} declared defaults of different values)",
                   "functionset_d": f" (function set of a {case['fsdef'][0]} with {case['fsdef'][1]} declared defaults)"}.get(v, "")
            res["problems"].append(f"branch input supplied as {v}{how} gives a different output than supplied as {case['primary']} "
                                   f"(max relative difference {maxdiff(ov, out):.3g})")

    # ---- O2: batch independence (function i alone, location j alone; permuted batches)
    i, j = case["pick"]
    try:
        single = dict(case, rank="r2" if case["rank"] == "r2" else "r3x1")
        xin = trunk_tensor(single, xs=[case["x"][j]])
        o1 = fwd(fast, "tensor3", x=xin, params=[case["params"][i]]).tolist()
        if shape_of(o1) != [1, 1, d] or maxdiff(o1[0][0], out[i][j]) > 1e-10:
            res["problems"].append(f"function {i} alone at location {j} alone gives {o1}, in the batch output[{i},{j}]={out[i][j]}")
        import random
        r = random.Random(case["perm_seed"])
        pB = list(range(B)); r.shuffle(pB)
        pN = list(range(N)); r.shuffle(pN)
        xin = trunk_tensor(case, xs=[case["x"][jj] for jj in pN])
        o2 = fwd(fast, "tensor3", x=xin, params=[case["params"][ii] for ii in pB]).tolist()
        back = [[o2[pB.index(ii)][pN.index(jj)] for jj in range(N)] for ii in range(B)]
        if maxdiff(back, out) > 1e-10:
            res["problems"].append(f"permuting the function batch by {pB} and the locations by {pN} changes the outputs "
                                   f"(max relative difference {maxdiff(back, out):.3g})")
    except Exception as ex:
        res["problems"].append(f"re-batched evaluation raised {type(ex).__name__}: {str(ex)[:120]}")

    # ---- O4: fast == plain: outputs, first/second input derivatives, parameter gradients
    gen = torch.Generator().manual_seed(case["A_seed"])
    A = torch.randint(-8, 9, (B, N, d), generator=gen).double() / 8
    xs_shape = tuple(trunk_tensor(case).shape)
    Bm = torch.randint(-8, 9, xs_shape, generator=gen).double() / 8

    def fc_params(net):
        """parameter tensors of the FC trunk and of the branch, in the order of the generated masks"""
        tr = net.trunk.models[-1] if case.get("seq") else net.trunk
        return list(tr.parameters()), list(net.branch.parameters())

    def derivs(net):
        """output, 1st/2nd input derivative, and `.grad` of EVERY parameter after `loss.backward()` under the
        requires_grad pattern of the case (None = the engine delivered no gradient)"""
        tps, bps = fc_params(net)
        allp = list(net.parameters())
        try:
            for p_, r in zip(tps, case["req_trunk"]):
                p_.requires_grad_(bool(r))
            for p_, r in zip(bps, case["req_branch"]):
                p_.requires_grad_(bool(r))
            for p_ in allp:
                p_.grad = None
            x = trunk_tensor(case).clone().requires_grad_(True)
            u = net(tp.spaces.Points(x, T), supply(case, "tensor3", fs)).as_tensor
            g = torch.autograd.grad((A * u).sum(), x, create_graph=True)[0]
            # with piecewise linear activations (ReLU, identity) only the first derivative may not depend on x at all
            if g.requires_grad:
                h = torch.autograd.grad((Bm * g).sum(), x, create_graph=True, allow_unused=True)[0]
            else:
                h = None
            if h is None:
                h = torch.zeros_like(x)
            L = (u ** 2).mean() + (g ** 2).mean() + (h ** 2).mean()
            L.backward()
            pg = [None if p_.grad is None else p_.grad.tolist() for p_ in allp]
            names_ = [n for n, _ in net.named_parameters()]
            return u.tolist(), g.tolist(), h.tolist(), pg, names_, [bool(p_.requires_grad) for p_ in allp]
        finally:
            for p_ in allp:
                p_.requires_grad_(True)
                p_.grad = None

    def zeros_like_list(v):
        return [zeros_like_list(w) for w in v] if isinstance(v, list) else 0.0

    try:
        da, db = derivs(fast), derivs(plain)
        names = ["output", "first derivative w.r.t. the trunk input", "second derivative w.r.t. the trunk input"]
        res["o4"] = []
        for nm, a, b in zip(names, da, db):
            dd = maxdiff(a, b)
            res["o4"].append(dd)
            if dd > 1e-8:
                res["problems"].append(f"fast trunk path differs from the plain network with the same weights in the {nm} "
                                       f"(max relative difference {dd:.3g})")
        for nm_, dz in (("fast", da), ("plain", db)):
            if maxdiff(dz[0], res["ref"]) > TOL:
                res["problems"].append(f"{nm_} trunk, trunk input tracking gradients: the output differs from the inner product of the branch "
                                       f"features of function i and trunk features of location j (max relative difference {maxdiff(dz[0], res['ref']):.3g})")
        # parameter gradients, judged per parameter: value vs value, None vs None, None vs (non-)zero value
        worst = 0.0
        pattern = f"requires_grad pattern trunk={case['req_trunk']} branch={case['req_branch']}"
        for ga, gb, nm, req in zip(da[3], db[3], da[4], da[5]):
            if ga is None and gb is None:
                res.setdefault("pg_kinds", []).append("none=none")
                continue
            if ga is None or gb is None:
                other = gb if ga is None else ga
                if maxdiff(other, zeros_like_list(other)) == 0.0:
                    res.setdefault("pg_kinds", []).append("none~zero")
                    continue
                who = "fast" if ga is None else "plain"
                res["problems"].append(
                    f"parameter gradient of mean(u^2)+mean(u_x^2)+mean(u_xx^2): the {who} trunk path delivers NO gradient (None) for "
                    f"parameter {nm} (requires_grad={req}), the other path delivers {str(other)[:80]}; {pattern}")
                worst = math.inf
                continue
            res.setdefault("pg_kinds", []).append("value=value")
            dd = maxdiff(ga, gb)
            worst = max(worst, dd)
            if dd > 1e-8:
                res["problems"].append(f"fast trunk path differs from the plain network with the same weights in the parameter gradient of "
                                       f"mean(u^2)+mean(u_x^2)+mean(u_xx^2) for parameter {nm} (max relative difference {dd:.3g}); {pattern}")
        res["o4"].append(worst if worst != math.inf else 1e300)
        res["grad1"] = da[1]
    except Exception as ex:
        res["problems"].append(f"differentiating through the DeepONet raised {type(ex).__name__}: {str(ex)[:160]}")

    # ---- trunk.vjp: cotangent on the trunk features, gradients w.r.t. input and trunk parameters
    if case.get("seq"):
        return res
    try:
        x = trunk_tensor(case).clone().requires_grad_(True)
        tf = fast.trunk(tp.spaces.Points(x, T))
        if tf.dim() == 3:
            tf = tf.unsqueeze(0)
        copies = tf.shape[0]
        G = torch.randint(-8, 9, (copies, N, d * K), generator=gen).double() / 8
        s = (tf.reshape(copies, N, d * K) * G).sum()
        grads = torch.autograd.grad(s, [x] + list(fast.trunk.parameters()))
        gx = grads[0]
        if gx.dim() == 2:
            gx = gx.unsqueeze(0)
        res["vjp_G"] = G.tolist()
        res["vjp"] = [gx.tolist()] + [t.tolist() for t in grads[1:]]
    except Exception as ex:
        res["problems"].append(f"vjp through the trunk raised {type(ex).__name__}: {str(ex)[:160]}")
    return res


def run_uniq(case):
    e = env(); tp = e["tp"]; torch = e["torch"]; np = e["np"]
    import contextlib
    T, U, Fo, Ti, Kp = spaces_of(case)
    res = dict(problems=[])
    plain, fs = build_net(case, False)
    B, N, d, K = case["B"], case["N"], case["d"], case["neurons"] // case["d"]
    ctxs = dict(no_grad=torch.no_grad, inference_mode=torch.inference_mode, grad=contextlib.nullcontext)
    what = (f"{'Sequential(NormalizationLayer, plain trunk)' if case.get('seq') else 'plain trunk'}, one location set per function, "
            f"functions supplied as {case['primary']}, trunk input {'tracks' if case.get('xgrad') else 'does not track'} gradients, {case.get('ctx', 'grad')}")
    x = t64(case["xu"]).requires_grad_(bool(case.get("xgrad")))
    try:
        with ctxs[case.get("ctx", "grad")]():
            u = plain(tp.spaces.Points(x, T), supply(case, case["primary"], fs)).as_tensor
        out = u.detach().tolist()
    except Exception as ex:
        res["plain"] = "err:" + type(ex).__name__
        res["problems"].append(f"{what}: forward raised {type(ex).__name__}: {str(ex)[:120]}")
        return res
    res["plain"] = out
    if shape_of(out) != [B, N, d]:
        res["problems"].append(f"{what}: output shape {shape_of(out)} for {B} functions with {N} locations each, {d} components")
        return res
    bref = ref_mlp(np, case["branch"], [sum(r, []) for r in fn_values(case)], case["bacts"]).reshape(B, d, K)
    want = np.stack([np.einsum("ck,jck->jc", bref[i], ref_mlp(np, case["trunk"], model_x(case, case["xu"][i]), case["tacts"]).reshape(N, d, K))
                     for i in range(B)])
    dd = maxdiff(out, want.tolist())
    if dd > TOL:
        o = np.array(out)
        idx = np.unravel_index(np.argmax(np.abs(o - want) / np.maximum(1, np.abs(want))), want.shape)
        res["problems"].append(f"{what}: output{list(idx)}={o[idx]} is not the inner product of the branch features of function {idx[0]} "
                               f"and the trunk features of ITS location {idx[1]} ({want[idx]})")
    i, j = case["pick"]
    try:
        o1 = plain(tp.spaces.Points(t64([[case["xu"][i][j]]]), T), supply(case, "tensor3", fs, [case["params"][i]])).as_tensor.tolist()
        if shape_of(o1) != [1, 1, d] or maxdiff(o1[0][0], out[i][j]) > 1e-10:
            res["problems"].append(f"{what}: function {i} alone at its location {j} alone gives {o1}, in the batch output[{i},{j}]={out[i][j]}")
        if case.get("xgrad"):
            # derivatives w.r.t. the locations of function i: the same whether the other functions are in the batch or not
            gen = torch.Generator().manual_seed(case["A_seed"])
            A = torch.randint(-8, 9, (B, N, d), generator=gen).double() / 8
            g = torch.autograd.grad((A * u).sum(), x)[0][i]
            xi = t64([case["xu"][i]]).requires_grad_(True)
            ui = plain(tp.spaces.Points(xi, T), supply(case, "tensor3", fs, [case["params"][i]])).as_tensor
            gi = torch.autograd.grad((A[i:i + 1] * ui).sum(), xi)[0][0]
            if maxdiff(g.tolist(), gi.tolist()) > 1e-8:
                res["problems"].append(f"{what}: the derivative of the outputs of function {i} w.r.t. its locations differs from the one "
                                       f"computed for this function alone (max relative difference {maxdiff(g.tolist(), gi.tolist()):.3g})")
    except Exception as ex:
        res["problems"].append(f"{what}: re-batched evaluation raised {type(ex).__name__}: {str(ex)[:120]}")
    return res


def uniq_lines(case):
    head = f"{case['d']} {case['neurons']} {len(case['pts']) * case['fdim']} {enc(case['tacts'], str)} {enc(case['bacts'], str)} " \
           f"{enc([enc_layer(L, fbits) for L in case['trunk']], str)} {enc([enc_layer(L, fbits) for L in case['branch']], str)} " \
           f"{enc_t23([model_x(case, xi) for xi in case['xu']], fbits)} {enc(fn_values(case), fbits)}"
    return ["fwd 0 " + head]


def judge_uniq(rep, case, res, reply):
    rep.count(f"uniq:B={case['B']}")
    rep.count(f"uniq:seq={int(bool(case.get('seq')))}:xgrad={int(bool(case.get('xgrad')))}:{case.get('ctx')}")
    rep.count("uniq:primary=" + case["primary"])
    for p in res["problems"]:
        rep.fail(p, case)
    impl = res["plain"]
    if reply.startswith("err") or reply.startswith("bad-op"):
        if not isinstance(impl, str):
            rep.disagree("DeepONet.forward (plain trunk, per-function locations): model rejects " + reply, case, shape_of(impl), reply)
        return
    model = dec_all(reply, 3, unfbits)
    if isinstance(impl, str):
        rep.disagree("DeepONet.forward (plain trunk, per-function locations): implementation raised", case, impl, shape_of(model))
    elif maxdiff(impl, model) > TOL:
        rep.disagree(f"DeepONet.forward (plain trunk, per-function locations) vs TPV.DeepONet.forward in Float: {maxdiff(impl, model):.3g}", case, impl, model)


def run_conv(case):
    e = env(); tp = e["tp"]; torch = e["torch"]; np = e["np"]
    T, U, Fo, Ti, Kp = spaces_of(case)
    res = dict(problems=[])
    fs = tp.spaces.FunctionSpace(tp.domains.Interval(Ti, 0, 1), Fo)
    disc = e["Fixed"](tp.spaces.Points(t64(case["pts"]), Ti))
    torch.manual_seed(case["torch_seed"])
    B, N, d, K = case["B"], case["N"], case["d"], case["neurons"] // case["d"]
    try:
        trunk = tp.models.FCTrunkNet(T, hidden=tuple(case["trunk_hidden"]), activations=act_modules(case["tacts"], case["tform"]),
                                     xavier_gains=case["tgains"], trunk_input_copied=case.get("copied", True))
        if case.get("seq"):
            box = tp.domains.Interval(T, -2, 2) if case["din"] == 1 else tp.domains.Parallelogram(T, [-2, -2], [2, -2], [-2, 2])
            trunk = tp.models.Sequential(tp.models.NormalizationLayer(box), trunk)
        ks = case.get("conv_kernel", 1)
        conv = torch.nn.Conv1d(case["fdim"], case["fdim"], kernel_size=ks, padding=ks // 2)
        if case.get("conv_deep"):
            conv = torch.nn.Sequential(conv, torch.nn.Tanh(), torch.nn.Conv1d(case["fdim"], case["fdim"], kernel_size=1))
        branch = tp.models.ConvBranchNet1D(fs, disc, conv, hidden=tuple(case["branch_hidden"]),
                                           activations=act_modules(case["bacts"], case["bform"]), xavier_gains=case["bgains"])
        net = tp.models.DeepONet(trunk, branch, U, case["neurons"]).double()
        x = trunk_tensor(case)
        out = net(tp.spaces.Points(x, T), supply(case, case["primary"], fs)).as_tensor.detach()
        with torch.no_grad():
            tf = net.trunk(tp.spaces.Points(x, T))
            tf = (tf.unsqueeze(0) if tf.dim() == 3 else tf).numpy()
        bf = net.branch.current_out.detach().numpy()
    except Exception as ex:
        res["problems"].append(f"DeepONet with ConvBranchNet1D raised {type(ex).__name__}: {str(ex)[:160]}")
        return res
    if list(out.shape) != [B, N, d] or list(bf.shape) != [B, d, K] or list(tf.shape[-3:]) != [N, d, K] or tf.ndim != 4:
        res["problems"].append(f"ConvBranchNet1D: output {list(out.shape)}, branch features {list(bf.shape)}, trunk features {list(tf.shape)} "
                               f"for {B} functions, {N} locations, {d} components, {K} neurons each")
        return res
    want = np.einsum("ick,jck->ijc", bf, tf[0])
    res["out"] = out.tolist()
    if maxdiff(res["out"], want.tolist()) > TOL:
        res["problems"].append("ConvBranchNet1D: output is not the inner product of branch.current_out[i,c,:] and trunk(points)[j,c,:]")
    i, j = case["pick"]
    try:
        single = dict(case, rank="r2" if case["rank"] == "r2" else "r3x1")
        o1 = net(tp.spaces.Points(trunk_tensor(single, xs=[case["x"][j]]), T), supply(case, "tensor3", fs, [case["params"][i]])).as_tensor.tolist()
        if shape_of(o1) != [1, 1, d] or maxdiff(o1[0][0], res["out"][i][j]) > 1e-10:
            res["problems"].append(f"ConvBranchNet1D: function {i} alone at location {j} alone gives {o1}, in the batch {res['out'][i][j]}")
        for v in case["variants"]:
            ov = net(tp.spaces.Points(x, T), supply(case, v, fs)).as_tensor.tolist()
            if maxdiff(ov, res["out"]) > 1e-12:
                res["problems"].append(f"ConvBranchNet1D: branch input supplied as {v} gives a different output than supplied as {case['primary']}")
    except Exception as ex:
        res["problems"].append(f"ConvBranchNet1D: re-batched / re-supplied evaluation raised {type(ex).__name__}: {str(ex)[:160]}")
    return res


def run_hist(case):
    """run the history on the implementation; after every operation that returns an output, find out WHICH input
    functions the output belongs to (by comparison with the reference network on every candidate batch)"""
    e = env(); tp = e["tp"]; torch = e["torch"]; np = e["np"]
    T, U, Fo, Ti, Kp = spaces_of(case)
    res = dict(problems=[], observed=[])
    d, K, N = case["d"], case["neurons"] // case["d"], case["N"]
    nets = []
    for mw in case["models"]:
        net, fs = build_net(dict(case, trunk=mw["trunk"], branch=mw["branch"]), case.get("copied", True))
        nets.append(net)

    class Seq(tp.samplers.PointSampler):
        """a parameter sampler that returns a NEW batch at every call (records how often it was called)"""

        def __init__(self, batches):
            super().__init__(n_points=len(batches[0]))
            self.batches, self.calls = batches, 0

        def sample_points(self, params=tp.spaces.Points.empty(), device="cpu"):
            b = self.batches[min(self.calls, len(self.batches) - 1)]
            self.calls += 1
            return tp.spaces.Points(t64(b), Kp)

    samplers = [Seq(b) for b in case["sets"]]
    fsets = [tp.domains.CustomFunctionSet(fs, sm, fn_torch(case["fdim"])) for sm in samplers]
    locs = e["Fixed"](tp.spaces.Points(t64(case["x"]), T))

    class Ident(torch.nn.Module):
        def forward(self, x):
            return x

    conds = {}

    def cond(m, si):
        if (m, si) not in conds:
            conds[(m, si)] = tp.conditions.DeepONetSingleModuleCondition(
                nets[m], fsets[si], locs, residual_fn=lambda u: u, error_fn=Ident(), reduce_fn=lambda t: t)
        return conds[(m, si)]

    def ref(m, params):
        mw = case["models"][m]
        tref = ref_mlp(np, mw["trunk"], model_x(case, case["x"]), case["tacts"]).reshape(N, d, K)
        bref = ref_mlp(np, mw["branch"], [sum(r, []) for r in fn_values(case, params)], case["bacts"]).reshape(len(params), d, K)
        return np.einsum("ick,jck->ijc", bref, tref)

    def identify(m, out):
        """all candidate batches [kind, index, draw] whose reference output equals `out` (several if the network
        does not distinguish the functions, e.g. a dead ReLU)"""
        o = np.array(out)
        found = []
        for si, b in enumerate(case["sets"]):
            for dr in range(min(samplers[si].calls, len(b))):
                w = ref(m, b[dr])
                if w.shape == o.shape and np.all(np.abs(w - o) <= TOL * np.maximum(1, np.abs(w))):
                    found.append(["set", si, dr + 1])
        for ti, b in enumerate(case["fixed"]):
            w = ref(m, b)
            if w.shape == o.shape and np.all(np.abs(w - o) <= TOL * np.maximum(1, np.abs(w))):
                found.append(["fixed", ti, 0])
        return found or [["unknown", list(o.shape), 0]]

    # independent bookkeeping of what the property demands
    cur = [-1] * len(fsets); draws = [0] * len(fsets); holds = {}
    xpts = tp.spaces.Points(t64(case["x"]), T)
    for n, op in enumerate(case["ops"]):
        want, out = None, None
        try:
            if op[0] == "cond":
                _, m, si, k = op
                if k != cur[si]:
                    cur[si] = k; draws[si] += 1
                want = ["set", si, draws[si]]
                holds[m] = want
                out = cond(m, si).forward(iteration=k)
            elif op[0] == "fwd":
                _, m, ti, variant = op
                want = ["fixed", ti, 0]; holds[m] = want
                out = nets[m](xpts, supply(case, variant, fs, case["fixed"][ti])).as_tensor
            elif op[0] == "fix":
                _, m, ti = op
                holds[m] = ["fixed", ti, 0]
                nets[m].fix_branch_input(supply(case, "tensor3", fs, case["fixed"][ti]))
            else:
                _, m = op
                if m not in holds:
                    res["observed"].append(None)
                    continue
                want = holds[m]
                out = nets[m](xpts).as_tensor
        except Exception as ex:
            res["observed"].append("err:" + type(ex).__name__)
            res["problems"].append(f"history {case['ops'][:n + 1]}: operation {n} {op} raised {type(ex).__name__}: {str(ex)[:140]}")
            break
        if out is None:
            res["observed"].append(None)
            continue
        cands = identify(m, out.detach().tolist())
        got = want if want in cands else cands[0]
        res["observed"].append(got)
        res.setdefault("cands", {})[n] = cands
        if got != want:
            names = {"set": "function set", "fixed": "directly supplied batch", "unknown": "unknown functions, output shape"}
            res["problems"].append(
                f"history {case['ops'][:n + 1]}: operation {n} {op} on model {m} must return the operator applied to "
                f"{names[want[0]]} {want[1]}" + (f" (its sampling no. {want[2]})" if want[0] == "set" else "") +
                f", but the output is the one of {names[got[0]]} {got[1]}" + (f" (sampling no. {got[2]})" if got[0] == "set" else "")
                + ": the stored branch features belong to other input functions")
            break
    return res


def run_reuse(case):
    e = env(); tp = e["tp"]; torch = e["torch"]; np = e["np"]
    import contextlib
    T, U, Fo, Ti, Kp = spaces_of(case)
    res = dict(problems=[], observed=[])
    d, K, N = case["d"], case["neurons"] // case["d"], case["N"]
    net, fs = build_net(case, case.get("copied", True))
    F = formula(case["fdim"])
    kind = case["obj"]

    class Seq(tp.samplers.PointSampler):
        def __init__(self, owner):
            super().__init__(n_points=len(case["contents"][0]))
            self.owner = owner

        def sample_points(self, params=tp.spaces.Points.empty(), device="cpu"):
            return tp.spaces.Points(t64(case["contents"][self.owner["cv"]]), Kp)

    class Fn:
        """a callable object whose parameters are public attributes"""

        def __init__(self, k):
            self.k = list(k)

        def __call__(self, t):
            return F(t, self.k[0], self.k[1], self.k[2])

    state = dict(cv=0, wv=0)

    def values(cv):
        v = fn_values(case, case["contents"][cv])
        return v[0] if kind in ("tensor2", "points2") else v

    if kind in ("tensor3", "tensor2"):
        obj = t64(values(0))
    elif kind in ("points3", "points2"):
        obj = tp.spaces.Points(t64(values(0)), Fo)
    elif kind == "callable":
        obj = Fn(case["contents"][0][0])
    else:
        obj = tp.domains.CustomFunctionSet(fs, Seq(state), fn_torch(case["fdim"]))

    def set_content(cv):
        state["cv"] = cv
        with torch.no_grad():
            if kind in ("tensor3", "tensor2"):
                obj.copy_(t64(values(cv)))
            elif kind in ("points3", "points2"):
                obj.as_tensor.copy_(t64(values(cv)))
            elif kind == "callable":
                obj.k = list(case["contents"][cv][0])
            # function set: the parameter sampler delivers the current content at the next sampling

    def set_weights(wv):
        state["wv"] = wv
        load_weights(net.trunk.models[-1] if case.get("seq") else net.trunk, case["weights"][wv]["trunk"])
        load_weights(net.branch, case["weights"][wv]["branch"])

    def ref(wv, cv):
        mw = case["weights"][wv]
        params = case["contents"][cv] if kind != "callable" else case["contents"][cv][:1]
        tref = ref_mlp(np, mw["trunk"], model_x(case, case["x"]), case["tacts"]).reshape(N, d, K)
        bref = ref_mlp(np, mw["branch"], [sum(r, []) for r in fn_values(case, params)], case["bacts"]).reshape(len(params), d, K)
        return np.einsum("ick,jck->ijc", bref, tref)

    def fingerprint():
        if kind in ("tensor3", "tensor2"):
            return obj.tolist()
        if kind in ("points3", "points2"):
            return obj.as_tensor.tolist()
        if kind == "callable":
            return list(obj.k)
        return None

    ctxs = dict(no_grad=torch.no_grad, inference_mode=torch.inference_mode, grad=contextlib.nullcontext)
    x = trunk_tensor(case)
    kept = []
    steps = ["first"] + case["changes"]
    for n, ch in enumerate(steps):
        if ch in ("content", "both"):
            set_content(state["cv"] + 1)
        if ch in ("weights", "both"):
            set_weights(state["wv"] + 1)
        before = fingerprint()
        try:
            with ctxs[case["ctx"]]():
                out = net(tp.spaces.Points(x, T), obj).as_tensor
        except Exception as ex:
            res["problems"].append(f"call {n} with the same {kind} object under {case['ctx']} raised {type(ex).__name__}: {str(ex)[:140]}")
            break
        if fingerprint() != before:
            res["problems"].append(f"call {n}: DeepONet.forward changed the user's {kind} object (values before/after differ)")
        o = out.detach().tolist()
        kept.append((out, o))
        want = ref(state["wv"], state["cv"])
        tags = [f"w{wv}c{cv}" for wv in range(state["wv"] + 1) for cv in range(state["cv"] + 1)
                if ref(wv, cv).shape == np.array(o).shape and maxdiff(o, ref(wv, cv).tolist()) <= TOL]
        res["observed"].append(tags or ["unknown"])
        if maxdiff(o, want.tolist()) > TOL:
            res["problems"].append(
                f"the same {kind} object handed to DeepONet.forward again under {case['ctx']} (calls so far: {steps[:n + 1]}): call {n} must equal a "
                f"fresh model with the current weights (version {state['wv']}) on the current content (version {state['cv']}) of the object, "
                f"but the output is the one of {tags or 'no known'} (w = weights version, c = content version); max relative difference "
                f"{maxdiff(o, want.tolist()):.3g}")
            break
    # results must not alias buffers that later calls overwrite
    for n, (t, o) in enumerate(kept):
        if t.detach().tolist() != o:
            res["problems"].append(f"the output tensor returned by call {n} changed its values during later calls (aliases an internal buffer)")
            break
    res["final"] = [state["wv"], state["cv"]]
    return res


def net_lines(case, res):
    """driver requests of one net case: fwd fast, fwd plain, out (exact contraction), vjp"""
    x = trunk_tensor(case, xs=model_x(case, case["x"])).tolist()
    prim = case["primary"]
    if prim == "tensor3bad":
        fb = supply(case, prim, None).tolist()
    else:
        fb = fn_values(case)
    head = f"{case['d']} {case['neurons']} {len(case['pts']) * case['fdim']} {enc(case['tacts'], str)} {enc(case['bacts'], str)} " \
           f"{enc([enc_layer(L, fbits) for L in case['trunk']], str)} {enc([enc_layer(L, fbits) for L in case['branch']], str)} " \
           f"{enc_t23(x, fbits)} {enc(fb, fbits)}"
    lines = ["fwd 1 " + head, "fwd 0 " + head]
    if "tfeat" in res:
        tf = res["tfeat"]
        lines.append(f"out {case['d']} {case['neurons']} 3 {enc(tf, q)} {enc(res['bfeat'], q)}")
    else:
        lines.append("skip")
    if "vjp" in res:
        lines.append(f"vjp {enc(case['tacts'], str)} {enc([enc_layer(L, fbits) for L in case['trunk']], str)} {enc_t23(x, fbits)} {enc(res['vjp_G'], fbits)}")
    else:
        lines.append("skip")
    return lines


def judge_net(rep, case, res, replies):
    rep.count("net:rank=" + case["rank"])
    if case.get("seq"):
        rep.count("net:sequential-trunk")
    rep.count("net:primary=" + case["primary"])
    rep.count("net:requires_grad pattern=" + str(case.get("req_pattern")))
    for kk in res.get("pg_kinds", []):
        rep.count("net:parameter gradient fast/plain " + kk)
    if "callable_d" in case["variants"]:
        rep.count(f"net:callable with {case['cdef'][1]} defaults ({case['cdef'][0]})")
    rep.count(f"net:function set with {case['fsdef'][1]} defaults ({case['fsdef'][0]})")
    rep.count(f"net:d={case['d']}")
    rep.count(f"net:trunk-hidden-layers={len(case['trunk_hidden'])}")
    rep.count("net:trunk-activations=" + ("one object" if case["tform"] == "single" else
                                          f"{case['tform']}, {len(set(case['tacts']))} distinct"))
    for c in set(case["tacts"]) | set(case["bacts"]):
        rep.count("net:activation=" + ACT_NAMES[c])
    rep.count(f"net:B={case['B']}")
    for p in res["problems"]:
        rep.fail(p, case)
    if res.get("o4"):
        rep.hist["max reldiff fast-vs-plain (out, d1, d2, param grad)"] = [
            max(a, b) for a, b in zip(rep.hist.get("max reldiff fast-vs-plain (out, d1, d2, param grad)", [0.0] * 4), res["o4"])]
    rfast, rplain, rout, rvjp = replies
    if case["primary"] == "tensor3bad":
        # a tensor with a wrong number of discretisation points has no specified result (the pinned code re-cuts the
        # flat data or fails in the broadcast; raising a clear error would be just as good): informational only
        for name, reply in (("fast", rfast), ("plain", rplain)):
            impl = res[name]
            mrej = reply.startswith("err") or reply.startswith("bad-op")
            same = (mrej and isinstance(impl, str)) or (not mrej and not isinstance(impl, str)
                                                         and maxdiff(impl, dec_all(reply, 3, unfbits)) <= TOL)
            rep.count("malformed-branch-tensor:" + ("model=impl" if same else "model!=impl (not judged)"))
        return
    for name, reply in (("fast", rfast), ("plain", rplain)):
        impl = res[name]
        if reply.startswith("err") or reply.startswith("bad-op"):
            if not isinstance(impl, str):
                rep.disagree(f"DeepONet.forward ({name} trunk): model rejects the input ({reply}), implementation returns a value", case, shape_of(impl), reply)
            else:
                rep.count("net:both-reject")
            continue
        model = dec_all(reply, 3, unfbits)
        if isinstance(impl, str):
            rep.disagree(f"DeepONet.forward ({name} trunk): implementation raised, model returns a value", case, impl, shape_of(model))
            continue
        dd = maxdiff(impl, model)
        rep.hist["max reldiff model-vs-implementation forward"] = max(rep.hist.get("max reldiff model-vs-implementation forward", 0.0), dd)
        if dd > TOL:
            rep.disagree(f"DeepONet.forward ({name} trunk) vs TPV.DeepONet.forward in Float: max relative difference {dd:.3g}", case, impl, model)
    if rout != "skip" and "tfeat" in res:
        if rout.startswith("err") or rout.startswith("bad-op"):
            rep.disagree("contraction of the exposed features: model rejects " + rout, case, shape_of(res["fast"]), rout)
        else:
            model = dec_all(rout, 3, lambda t: float(Fraction(t)))
            dd = maxdiff(res["fast"], model)
            if dd > 1e-12:
                rep.disagree(f"torch.sum(trunk*branch) vs exact rational TPV.DeepONet.contract of the same features: {dd:.3g}", case, res["fast"], model)
    if rvjp != "skip" and "vjp" in res:
        if rvjp.startswith("err") or rvjp.startswith("bad-op"):
            rep.disagree("trunk vjp: model rejects " + rvjp, case, None, rvjp)
        else:
            parts = rvjp.split(" ; ")
            model = [dec_all(parts[0], 3, unfbits)]
            for k, p in enumerate(parts[1:]):
                model.append(dec_all(p, 2 if k % 2 == 0 else 1, unfbits))
            impl = res["vjp"]
            if len(model) != len(impl):
                rep.disagree("trunk vjp: number of gradient tensors", case, len(impl), len(model))
            else:
                for k, (a, b) in enumerate(zip(impl, model)):
                    dd = maxdiff(a, b)
                    rep.hist["max reldiff model-vs-implementation vjp"] = max(rep.hist.get("max reldiff model-vs-implementation vjp", 0.0), dd)
                    if dd > TOL:
                        what = "input" if k == 0 else f"parameter tensor {k - 1}"
                        rep.disagree(f"autograd through the fast trunk vs reverse sweep with the coded backward formulas, gradient of {what}: {dd:.3g}", case, a, b)
                        break


# ---- single layer, exact

def run_lin(case):
    e = env(); torch = e["torch"]
    from torchphysics.models.deeponet.layers import TrunkLinear
    res = dict(problems=[])
    nout, nin = len(case["W"]), len(case["W"][0])
    has_b = case["b"] is not None

    def mk(cls):
        m = cls(nin, nout, bias=has_b).double()
        with torch.no_grad():
            m.weight.copy_(t64(case["W"]))
            if has_b:
                m.bias.copy_(t64(case["b"]))
        return m

    def run(m):
        x = t64(case["x"]).requires_grad_(True)
        g = t64(case["g"]).requires_grad_(True)
        y = m(x)
        gy = g if y.dim() == 3 else g[0]
        ps = [x, m.weight] + ([m.bias] if has_b else [])
        grads = torch.autograd.grad(y, ps, gy, create_graph=True)
        # double backward: differentiate <grad_input, v> w.r.t. the weight and the cotangent
        v = t64(case["v"])
        vv = v if grads[0].dim() == 3 else v[0]
        s = (grads[0] * vv).sum()
        try:
            dd = torch.autograd.grad(s, [m.weight, g], allow_unused=True)
            ddw, ddg = [None if t is None else t.tolist() for t in dd]
        except RuntimeError as ex:   # the first-order gradient carries no graph
            ddw = ddg = "not differentiable: " + str(ex)[:60]
        return dict(y=y.tolist(), gx=grads[0].tolist(), gw=grads[1].tolist(), gb=grads[2].tolist() if has_b else None,
                    ddw=ddw, ddg=ddg)

    try:
        res["fast"] = run(mk(TrunkLinear))
    except Exception as ex:
        res["fast"] = "err:" + type(ex).__name__
        res["problems"].append(f"TrunkLinear raised {type(ex).__name__}: {str(ex)[:160]}")
        return res
    if case["shared"]:
        ref = run(mk(torch.nn.Linear))
        f = res["fast"]
        y = f["y"]
        if case["rank"] == 2:
            # the fast layer answers a rank-2 input with one leading axis of length 1
            if shape_of(y) == [1] + shape_of(ref["y"]):
                y = y[0]
        names = dict(y="output", gx="gradient w.r.t. the input", gw="gradient w.r.t. the weight", gb="gradient w.r.t. the bias",
                     ddw="double backward: d<grad_input,v>/d weight", ddg="double backward: d<grad_input,v>/d grad_output")
        for key, nm in names.items():
            a = y if key == "y" else f[key]
            b = ref[key]
            if key == "gb" and not has_b:
                continue
            if a != b:
                res["problems"].append(f"TrunkLinear differs from torch.nn.Linear with the same weights on a shared input in the {nm}: {a} vs {b}")
        # the same layer under a requires_grad pattern (input, weight, bias): `.grad` after backward, None / zero / value
        req = case.get("req", [1, 1, 1])
        if any(req) and not all(req):
            def flagged(m):
                x = t64(case["x"]).requires_grad_(bool(req[0]))
                m.weight.requires_grad_(bool(req[1]))
                if has_b:
                    m.bias.requires_grad_(bool(req[2]))
                y = m(x)
                if not y.requires_grad:
                    return None
                gy = t64(case["g"])
                y.backward(gy if y.dim() == 3 else gy[0])
                ts = [("input", x), ("weight", m.weight)] + ([("bias", m.bias)] if has_b else [])
                return {n: (None if t.grad is None else t.grad.tolist()) for n, t in ts}
            try:
                ga, gb_ = flagged(mk(TrunkLinear)), flagged(mk(torch.nn.Linear))
            except Exception as ex:
                res["problems"].append(f"TrunkLinear with requires_grad (input, weight, bias)={req} raised {type(ex).__name__}: {str(ex)[:120]}")
                return res
            if (ga is None) != (gb_ is None):
                res["problems"].append(f"requires_grad (input, weight, bias)={req}: one of TrunkLinear / nn.Linear produced an output without graph")
            elif ga is not None:
                for n in ga:
                    a, b = ga[n], gb_[n]
                    if a == b:
                        continue
                    zero = lambda v: v is None or maxdiff(v, [[0.0] * len(r) for r in v] if isinstance(v[0], list) else [0.0] * len(v)) == 0.0
                    if n == "input" and a is not None and b is not None and _depth(a) != _depth(b):
                        continue
                    if zero(a) and zero(b):
                        continue
                    res["problems"].append(f"requires_grad (input, weight, bias)={req}: gradient of the {n} after backward: "
                                           f"TrunkLinear {a} vs torch.nn.Linear {b}")
    return res


def lin_line(case):
    g = case["g"]
    return f"lin {enc_t23(case['x'], q)} {enc_layer([case['W'], case['b']], q)} {enc(g, q)}"


def judge_lin(rep, case, res, reply):
    rep.count(f"lin:rank={case['rank']}:shared={int(case['shared'])}:bias={int(case['b'] is not None)}")
    rep.count(f"lin:requires_grad(input,weight,bias)={case.get('req')}")
    for p in res["problems"]:
        rep.fail(p, case)
    f = res["fast"]
    if isinstance(f, str):
        if not reply.startswith("err"):
            rep.disagree("TrunkLinear raised, model returns a value", case, f, reply[:80])
        return
    if reply.startswith("err") or reply.startswith("bad-op"):
        rep.disagree("TrunkLinear: model rejects " + reply, case, shape_of(f["y"]), reply)
        return
    fr = lambda t: float(Fraction(t))
    py, pgx, pgw, pgb = reply.split(" ; ")
    toks = py.split()
    my = dec_all(" ".join(toks[1:]), int(toks[0]), fr)
    mgx = dec_all(pgx, 3, fr)
    mgw = dec_all(pgw, 2, fr)
    mgb = dec_all(pgb, 1, fr)
    igx = f["gx"] if _depth(f["gx"]) == 3 else [f["gx"]]
    iy = f["y"] if _depth(f["y"]) == 3 else [f["y"]]      # a rank-2 answer to a rank-2 input is as good as (1, rows, out)
    my = my if _depth(my) == 3 else [my]
    for nm, a, b in (("output", iy, my), ("grad_input", igx, mgx), ("grad_weight", f["gw"], mgw)) + \
            ((("grad_bias", f["gb"], mgb),) if f["gb"] is not None else ()):
        if a != b:
            rep.disagree(f"TrunkLinear {nm} vs TPV.DeepONet.fastLinear/gradInput/gradWeight/gradBias (exact)", case, a, b)
            break


# ---- function sets

def run_mesh(case):
    e = env(); tp = e["tp"]; torch = e["torch"]
    S = tp.spaces
    Kp = {1: S.R1, 2: S.R2}[case["pdim"]]("k")
    Ti = S.R1("t"); Fo = S.R1("f")
    fs = S.FunctionSpace(tp.domains.Interval(Ti, 0, 1), Fo)
    seen = []

    def f(k, t):
        seen.append((k.tolist(), t.tolist()))
        return k[..., :1] * 2 + t * t

    sets = [tp.domains.CustomFunctionSet(fs, e["Fixed"](tp.spaces.Points(t64(p), Kp)), f) for p in case["sets"]]
    fset = sets[0]
    for s in sets[1:]:
        fset = fset + s
    res = dict(problems=[])
    pts = tp.spaces.Points(t64(case["pts"]), Ti)
    try:
        fset.sample_params()
        batch = fset.create_function_batch(pts).as_tensor.tolist()
    except Exception as ex:
        res["problems"].append(f"create_function_batch raised {type(ex).__name__}: {str(ex)[:160]}")
        return res
    res["mesh"] = [[[kk + tt for kk, tt in zip(krow, trow)] for krow, trow in zip(k, t)] for k, t in seen]
    res["batch"] = batch
    allp = [p for s in case["sets"] for p in s]
    want = [[[p[0] * 2 + x[0] * x[0]] for x in case["pts"]] for p in allp]
    if len(fset) != len(allp):
        res["problems"].append(f"len(function set)={len(fset)} for {len(allp)} parameter rows")
    if batch != want:
        res["problems"].append(f"function batch row i is not function i evaluated at the discretisation points: {batch} vs {want}")
    return res


def mesh_lines(case):
    return [f"mesh {enc(p, q)} {enc(case['pts'], q)}" for p in case["sets"]]


def judge_mesh(rep, case, res, replies):
    rep.count(f"mesh:sets={len(case['sets'])}")
    for p in res["problems"]:
        rep.fail(p, case)
    if "mesh" not in res:
        return
    model = [dec_all(r, 3, lambda t: float(Fraction(t))) for r in replies]
    if model != res["mesh"]:
        rep.disagree("FunctionSet._create_meshgrid (as seen by the user function) vs TPV.DeepONet.meshgrid (exact)", case, res["mesh"], model)


# ---- output_neurons not divisible by the output dimension

def run_nondiv(case):
    e = env(); tp = e["tp"]; torch = e["torch"]
    S = tp.spaces
    T = S.R1("x"); U = {2: S.R2, 3: S.R3}[case["d"]]("u"); Ti = S.R1("t"); Fo = S.R1("f")
    fs = S.FunctionSpace(tp.domains.Interval(Ti, 0, 1), Fo)
    disc = e["Fixed"](tp.spaces.Points(t64([[0.0], [0.5], [1.0]]), Ti))
    res = dict(problems=[])
    gen = torch.Generator().manual_seed(case["seed"])
    torch.manual_seed(case["seed"])
    try:
        trunk = tp.models.FCTrunkNet(T, hidden=(3,), trunk_input_copied=case["copied"])
        branch = tp.models.FCBranchNet(fs, disc, hidden=(3,))
        net = tp.models.DeepONet(trunk, branch, U, case["neurons"]).double()
    except Exception as ex:
        res["impl"] = "err:neurons"
        res["how"] = f"construction raised {type(ex).__name__}"
        return res
    x = torch.rand((case["N"], 1), generator=gen, dtype=torch.float64)
    if case["rank"] == "r3x1":
        x = x.unsqueeze(0)
    fb = torch.rand((case["B"], 3, 1), generator=gen, dtype=torch.float64)
    try:
        out = net(tp.spaces.Points(x, T), fb).as_tensor
    except Exception as ex:
        res["impl"] = "err:neurons"
        res["how"] = f"forward raised {type(ex).__name__}"
        return res
    res["impl"] = list(out.shape)
    if list(out.shape) == [case["B"], case["N"], case["d"]]:
        # a design that accepts such sizes (e.g. by rounding the neurons up) is fine as long as every
        # (function, location) pair still has its own output: function 0 alone at location 0 alone
        try:
            x1 = x[..., :1, :]
            o1 = net(tp.spaces.Points(x1, T), fb[:1]).as_tensor
            if maxdiff(o1[0][0].tolist(), out[0][0].tolist()) <= 1e-10:
                res["impl"] = "accepted-consistently"
                return res
        except Exception:
            pass
    res["problems"].append(
        f"DeepONet(output dimension {case['d']}, output_neurons={case['neurons']}) evaluated on {case['B']} functions and "
        f"{case['N']} locations returns a tensor of shape {list(out.shape)}: the features of different functions/locations "
        f"are mixed by the reshape (there is no output for 'function i, location j')")
    return res


def judge_nondiv(rep, case, res, reply):
    rep.count("nondiv:" + ("rejected" if res["impl"] == "err:neurons" else str(res["impl"]) if isinstance(res["impl"], str) else "accepted-with-mixed-rows"))
    for p in res["problems"]:
        rep.fail(p, case)
    if reply != "err:neurons":
        rep.disagree("finalize: the model accepts output_neurons not divisible by the output dimension", case, res["impl"], reply)
    elif res["impl"] not in ("err:neurons", "accepted-consistently"):
        rep.disagree("DeepONet with output_neurons not divisible by the output dimension: model rejects, implementation mixes rows", case, res["impl"], reply)


# ------------------------------------------------------------------------------------------

def evaluate(case):
    k = case["kind"]
    if k == "net":
        res = run_net(case)
        return res, net_lines(case, res)
    if k == "reuse":
        # every call hands the (same) object over again: `fix 0 <tag>`, the tag numbers (weights, content) versions
        tags, wv, cv = [], 0, 0
        for ch in ["first"] + case["changes"]:
            cv += ch in ("content", "both"); wv += ch in ("weights", "both")
            tags.append(wv * 10 + cv)
        return run_reuse(case), [f"hist {len(tags)} " + " ".join(f"fix 0 {t}" for t in tags)]
    if k == "hist":
        toks = []
        for op in case["ops"]:
            if op[0] == "cond":
                toks.append(f"fb {op[1]} {op[2]} {op[3]}")
            elif op[0] in ("fwd", "fix"):
                toks.append(f"fix {op[1]} {op[2]}")
        nops = sum(1 for op in case["ops"] if op[0] != "eval")
        return run_hist(case), [f"hist {nops} " + " ".join(toks)]
    if k == "conv":
        return run_conv(case), []
    if k == "uniq":
        return run_uniq(case), uniq_lines(case)
    if k == "lin":
        return run_lin(case), [lin_line(case)]
    if k == "mesh":
        return run_mesh(case), mesh_lines(case)
    if k == "nondiv":
        return run_nondiv(case), [f"finalize {case['d']} {case['neurons']}"]
    raise ValueError(k)


def guarded_evaluate(case):
    """an exception that escapes from the evaluation of a VALID configuration is a failing input of the property
    (the implementation raised, or returned something of an unexpected shape), never trouble of the machinery"""
    try:
        return evaluate(case)
    except common.HarnessTrouble:
        raise
    except Exception as ex:
        import traceback
        tb = traceback.extract_tb(ex.__traceback__)
        where = next((f"{fr.filename.split('/src/')[-1]}:{fr.lineno}" for fr in reversed(tb) if "/torchphysics/" in fr.filename), f"{tb[-1].name}:{tb[-1].lineno}")
        return dict(problems=[f"evaluating a valid {case['kind']} configuration raised {type(ex).__name__}: {str(ex)[:160]} (at {where})"],
                    crashed=True), []


def judge(rep, case, res, replies):
    k = case["kind"]
    if res.get("crashed"):
        for p in res["problems"]:
            rep.fail(p, case)
        return
    if k == "net":
        judge_net(rep, case, res, replies)
    elif k == "reuse":
        rep.count(f"reuse:{case['obj']}:{case['ctx']}")
        rep.count(f"reuse:trunk={'fast' if case.get('copied', True) else 'plain'}:seq={int(bool(case.get('seq')))}")
        for ch in case["changes"]:
            rep.count("reuse:change=" + ch)
        for p in res["problems"]:
            rep.fail(p, case)
        pred = replies[0].split()
        for n, tags in enumerate(res["observed"]):
            if n >= len(pred) or not pred[n].startswith("fixed:"):
                rep.disagree("reuse: TPV.DeepONet.Hist.step gives no source for call " + str(n), case, tags, pred)
                break
            t = int(pred[n].split(":")[1])
            if f"w{t // 10}c{t % 10}" not in tags:
                rep.disagree(f"reuse: call {n} of the implementation belongs to {tags}, TPV.DeepONet.Hist.step (fix always re-evaluates) "
                             f"predicts w{t // 10}c{t % 10}", case, tags, pred[n])
                break
    elif k == "hist":
        rep.count(f"hist:models={len(case['models'])}:sets={len(case['sets'])}")
        rep.count(f"hist:trunk={'fast' if case.get('copied', True) else 'plain'}:seq={int(bool(case.get('seq')))}")
        rep.count("hist:operations", len(case["ops"]))
        for p in res["problems"]:
            rep.fail(p, case)
        # correspondence: the source TPV.DeepONet.Hist.step predicts for the model after every operation
        pred = replies[0].split()
        last, ti = {}, 0
        for n, op in enumerate(case["ops"]):
            if op[0] != "eval":
                if ti >= len(pred):
                    break
                last[op[1]] = pred[ti]; ti += 1
            cands = res.get("cands", {}).get(n)
            if cands is None:
                continue
            txt = [f"set:{c[1]}:{c[2]}" if c[0] == "set" else f"fixed:{c[1]}" if c[0] == "fixed" else "unknown" for c in cands]
            if last.get(op[1]) not in txt:
                rep.disagree(f"history: after operation {n} {op} the implementation's output belongs to {txt}, "
                             f"TPV.DeepONet.Hist.step predicts {last.get(op[1])}", case, txt, last.get(op[1]))
                break
    elif k == "conv":
        rep.count(f"conv-branch (oracles only):trunk={'fast' if case.get('copied', True) else 'plain'}:seq={int(bool(case.get('seq')))}")
        for p in res["problems"]:
            rep.fail(p, case)
    elif k == "uniq":
        judge_uniq(rep, case, res, replies[0])
    elif k == "lin":
        judge_lin(rep, case, res, replies[0])
    elif k == "mesh":
        judge_mesh(rep, case, res, replies)
    else:
        judge_nondiv(rep, case, res, replies[0])


def key_of(case):
    k = case["kind"]
    if k == "reuse":
        return ["reuse", case["obj"], case["ctx"], case["changes"], case["B"], case["rank"]]
    if k == "hist":
        return ["hist", len(case["models"]), [len(b[0]) for b in case["sets"]], case["ops"]]
    if k in ("net", "uniq", "conv"):
        return [k, case["din"], case["d"], case["neurons"], case["trunk_hidden"], case["branch_hidden"], case["tacts"], case["tform"],
                case["bacts"], case["bform"], case["fdim"],
                case["B"], case["N"], case["rank"], case["primary"], len(case["pts"])]
    if k == "lin":
        return ["lin", shape_of(case["x"]), shape_of(case["W"]), case["b"] is not None, case["shared"]]
    if k == "mesh":
        return ["mesh", [len(s) for s in case["sets"]], case["pdim"], len(case["pts"])]
    return ["nondiv", case["d"], case["neurons"], case["B"], case["N"], case["copied"], case["rank"]]


def nontrivial(case):
    k = case["kind"]
    if k == "reuse":
        return any(c != "none" for c in case["changes"])
    if k == "hist":
        return len(case["ops"]) >= 3
    if k in ("net", "uniq", "conv"):
        return case["B"] * case["N"] >= 2 and case["primary"] != "tensor3bad"
    if k == "lin":
        return len(case["W"]) * len(case["W"][0]) >= 2
    if k == "mesh":
        return sum(len(s) for s in case["sets"]) >= 2 and len(case["pts"]) >= 2
    return True


def sample_of(case, res, replies):
    k = case["kind"]
    if res.get("crashed"):
        return dict(kind=k, crashed=res["problems"])
    if k == "net":
        return dict(kind="net", arch=key_of(case), implementation_output=res.get("fast") if not isinstance(res.get("fast"), list) else res["fast"][0][:2],
                    fast_vs_plain_maxreldiff=res.get("o4"), variants_maxdiff=res.get("variants"), model_reply_head=replies[0][:60])
    if k == "reuse":
        return dict(kind="reuse", object=case["obj"], context=case["ctx"], changes=case["changes"], observed=res.get("observed"))
    if k == "hist":
        return dict(kind="hist", models=len(case["models"]), set_sizes=[len(b[0]) for b in case["sets"]], ops=case["ops"],
                    observed_source_per_op=res.get("observed"))
    if k == "conv":
        return dict(kind="conv", arch=key_of(case), implementation_output=res["out"][0][:2] if "out" in res else None)
    if k == "uniq":
        return dict(kind="uniq", arch=key_of(case), implementation_output=res["plain"][0][:2] if isinstance(res.get("plain"), list) else res.get("plain"),
                    model_reply_head=replies[0][:60])
    if k == "lin":
        return dict(kind="lin", case=case, implementation=res.get("fast"), model=replies[0])
    if k == "mesh":
        return dict(kind="mesh", case=case, implementation=res.get("batch"), model=replies[0][:120])
    return dict(kind="nondiv", case=case, implementation=res.get("impl"), how=res.get("how"), model=replies[0])


def run(ctx, rep, cases=None):
    rep.rule = ("net: random FC trunk/branch architectures (float64, 1-4 hidden layers, per-layer activation lists from tanh/sigmoid/softplus/sin/ReLU/identity or one activation object), rank-2/rank-3 trunk inputs, all branch-input variants; "
                "non-trivial = at least 2 (function, location) pairs and a well-formed input; lin: one TrunkLinear layer, exact, "
                "non-trivial = weight with >= 2 entries; mesh: >= 2 functions and >= 2 points; distinct = distinct shape/architecture keys")
    cases = cases if cases is not None else gen_cases(ctx)
    evaluated, lines, spans = [], [], []
    for c in cases:
        res, ls = guarded_evaluate(c)
        evaluated.append(res)
        spans.append((len(lines), len(lines) + len(ls)))
        lines += ls
    real = [l for l in lines if l != "skip"]
    try:
        answers = iter(common.run_driver("C09", real))
    except common.DriverFailure:
        for c, r in zip(cases, evaluated):
            for p in r["problems"]:
                rep.fail(p, c)
        raise
    replies = [next(answers) if l != "skip" else "skip" for l in lines]
    for c, r, (a, b) in zip(cases, evaluated, spans):
        rp = replies[a:b]
        rep.case(key_of(c), nontrivial(c), sample=sample_of(c, r, rp), kind=c["kind"] + str(c.get("rank", "")))
        judge(rep, c, r, rp)


def search_only(ctx, rep):
    """the driver is broken: run the property oracles alone"""
    for c in gen_cases(ctx):
        res, _ = guarded_evaluate(c)
        for p in res["problems"]:
            rep.fail(p, c)


def replay(ctx, obj):
    rep = common.Report(ctx)
    inp = obj.get("failing_input") or obj.get("first")
    case = inp["input"]
    lean = common.lean_check("C09")
    run(ctx, rep, [case])
    return common.finish(ctx, rep, lean)
