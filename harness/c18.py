"""C18 — the bounding box encloses the domain.

Correspondence: `Domain.bounding_box(params)` of generated domain expressions (all primitives, Boolean
operations, products incl. dependent ones with the partner's data supplied, Translate / Rotate with
constant and parameter-dependent motions, boundaries; 0-3 parameter rows) against the Lean model
`bboxCall` evaluated in exact rational arithmetic (lean/TPV/Model/GeomBox.lean; the theorems of
lean/TPV/Props/C18.lean are about exactly these definitions).  Shape exactly, numbers within TOL.

Property oracles (run on every case, independent of the model's box):
  * enclosure — exact points (corners / extreme points / interior points of every leaf, mapped forward
    through the motions in exact arithmetic, random dyadic points, the library's own samples) that the
    exact membership evaluation (the algorithm `contains_iff_mem` proves equal to the denoted set)
    puts inside the domain for a parameter row must lie in the returned box for that row;
  * shape — a flat vector of 2·dim entries for at most one parameter row;
  * tightness — for a primitive evaluated at a single row every bound is attained by a point of the set;
  * consumers — NormalizationLayer(D) maps member points into [-1, 1]^d; the Latin-hypercube proposals
    built from the box lie in the box, one per stratum and axis (so the strata cover the whole box).
"""
import itertools
from fractions import Fraction as Fr

import common
import geomgen
from geomgen import Gen, Node, PF, c, v, env_tokens, DIM, dy

ATOL, RTOL, BATOL = "1/100000000", "1/100000", "1/100000"
TOL = 3e-5            # float32 implementation vs exact model, relative to 1 + largest |coordinate|

F_ROWS = None   # (closed: repaired in /repo ef88415)
F_DEP = "product_dependent_bbox_sampled"


MARK = 12345.0        # what the harness writes into returned tensors between the calls of a history


def marked(bx):
    return (" (12345 is the value the harness wrote into the tensor an EARLIER call returned: the object handed out its own stored state, "
            "or a composite wrote into an operand's stored box)") if any(abs(x) == MARK for x in bx) else ""


def tol_of(vals):
    return TOL * (1 + max([abs(float(x)) for x in vals] + [0.0]))


# ---------------------------------------------------------------------------------------------
# generation

def vary_motions(node, rng, params):
    """make some motions parameter-dependent (Gen only produces constant rotations)"""
    for kid in node.kids:
        vary_motions(kid, rng, params)
    if node.kind == "rotate" and params and not node.pfs[0].vars() and not node.pfs[1].vars() and rng.random() < 0.5:
        m, ctr = node.pfs
        co, si = m.terms[0][1], m.terms[2][1]
        p = rng.choice(params)
        al = dy(rng, -1, 1, 4) or Fr(1, 4)
        if si != 0:      # a = co + al*p, b = si  (det = a² + b² > 0)
            a = ("+", c(co), ("*", c(al), v(p)))
            node.pfs[0] = PF([a, c(-si), c(si), a])
        else:
            b = ("*", c(al), v(p))
            node.pfs[0] = PF([c(co), ("n", b), b, c(co)])
        if rng.random() < 0.5:
            q_ = rng.choice(params)
            node.pfs[1] = PF([("+", ctr.terms[0], ("*", c(dy(rng, -1, 1, 4)), v(q_))), ctr.terms[1]])
    return node


def indep_prim2(rng, params, var="x"):
    """parallelogram / triangle whose corners depend on the parameters INDEPENDENTLY (scaling, shearing, rhombus,
    a moving origin), |det| >= 1/4 for all parameter values k/16 in [0, 1] (checked exactly on the whole grid the rows are drawn from) (Gen.prim2 only shifts all corners alike)"""
    grid = [Fr(i, 16) for i in range(17)]
    while True:
        kind = rng.choice(["par", "par", "tri"])
        style = rng.choice(["free", "free", "rhombus", "scale"])
        p = rng.choice(params)
        if style == "rhombus":       # (-a t, 0), (0, -b), (0, b): the fourth corner is (a t, 0)
            a, b = dy(rng, 0.5, 3, 4), dy(rng, 0.5, 2, 4)
            ox, oy = dy(rng, -1, 1), dy(rng, -1, 1)
            e = ("+", c(Fr(1, 4)), v(p))
            terms = [[("-", c(ox), ("*", c(a), e)), c(oy)], [c(ox), c(oy - b)], [c(ox), c(oy + b)]]
        elif style == "scale":       # o fixed, both edges grow with the parameter
            o = [dy(rng, -2, 2), dy(rng, -2, 2)]
            d1 = [dy(rng, -2, 2), dy(rng, -2, 2)]
            d2 = [dy(rng, -2, 2), dy(rng, -2, 2)]
            f = ("+", c(Fr(1, 2)), ("*", c(dy(rng, 0.5, 2, 4)), v(p)))
            terms = [[c(o[0]), c(o[1])], [("+", c(o[0]), ("*", c(d1[0]), f)), ("+", c(o[1]), ("*", c(d1[1]), f))],
                     [("+", c(o[0]), ("*", c(d2[0]), f)), ("+", c(o[1]), ("*", c(d2[1]), f))]]
        else:                        # every coordinate of every corner gets its own slope (often 0)
            terms = []
            for _ in range(3):
                row = []
                for _ in range(2):
                    base = dy(rng, -3, 3)
                    if rng.random() < 0.5:
                        row.append(("+", c(base), ("*", c(dy(rng, -2, 2, 4)), v(rng.choice(params)))))
                    else:
                        row.append(c(base))
                terms.append(row)
        pfs = [PF(t) for t in terms]
        names = sorted({x for f in pfs for x in f.vars()})
        if not names:
            continue
        ok = True
        for vals in itertools.product(grid, repeat=len(names)):
            env = {n_: [val] for n_, val in zip(names, vals)}
            o, c1, c2 = [f.eval(env) for f in pfs]
            det = (c1[0] - o[0]) * (c2[1] - o[1]) - (c1[1] - o[1]) * (c2[0] - o[0])
            if abs(det) < Fr(1, 4):
                ok = False
                break
        if ok:
            return Node(kind, var, pfs)


def indep_corners(node, rng, params, prob=0.5):
    """replace some parallelogram / triangle leaves (variable x) by corner-wise parameter-dependent ones"""
    for i, kid in enumerate(node.kids):
        if kid.kind in ("par", "tri") and kid.var == "x" and rng.random() < prob:
            node.kids[i] = indep_prim2(rng, params, "x")
        else:
            indep_corners(kid, rng, params, prob)
    return node


def make_case(ctx, idx):
    rng = ctx.rng
    mode = rng.choice(["solid2", "solid2", "solid2", "solid2", "solid1", "solid3", "prod", "prod", "bdry", "prim", "prim", "cornerwise", "cornerwise", "rowcomposite"])
    params = rng.choice([[], ["t"], ["t"], ["t", "D"]])
    if mode in ("cornerwise", "rowcomposite") and not params:
        params = ["t"]
    g = Gen(rng, params=params)
    depth = rng.choice([1, 2, 2, 3, 3]) if ctx.quick else rng.choice([1, 2, 3, 3, 4])
    data_vars = []
    if mode == "solid2":
        node = g.solid(depth, "x")
    elif mode == "prim":
        node = g.prim(rng.choice(["x", "x", "y", "z"]))
    elif mode == "cornerwise":
        node = indep_prim2(rng, params, "x")
    elif mode == "rowcomposite":
        # a union / intersection / product with an operand whose motion depends on parameters, several rows:
        # the operand returns one box per row, the composite has to reduce them to the common box
        g0 = Gen(rng, params=params, p_dep=1.0)
        inner = g.prim2("x")
        if rng.random() < 0.5:
            moved = Node("translate", "x", [PF([g0.aff(dy(rng, -2, 2), 2), g0.aff(dy(rng, -2, 2), 2)])], [inner])
        else:
            co, si = rng.choice([(Fr(3, 5), Fr(4, 5)), (Fr(5, 13), Fr(12, 13)), (Fr(-4, 5), Fr(3, 5))])
            a_ = ("+", c(co), ("*", c(dy(rng, 0.25, 1, 4)), v(rng.choice(params))))
            moved = Node("rotate", "x", [PF([a_, c(-si), c(si), a_]), PF([c(dy(rng, -1, 1)), c(dy(rng, -1, 1))])], [inner])
        if rng.random() < 0.3:
            moved = Node("cut", None, [], [moved, g.prim2("x")])
        op = rng.choice(["union", "inter", "prod", "union"])
        if op == "prod":
            other = Gen(rng, params=params).prim1("y")
            node = Node("prod", None, [], [moved, other] if rng.random() < 0.5 else [other, moved])
        else:
            node = Node(op, None, [], [moved, g.solid(2, "x")] if rng.random() < 0.5 else [g.solid(2, "x"), moved])
        if rng.random() < 0.3:
            node = Node("translate", "x", [g.vec([dy(rng, -1, 1), dy(rng, -1, 1)])], [node]) if op != "prod" else node
    elif mode == "solid1":
        g.allow_rotate = False
        node = g.solid(min(depth, 3), "y")
    elif mode == "solid3":
        node = g.solid(min(depth, 2), "z")
    elif mode == "prod":
        b = Gen(rng, params=params).prim1("s")
        dep = rng.random() < 0.5
        ga = Gen(rng, params=params + (["s"] if dep else []), p_dep=0.6 if dep else 0.4)
        a = ga.solid(min(depth, 2), rng.choice(["x", "x", "z"]))
        if "s" not in a.free_vars():
            dep = False
        node = Node("prod", None, [], [a, b])
        if dep:
            # the partner's coordinates are supplied with the parameters (else: known-finding stream)
            data_vars = ["s"]
    else:
        inner = g.solid(min(depth, 2), rng.choice(["x", "x", "y", "z"]))
        node = Node("bdry", None, [], [inner])
    if params and mode not in ("cornerwise", "rowcomposite"):
        if node.kind in ("par", "tri") and node.var == "x" and rng.random() < 0.5:
            node = indep_prim2(rng, params, "x")
        else:
            indep_corners(node, rng, params)
    vary_motions(node, rng, params)
    pvars = params + data_vars
    if mode in ("cornerwise", "rowcomposite"):
        k = rng.choice([2, 2, 3, 3, 1])
    elif pvars:
        k = rng.choice([1, 1, 2, 3])
    else:
        k = rng.choice([0, 0, 1, 2])       # parameter rows may be supplied although nothing depends on them
        pvars = ["t"] if k else []
    rows = []
    for _ in range(max(k, 1)):
        rows.append({p: [str(Fr(rng.randint(0, 16), 16))] for p in pvars})
    return dict(id=idx, mode=mode, dom=node.describe(), pvars=pvars, rows=rows, k=k)


def make_rowinter_case(ctx, idx):
    """FIXED share of every run: an intersection with an operand whose Translate / Rotate depends on a parameter, asked with
    2-3 DIFFERENT rows, built so that the intersection is not empty (the partner disc contains every position of the moved
    shape) — alone or nested in a cut / union / outer motion / product.  (The situation of seeded/C18-f-m2.)"""
    rng = ctx.rng
    A = Gen(rng, params=[]).prim2("x")
    pts = leaf_points(A, {}, rng, 0)
    if rng.random() < 0.6:
        a, b = (dy(rng, 1, 3, 4) * rng.choice([-1, 1]), dy(rng, 1, 3, 4) * rng.choice([-1, 1]))
        moved = Node("translate", "x", [PF([("*", c(a), v("t")), ("+", c(dy(rng, -1, 1)), ("*", c(b), v("t")))])], [A])
        off = moved.pfs[0].eval({"t": [Fr(0)]})
        allp = [[p_[0] + off[0] + a * tt, p_[1] + off[1] + b * tt] for p_ in pts for tt in (0, 1)]
        cx = (min(p_[0] for p_ in allp) + max(p_[0] for p_ in allp)) / 2
        cy = (min(p_[1] for p_ in allp) + max(p_[1] for p_ in allp)) / 2
        R = max(abs(p_[0] - cx) + abs(p_[1] - cy) for p_ in allp) + Fr(1, 2)
    else:
        co, si = rng.choice([(Fr(3, 5), Fr(4, 5)), (Fr(-4, 5), Fr(3, 5)), (Fr(5, 13), Fr(12, 13))])
        al = dy(rng, 1, 2, 4) * rng.choice([-1, 1])
        piv = [dy(rng, -1, 1), dy(rng, -1, 1)]
        a_ = ("+", c(co), ("*", c(al), v("t")))
        moved = Node("rotate", "x", [PF([a_, c(-si), c(si), a_]), PF([c(piv[0]), c(piv[1])])], [A])
        cx, cy = piv
        R = (abs(co) + abs(al) + abs(si)) * max(abs(p_[0] - cx) + abs(p_[1] - cy) for p_ in pts) + Fr(1, 2)
    B = Node("circle", "x", [PF([c(cx), c(cy)]), PF([c(R)])])
    node = Node("inter", None, [], [moved, B] if rng.random() < 0.5 else [B, moved])
    wrap = rng.choice(["none", "none", "none", "cut", "union", "translate", "prod"])
    far = Node("circle", "x", [PF([c(cx + 3 * R), c(cy)]), PF([c(Fr(1, 2))])])
    if wrap == "cut":
        node = Node("cut", None, [], [node, far])
    elif wrap == "union":
        node = Node("union", None, [], [far, node] if rng.random() < 0.5 else [node, far])
    elif wrap == "translate":
        node = Node("translate", "x", [PF([("*", c(Fr(1, 2)), v("t")), c(Fr(1))])], [node])
    elif wrap == "prod":
        y = Node("interval", "y", [PF([c(Fr(0))]), PF([c(Fr(3, 2))])])
        node = Node("prod", None, [], [node, y] if rng.random() < 0.5 else [y, node])
    k = rng.choice([2, 3])
    ts = rng.sample(range(0, 17), k)
    return dict(id=idx, mode="rowinter", dom=node.describe(), pvars=["t"], rows=[{"t": [str(Fr(t_, 16))]} for t_ in ts], k=k)


def make_depprod_case(ctx, idx):
    """dependent product asked for its box without the partner's data (known-finding stream)"""
    rng = ctx.rng
    b = Gen(rng, params=[]).prim1("s")
    while True:
        a = Gen(rng, params=["s"], p_dep=0.8, allow_rotate=False).solid(1, "x")
        if "s" in a.free_vars():
            break
    return dict(id=idx, mode="depprod-nodata", dom=Node("prod", None, [], [a, b]).describe(), pvars=[], rows=[{}], k=0)


# ---------------------------------------------------------------------------------------------
# exact points of the leaves, mapped forward (members of the leaf sets, not necessarily of the node)

def leaf_points(node, env, rng, n_int=3):
    """list of coordinate lists (exact Fractions) in the frame of `node` (single-variable nodes)"""
    k = node.kind
    out = []
    if k in ("par", "tri"):
        o, c1, c2 = [p.eval(env) for p in node.pfs]
        d1 = [c1[0] - o[0], c1[1] - o[1]]
        d2 = [c2[0] - o[0], c2[1] - o[1]]
        st = [(Fr(0), Fr(0)), (Fr(1), Fr(0)), (Fr(0), Fr(1))] + ([(Fr(1), Fr(1))] if k == "par" else [(Fr(1, 2), Fr(1, 2))])
        for _ in range(n_int):
            s, t = Fr(rng.randint(0, 16), 16), Fr(rng.randint(0, 16), 16)
            if k == "tri" and s + t > 1:
                s, t = 1 - s, 1 - t
            st.append((s, t))
        for s, t in st:
            out.append([o[0] + s * d1[0] + t * d2[0], o[1] + s * d1[1] + t * d2[1]])
    elif k == "circle":
        (cx, cy), (r,) = node.pfs[0].eval(env), node.pfs[1].eval(env)
        dirs = [(1, 0), (0, 1), (-1, 0), (0, -1), (Fr(3, 5), Fr(4, 5)), (Fr(-5, 13), Fr(12, 13)), (Fr(-4, 5), Fr(-3, 5)), (Fr(12, 13), Fr(-5, 13))]
        for dx, dy_ in dirs:
            out.append([cx + r * dx, cy + r * dy_])
        for _ in range(n_int):
            dx, dy_ = rng.choice(dirs)
            rr = r * Fr(rng.randint(0, 8), 8)
            out.append([cx + rr * dx, cy + rr * dy_])
    elif k == "sphere":
        (cx, cy, cz), (r,) = node.pfs[0].eval(env), node.pfs[1].eval(env)
        dirs = [(1, 0, 0), (-1, 0, 0), (0, 1, 0), (0, -1, 0), (0, 0, 1), (0, 0, -1), (Fr(2, 3), Fr(1, 3), Fr(2, 3)), (Fr(-2, 7), Fr(3, 7), Fr(-6, 7))]
        for d in dirs:
            out.append([cx + r * d[0], cy + r * d[1], cz + r * d[2]])
        for _ in range(n_int):
            d = rng.choice(dirs)
            rr = r * Fr(rng.randint(0, 8), 8)
            out.append([cx + rr * d[0], cy + rr * d[1], cz + rr * d[2]])
    elif k == "interval":
        (l,), (u,) = node.pfs[0].eval(env), node.pfs[1].eval(env)
        out += [[l], [u], [(l + u) / 2]] + [[l + (u - l) * Fr(rng.randint(0, 16), 16)] for _ in range(n_int)]
    elif k == "translate":
        t = node.pfs[0].eval(env)
        out = [[a + b for a, b in zip(p, t)] for p in leaf_points(node.kids[0], env, rng, n_int)]
    elif k == "rotate":
        m, ctr = node.pfs[0].eval(env), node.pfs[1].eval(env)
        for p in leaf_points(node.kids[0], env, rng, n_int):
            qx, qy = p[0] - ctr[0], p[1] - ctr[1]
            out.append([m[0] * qx + m[1] * qy + ctr[0], m[2] * qx + m[3] * qy + ctr[1]])
    elif k in ("union", "cut", "inter", "bdry", "bdryL", "bdryR"):
        for kid in node.kids:
            out += leaf_points(kid, env, rng, n_int)
    else:
        raise ValueError(k)
    return out


def candidate_points(node, env, rng, n_rand):
    """list of dicts var -> coordinates"""
    if node.kind == "bdry":
        return candidate_points(node.kids[0], env, rng, n_rand)
    if node.kind == "prod":
        a, b = node.kids
        vb = b.vars()[0]
        if vb in env:                       # the partner's coordinates come with the parameter row
            pbs = [{vb: list(env[vb])}]
        else:
            pbs = [{vb: p} for p in leaf_points(b, env, rng, 2)]
        out = []
        for pb in pbs:
            env2 = dict(env)
            env2.update(pb)
            for pa in candidate_points(a, env2, rng, max(2, n_rand // 3)):
                d = dict(pa)
                d.update(pb)
                out.append(d)
        return out
    var = node.vars()[0]
    pts = leaf_points(node, env, rng)
    if pts:
        d = len(pts[0])
        lo = [min(p[i] for p in pts) for i in range(d)]
        hi = [max(p[i] for p in pts) for i in range(d)]
        for _ in range(n_rand):
            pts.append([lo[i] + (hi[i] - lo[i]) * Fr(rng.randint(0, 64), 64) for i in range(d)])
    return [{var: p} for p in pts]


def member_node(node):
    """membership is evaluated on the solid expression (a boundary is a subset of the closed operand sets)"""
    return node.kids[0] if node.kind == "bdry" else node


# ---------------------------------------------------------------------------------------------
# implementation side

def param_points(tp, torch, pvars, rows):
    if not pvars:
        return tp.spaces.Points.empty()
    sp = None
    for p in pvars:
        s = tp.spaces.R1(p)
        sp = s if sp is None else sp * s
    return tp.spaces.Points(torch.tensor([[float(Fr(r[p][0])) for p in pvars] for r in rows], dtype=torch.float32), sp)


def run_impl(case):
    tp = common.use_repo()
    import torch
    node = geomgen.from_json(case["dom"])
    try:
        dom = node.to_tp(tp)
    except Exception as e:  # noqa
        return dict(build_error=f"{type(e).__name__}: {str(e)[:200]}")
    pr = param_points(tp, torch, case["pvars"], case["rows"]) if case["k"] else tp.spaces.Points.empty()
    torch.manual_seed(case["id"])
    try:
        box = dom.bounding_box(pr) if case["k"] else dom.bounding_box()
    except Exception as e:  # noqa
        return dict(error=f"{type(e).__name__}: {str(e)[:200]}", dom_obj=dom, params=pr)
    if not isinstance(box, torch.Tensor):
        try:
            box = torch.as_tensor(box, dtype=torch.float32)
        except Exception as e:  # noqa
            return dict(error=f"bounding_box returned {type(box).__name__}", dom_obj=dom, params=pr)
    return dict(shape=list(box.shape), values=[float(x) for x in box.reshape(-1).tolist()], dom_obj=dom, params=pr)


def own_samples(case, res, n=24):
    """the library's own random samples, per parameter row (float32 values, exact as Fractions)"""
    import torch
    dom, pr = res["dom_obj"], res["params"]
    node = geomgen.from_json(case["dom"])
    kk = max(1, case["k"])
    try:
        s = common.call_with_timeout(0.25, dom.sample_random_uniform, n=n, params=pr)
    except BaseException as e:  # noqa  (sampling defects belong to C01 / C02)
        if isinstance(e, KeyboardInterrupt):
            raise
        return None
    t = s.as_tensor
    if t.dim() != 2 or len(t) != n * kk or not bool(torch.isfinite(t).all()):
        return None
    try:
        cols = {var: s[:, [var]].as_tensor.tolist() for var in node.vars()}
    except Exception:  # noqa
        return None
    out = []
    for i in range(len(t)):
        out.append((i // n, {var: [Fr(x) for x in cols[var][i]] for var in node.vars()}))
    return out


def row_boxes(case, res):
    """box per parameter row from the implementation's result, or None if the shape is unusable"""
    node = geomgen.from_json(case["dom"])
    d2 = 2 * sum(DIM[x] for x in node.vars())
    kk = max(1, case["k"])
    sh, vals = res["shape"], res["values"]
    if sh == [d2]:
        return [vals] * kk
    if len(sh) == 2 and sh[1] == d2 and sh[0] == kk and kk >= 2:
        return [vals[i * d2:(i + 1) * d2] for i in range(kk)]
    return None


def flat_point(node, pt):
    out = []
    for var in node.vars():
        out += pt[var]
    return out


# ---------------------------------------------------------------------------------------------

def classify(case):
    """known-finding key for a case (matchers are structural: the call shape, not the outcome)"""
    node = geomgen.from_json(case["dom"])
    if case["mode"] == "depprod-nodata":
        return F_DEP
    return None


def per_row(node):
    k = node.kind
    if node.is_prim():
        return False
    if k in ("translate", "rotate"):
        return any(p.vars() for p in node.pfs) or per_row(node.kids[0])
    if k == "cut" or k.startswith("bdry"):
        return per_row(node.kids[0])
    return False      # union / intersection / product reduce per-row boxes of their operands to the common box


def walk(node):
    yield node
    for kid in node.kids:
        yield from walk(kid)


def slim(case):
    return {k_: case[k_] for k_ in ("id", "mode", "dom", "pvars", "rows", "k")}


def run(ctx, rep, cases=None):
    rep.rule = ("domain expressions generated from the public constructors (modes/depths/node kinds in input_distribution): primitives with "
                "parameter-dependent shapes in both vertex orientations (common shift AND corner-wise dependence: scaling, shearing, rhombus), union/cut/intersection, products (independent; dependent with the "
                "partner's data supplied), Translate/Rotate with constant and parameter-dependent motions, boundaries; 0-3 parameter rows. "
                "non-trivial = the expression has an operation node or depends on parameters; distinct = distinct (expression, rows)")
    tp = common.use_repo()
    import torch
    torch.set_num_threads(1)      # tiny tensors only: intra-op threads cost milliseconds per call on a busy machine
    if cases is None:
        cases = [make_case(ctx, i) for i in range(ctx.scale(280, 4000))]
        cases += [make_depprod_case(ctx, 100000 + i) for i in range(ctx.scale(6, 40))]
        cases += [make_rowinter_case(ctx, 150000 + i) for i in range(ctx.scale(16, 160))]
        extras = True
    else:
        extras = False
    # ---- implementation runs, candidate points
    lines, plan = [], []
    for cs in cases:
        node = geomgen.from_json(cs["dom"])
        res = run_impl(cs)
        envs = [{p: [Fr(a) for a in r[p]] for p in cs["pvars"]} for r in cs["rows"]]
        entry = dict(case=cs, node=node, res=res, envs=envs, bbox_line=len(lines))
        lines.append(f"bbox {node.tokens()} {common.lst(envs, env_tokens)}")
        cands = []
        if "dom_obj" in res:
            mnode = member_node(node)
            mt = mnode.tokens()
            n_rand = ctx.scale(10, 16)
            for i, env in enumerate(envs):
                try:
                    for pt in candidate_points(node, env, ctx.rng, n_rand):
                        cands.append((i, pt, "exact"))
                except KeyError:
                    pass
            if "values" in res:
                own = own_samples(cs, res, n=ctx.scale(12, 24))
                if own is None:
                    rep.count("own-samples-unavailable")
                else:
                    cands += [(i, pt, "own-sample") for i, pt in own]
            entry["cand_line"] = len(lines)
            for i, pt, _ in cands:
                lines.append(f"contains {ATOL} {RTOL} {BATOL} {mt} {env_tokens(pt)} {env_tokens(envs[i])}")
        entry["cands"] = cands
        plan.append(entry)
    replies = common.run_driver("C18", lines)
    # ---- comparison and oracles
    for e in plan:
        cs, node, res = e["case"], e["node"], e["res"]
        finding = classify(cs)
        # a known finding excuses only its own symptom: the rows clash raises / garbles the shape, the sampled
        # box of a dependent product fails to enclose
        f_shape = finding if finding == F_ROWS else None
        f_encl = finding if finding == F_DEP else None
        model = replies[e["bbox_line"]]
        rep.count("mode:" + cs["mode"])
        rep.count("depth:%d" % node.depth())
        rep.count("param-rows:%d" % cs["k"])
        for kd in set(node.kinds()):
            rep.count("node:" + kd)
        if per_row(node):
            rep.count("one-box-per-row-expected")
        if any(p.vars() for n_ in walk(node) if n_.kind in ("translate", "rotate") for p in n_.pfs):
            rep.count("motion-depends-on-parameters")
            if cs["k"] >= 2 and not per_row(node):
                rep.count("per-row-operand-under-union/intersection/product")
        nontrivial = node.depth() > 1 or bool(node.free_vars())
        pub = {k_: v_ for k_, v_ in res.items() if k_ not in ("dom_obj", "params")}
        rep.case(dict(dom=cs["dom"], rows=cs["rows"], k=cs["k"]), nontrivial,
                 sample=dict(expression=node.tokens(), parameter_rows=cs["rows"] if cs["k"] else "none", implementation=pub, model=model),
                 kind=cs["mode"])
        if "build_error" in res:
            rep.count("constructor-raised")
            rep.notes.append(f"constructor raised for case {cs['id']}: {res['build_error']}") if len(rep.notes) < 5 else None
            continue
        if "error" in res:
            if model.startswith("err:") and finding is None:
                rep.count("both-reject")
                continue
            rep.fail(f"bounding_box raised {res['error']} on a well-formed domain expression ({cs['k']} parameter rows)", slim(cs), finding=f_shape)
            continue
        d2 = 2 * sum(DIM[x] for x in node.vars())
        boxes = row_boxes(cs, res)
        # shape oracle
        if boxes is None or (cs["k"] <= 1 and res["shape"] != [d2]):
            rep.fail(f"bounding_box returned a tensor of shape {res['shape']} for {cs['k']} parameter rows; the flat form "
                     f"[min_1, max_1, ...] with {d2} entries (or one such box per row for several rows) is what every consumer indexes",
                     slim(cs), finding=f_shape)
            continue
        if not all(x == x and abs(x) != float("inf") for x in res["values"]):
            rep.fail(f"bounding_box returned non-finite bounds {res['values']}", slim(cs))
            continue
        # correspondence with the Lean model
        if cs["mode"] != "depprod-nodata":
            cmp_model(rep, cs, node, res, model, d2)
        # enclosure oracle
        cl = e.get("cand_line")
        n_in = 0
        worst = None
        for j, (i, pt, src) in enumerate(e["cands"]):
            b, _m = replies[cl + j].split()
            if b != "1":
                continue
            n_in += 1
            p = flat_point(member_node(node), pt)
            bx = boxes[i]
            tl = tol_of(bx + [float(x) for x in p])
            for ax, x in enumerate(p):
                lo, hi = bx[2 * ax], bx[2 * ax + 1]
                out = max(lo - float(x), float(x) - hi)
                if out > tl and (worst is None or out > worst[0]):
                    worst = (out, ax, i, pt, src, lo, hi)
        rep.count("member-points-checked", n_in)
        if worst is not None:
            out, ax, i, pt, src, lo, hi = worst
            rep.fail(f"a point of the domain lies outside the returned bounding box: axis {ax} of the box is [{lo:.6g}, {hi:.6g}] but the "
                     f"{src} point {[float(x) for x in flat_point(member_node(node), pt)]} (exact membership: inside, parameter row {i}) "
                     f"has coordinate {float(flat_point(member_node(node), pt)[ax]):.6g} — {out:.3g} outside",
                     dict(slim(cs), point={k_: [str(x) for x in v_] for k_, v_ in pt.items()}, row=i), finding=f_encl)
            continue
        # tightness oracle: primitives at a single row
        if node.is_prim() and cs["k"] <= 1:
            pts = leaf_points(node, e["envs"][0], ctx.rng, 0)
            bx = boxes[0]
            for ax in range(d2 // 2):
                lo_e, hi_e = min(p[ax] for p in pts), max(p[ax] for p in pts)
                tl = tol_of(bx)
                if abs(bx[2 * ax] - float(lo_e)) > tl or abs(bx[2 * ax + 1] - float(hi_e)) > tl:
                    rep.fail(f"the bounding box of a primitive at a single parameter row is not tight: axis {ax} is [{bx[2*ax]:.6g}, {bx[2*ax+1]:.6g}] "
                             f"but the set reaches exactly from {float(lo_e):.6g} to {float(hi_e):.6g}", slim(cs))
                    break
            rep.count("tightness-checked")
        # consumers
        if cs["k"] == 0 and finding is None:
            consumers(ctx, rep, cs, node, res, boxes[0], e, replies)
    if extras:
        rot3_cases(ctx, rep, [make_rot3_case(ctx, 200000 + i) for i in range(ctx.scale(40, 400))])
        history_cases(ctx, rep, [make_history(ctx, 300000 + i) for i in range(ctx.scale(40, 500))])
        order_cases(ctx, rep, [make_order_case(ctx, 400000 + i) for i in range(ctx.scale(24, 300))])
        argtype_cases(ctx, rep, [make_argtype_case(ctx, 500000 + i) for i in range(ctx.scale(40, 400))])
        argcomp_cases(ctx, rep, [make_argcomp_case(ctx, 600000 + i) for i in range(ctx.scale(24, 240))])
        opaque_histories(ctx, rep)
        opaque_cases(ctx, rep)


def cmp_model(rep, cs, node, res, model, d2):
    if model.startswith("err:") or model.startswith("bad-op"):
        rep.disagree("drivers/C18.lean bbox: the model rejects a call the implementation answers", slim(cs),
                     dict(shape=res["shape"], values=res["values"]), model)
        return
    kind, rest = model.split(" ", 1)
    mrows = [[Fr(x) for x in r.split()] for r in rest.split(" ; ")]
    want_shape = [d2] if kind == "flat" else [len(mrows), d2]
    if res["shape"] != want_shape:
        rep.disagree("drivers/C18.lean bbox: shape of the result", slim(cs), res["shape"], want_shape)
        return
    mv = [x for r in mrows for x in r]
    tl = tol_of(mv)
    bad = [(i, a, float(b)) for i, (a, b) in enumerate(zip(res["values"], mv)) if abs(a - float(b)) > tl]
    if bad:
        i, a, b = bad[0]
        rep.disagree(f"drivers/C18.lean bbox: entry {i} ({'min' if i % 2 == 0 else 'max'} of axis {(i % d2) // 2}) differs: implementation {a!r}, model {b!r}",
                     slim(cs), res["values"], [float(x) for x in mv])
    else:
        rep.count("box-agrees-with-model")


def norm_all_orders(rep, dom, var_names, members, bx, fail_input, what="domain"):
    """NormalizationLayer(dom) applied to the member points (flat coordinates in the order `var_names` = domain.space)
    presented in EVERY order of the variables (Points objects built by hand from column blocks): all images in the cube,
    and the same image — variable by variable — whatever the storage order.  Returns False after a failure."""
    tp = common.use_repo()
    import torch
    d = len(bx) // 2
    dims = [DIM[v_] for v_ in var_names]
    offs = [sum(dims[:i]) for i in range(len(dims))]
    x = torch.tensor([[float(a) for a in p_] for p_ in members], dtype=torch.float32)
    try:
        layer = tp.models.NormalizationLayer(dom)
    except Exception as ex:  # noqa
        rep.fail(f"NormalizationLayer({what}) raised {type(ex).__name__}: {str(ex)[:160]}", fail_input)
        return False
    allow = torch.tensor([1 + 1e-4 + 2 * tol_of(bx) / (bx[2 * i + 1] - bx[2 * i]) for i in range(d)])
    ref = None
    perms = list(itertools.permutations(range(len(var_names))))[:6]
    for perm in perms:
        order = [var_names[i] for i in perm]
        sp = None
        for v_ in order:
            s_ = {1: tp.spaces.R1, 2: tp.spaces.R2, 3: tp.spaces.R3}[DIM[v_]](v_)
            sp = s_ if sp is None else sp * s_
        xt = torch.cat([x[:, offs[i]:offs[i] + dims[i]] for i in perm], dim=1)
        try:
            out = layer(tp.spaces.Points(xt, sp))
            y = torch.cat([out.coordinates[v_] for v_ in var_names], dim=1).detach()
        except Exception as ex:  # noqa
            rep.fail(f"NormalizationLayer({what}) raised {type(ex).__name__}: {str(ex)[:160]} for points whose variables are stored in the order {order}",
                     dict(fail_input, order=order))
            return False
        rep.count("normalised-points", len(members))
        rep.count("normalised-in-order:" + ("domain" if list(perm) == sorted(perm) else "permuted"))
        excess = y.abs() - allow
        if bool((excess > 0).any()) or not bool(torch.isfinite(y).all()):
            j = int(excess.max(dim=1).values.argmax())
            rep.fail(f"NormalizationLayer built from the bounding box {bx} maps the {what} point "
                     f"{dict(zip(var_names, [[float(a) for a in members[j][offs[i]:offs[i] + dims[i]]] for i in range(len(dims))]))}, presented with its variables "
                     f"in the order {order}, to {dict((v_, out.coordinates[v_][j].tolist()) for v_ in var_names)} — outside [-1, 1]^{d}",
                     dict(fail_input, point=[str(a) for a in members[j]], order=order))
            return False
        if ref is None:
            ref = y
        elif not torch.allclose(y, ref, atol=1e-5, rtol=1e-5):
            j = int((y - ref).abs().max(dim=1).values.argmax())
            rep.fail(f"NormalizationLayer maps the same {what} point {[float(a) for a in members[j]]} to {ref[j].tolist()} when its variables are stored in the "
                     f"order {var_names} and to {y[j].tolist()} (read by name) when they are stored in the order {order}",
                     dict(fail_input, point=[str(a) for a in members[j]], order=order))
            return False
    return True


def consumers(ctx, rep, cs, node, res, bx, e, replies):
    tp = common.use_repo()
    import torch
    dom = res["dom_obj"]
    d = len(bx) // 2
    if any(bx[2 * i + 1] - bx[2 * i] <= 1e-6 for i in range(d)):
        rep.count("consumer-skipped-empty-box")
        return
    # NormalizationLayer
    members = []
    cl = e.get("cand_line")
    for j, (i, pt, src) in enumerate(e["cands"]):
        if replies[cl + j].split()[0] == "1":
            members.append(flat_point(member_node(node), pt))
    if members and node.kind != "bdry":
        if not norm_all_orders(rep, dom, member_node(node).vars(), members, bx, slim(cs)):
            return
    # Latin-hypercube proposals
    if node.kind != "bdry":
        n = ctx.rng.choice([1, 2, 5, 8])
        torch.manual_seed(cs["id"])
        try:
            smp = tp.samplers.LHSSampler(dom, n)
            box_t = dom.bounding_box(tp.spaces.Points.empty(), device="cpu")
            prop = smp._create_lhs_in_bounding_box(box_t, "cpu")
        except Exception as ex:  # noqa
            rep.fail(f"LHSSampler proposals from the bounding box raised {type(ex).__name__}: {str(ex)[:160]}", dict(slim(cs), n=n))
            return
        bt = [float(x) for x in box_t.reshape(-1).tolist()]
        ok = list(prop.shape) == [n, d]
        msg = f"shape {list(prop.shape)}"
        if ok:
            for ax in range(d):
                lo, hi = bt[2 * ax], bt[2 * ax + 1]
                w = (hi - lo) / n
                col = sorted(float(x) for x in prop[:, ax].tolist())
                tl = 1e-5 * (1 + abs(lo) + abs(hi))
                for j, x in enumerate(col):
                    if not (lo + j * w - tl <= x <= lo + (j + 1) * w + tl):
                        ok = False
                        msg = f"axis {ax}: sorted proposals {col} are not one per stratum of [{lo}, {hi}] split into {n}"
                        break
        rep.count("lhs-proposals-checked")
        if not ok:
            rep.fail("Latin-hypercube proposals do not stratify the bounding box: " + msg, dict(slim(cs), n=n))


# ---------------------------------------------------------------------------------------------
# primitives the Lean expression type does not contain (oracle only): Point, ShapelyPolygon, TrimeshPolyhedron,
# 3-D rotation — and motions of them

def opaque_cases(ctx, rep):
    tp = common.use_repo()
    import torch
    rng = ctx.rng
    X2, X3 = tp.spaces.R2("x"), tp.spaces.R3("z")
    out = []

    def check(name, dom, pts, desc, params=None, tight=None):
        rep.count("opaque:" + name)
        try:
            box = dom.bounding_box(params) if params is not None else dom.bounding_box()
            bx = [float(x) for x in torch.as_tensor(box).reshape(-1).tolist()]
            shape = list(torch.as_tensor(box).shape)
        except Exception as ex:  # noqa
            rep.fail(f"bounding_box of {name} raised {type(ex).__name__}: {str(ex)[:160]}", dict(kind="opaque", what=desc))
            return
        d = len(pts[0])
        rep.case(dict(opaque=desc), True, sample=dict(domain=desc, implementation=bx), kind="opaque")
        if shape != [2 * d]:
            rep.fail(f"bounding_box of {name} has shape {shape}, expected [{2*d}]", dict(kind="opaque", what=desc))
            return
        tl = tol_of(bx)
        for p in pts:
            for ax in range(d):
                if float(p[ax]) < bx[2 * ax] - tl or float(p[ax]) > bx[2 * ax + 1] + tl:
                    rep.fail(f"{name}: the point {[float(a) for a in p]} of the domain lies outside the bounding box {bx}", dict(kind="opaque", what=desc))
                    return
        if tight is not None:
            for ax in range(d):
                if abs(bx[2 * ax] - float(tight[2 * ax])) > tl or abs(bx[2 * ax + 1] - float(tight[2 * ax + 1])) > tl:
                    rep.fail(f"{name}: box {bx} is not tight, exact extent {[float(a) for a in tight]}", dict(kind="opaque", what=desc))
                    return

    for rnd in range(ctx.scale(3, 12)):
        # Point (fixed and moving): the box is the point ± 0.1 by design
        p = [float(dy(rng, -3, 3)), float(dy(rng, -3, 3))]
        check("Point", tp.domains.Point(X2, p), [p], dict(point=p))
        tv = [float(dy(rng, 0, 2, 4)) for _ in range(3)]
        pm = tp.domains.Point(X2, lambda t: torch.column_stack([t, 2 * t]))
        check("Point(moving)", pm, [[a, 2 * a] for a in tv], dict(moving_point="(t, 2t)", t=tv),
              params=tp.spaces.Points(torch.tensor([[a] for a in tv]), tp.spaces.R1("t")))
        # polygon
        try:
            from torchphysics.problem.domains.domain2D.shapely_polygon import ShapelyPolygon
            vs = [[float(dy(rng, 0, 3)), float(dy(rng, 0, 3))], [float(dy(rng, 4, 8)), float(dy(rng, -2, 1))],
                  [float(dy(rng, 5, 9)), float(dy(rng, 4, 8))], [float(dy(rng, -2, 2)), float(dy(rng, 5, 9))]]
            ext = [min(a[0] for a in vs), max(a[0] for a in vs), min(a[1] for a in vs), max(a[1] for a in vs)]
            poly = ShapelyPolygon(X2, vs)
            check("ShapelyPolygon", poly, vs, dict(polygon=vs), tight=ext)
            check("ShapelyPolygon(params given)", poly, vs, dict(polygon=vs, call="bounding_box(Points.empty(), device='cpu')"),
                  params=tp.spaces.Points.empty(), tight=ext)
        except ImportError:
            rep.count("opaque:shapely-missing")
        # motions and Boolean operations over the unmodelled primitives (exact images of the vertices / the point)
        try:
            co, si = rng.choice([(Fr(3, 5), Fr(4, 5)), (Fr(5, 13), Fr(-12, 13)), (Fr(-4, 5), Fr(3, 5)), (Fr(8, 17), Fr(15, 17))])
            ctr2 = [dy(rng, -1, 1), dy(rng, -1, 1)]
            sh = [dy(rng, -2, 2), dy(rng, -2, 2)]
            def img(p_):
                qx, qy = Fr(p_[0]) - ctr2[0], Fr(p_[1]) - ctr2[1]
                return [co * qx - si * qy + ctr2[0] + sh[0], si * qx + co * qy + ctr2[1] + sh[1]]
            Mf = [[float(co), float(-si)], [float(si), float(co)]]
            moved = tp.domains.Translate(tp.domains.Rotate(poly, Mf, [float(a) for a in ctr2]), [float(a) for a in sh])
            check("Translate(Rotate(ShapelyPolygon))", moved, [img(a) for a in vs], dict(polygon=vs, rotation=[str(co), str(si)], around=[str(a) for a in ctr2], shift=[str(a) for a in sh]))
            movedp = tp.domains.Translate(tp.domains.Rotate(tp.domains.Point(X2, p), Mf, [float(a) for a in ctr2]), [float(a) for a in sh])
            check("Translate(Rotate(Point))", movedp, [img(p)], dict(point=p, rotation=[str(co), str(si)], around=[str(a) for a in ctr2], shift=[str(a) for a in sh]))
            disc = tp.domains.Circle(X2, [float(dy(rng, -2, 2)), float(dy(rng, -2, 2))], float(dy(rng, 0.5, 2)))
            check("ShapelyPolygon + Circle", poly + disc, vs, dict(polygon=vs, union_with="circle"))
        except ImportError:
            pass
        except NameError:
            pass
        except Exception as ex:  # noqa  (constructors of motions over polygons may still raise: necessary_variables, C17)
            rep.count("opaque:motion-constructor-raised:" + type(ex).__name__)
        # polyhedron
        try:
            from torchphysics.problem.domains.domain3D.trimesh_polyhedron import TrimeshPolyhedron
            vt = [[0.0, 0.0, 0.0], [float(dy(rng, 1, 3)), 0.0, 0.0], [0.0, float(dy(rng, 1, 3)), 0.0], [0.0, 0.0, float(dy(rng, 1, 3))]]
            mesh = TrimeshPolyhedron(X3, vertices=vt, faces=[[0, 2, 1], [0, 1, 3], [0, 3, 2], [1, 2, 3]])
            check("TrimeshPolyhedron", mesh, vt, dict(tetrahedron=vt), tight=[0, vt[1][0], 0, vt[2][1], 0, vt[3][2]])
        except ImportError:
            rep.count("opaque:trimesh-missing")
        except Exception as ex:  # noqa
            rep.count("opaque:trimesh-constructor-raised")
        # 3-D rotation of a ball (matrix given directly), rational rotation about the z- and x-axes
        cz = [float(dy(rng, -1, 1)) for _ in range(3)]
        r = float(dy(rng, 0.5, 2))
        co, si = rng.choice([(0.6, 0.8), (0.8, -0.6), (0.0, 1.0), (5 / 13, 12 / 13)])
        M = [[co, -si, 0.0], [si, co, 0.0], [0.0, 0.0, 1.0]] if rng.random() < 0.5 else [[1.0, 0.0, 0.0], [0.0, co, -si], [0.0, si, co]]
        ctr = [float(dy(rng, -1, 1)) for _ in range(3)]
        ball = tp.domains.Sphere(X3, cz, r)
        rot = tp.domains.Rotate(ball, M, ctr)
        img = [sum(M[i][j] * (cz[j] - ctr[j]) for j in range(3)) + ctr[i] for i in range(3)]
        pts = []
        for ax in range(3):
            for sg in (-1, 1):
                q_ = list(img)
                q_[ax] += sg * r
                pts.append(q_)
        check("Rotate(Sphere, 3x3)", rot, pts, dict(ball=[cz, r], matrix=M, around=ctr))
        # a box-like 3-D product rotated is not expressible; a 2-D box rotated by a generic angle via from_angles
        ang = float(dy(rng, -3, 3, 16))
        import math
        par = tp.domains.Parallelogram(X2, [0, 0], [2, 0], [0, 1])
        rt = tp.domains.Rotate.from_angles(par, ang)
        cs_, sn = math.cos(ang), math.sin(ang)
        pts = [[cs_ * a - sn * b, sn * a + cs_ * b] for a, b in [(0, 0), (2, 0), (0, 1), (2, 1), (1, 0.5)]]
        ext = [min(p_[0] for p_ in pts), max(p_[0] for p_ in pts), min(p_[1] for p_ in pts), max(p_[1] for p_ in pts)]
        check("Rotate.from_angles", rt, pts, dict(box="[0,2]x[0,1]", angle=ang), tight=ext)


# ---------------------------------------------------------------------------------------------
# rotations of 3-D domains by explicit 3x3 matrices (the Lean expression type has the 2-D rotation only; the
# model is `bboxRotate3` on the inner domain's box, theorem `rotate3_encloses`)

PYTH = [(Fr(3, 5), Fr(4, 5)), (Fr(4, 5), Fr(-3, 5)), (Fr(5, 13), Fr(12, 13)), (Fr(-3, 5), Fr(4, 5)), (Fr(12, 13), Fr(-5, 13)),
        (Fr(8, 17), Fr(15, 17)), (Fr(0), Fr(1)), (Fr(-4, 5), Fr(-3, 5))]


def matmul3(A, B):
    return [[sum(A[i][k] * B[k][j] for k in range(3)) for j in range(3)] for i in range(3)]


def rational_rotation(rng):
    """Rz·Ry·Rx with rational cos/sin: a general rotation, every entry rational"""
    (c1, s1), (c2, s2), (c3, s3) = rng.choice(PYTH), rng.choice(PYTH), rng.choice(PYTH)
    Rz = [[c1, -s1, 0], [s1, c1, 0], [0, 0, 1]]
    Ry = [[c2, 0, s2], [0, 1, 0], [-s2, 0, c2]]
    Rx = [[1, 0, 0], [0, c3, -s3], [0, s3, c3]]
    return [[Fr(x) for x in row] for row in matmul3(matmul3(Rz, Ry), Rx)]


def make_rot3_case(ctx, idx):
    rng = ctx.rng
    params = rng.choice([[], [], ["t"]])
    g = Gen(rng, params=params, allow_rotate=False, allow_translate=False)
    shape = rng.choice(["sphere", "prism", "prism", "slab"])
    if shape == "sphere":
        inner = g.prim3("z")
    elif shape == "prism":
        base = indep_prim2(rng, params, "x") if params and rng.random() < 0.5 else g.prim2("x")
        inner = Node("prod", None, [], [base, Gen(rng, params=params).prim1("y")])
    else:
        inner = Node("prod", None, [], [Gen(rng, params=params).prim1("y"), g.solid(2, "x")])
    M = rational_rotation(rng)
    if rng.random() < 0.25:     # not only rotations: any matrix is accepted by the constructor
        M = [[Fr(x) for x in row] for row in matmul3(M, [[dy(rng, 0.5, 2, 4), 0, 0], [dy(rng, -1, 1, 4), 1, 0], [0, 0, dy(rng, 0.5, 2, 4)]])]
    ctr = [dy(rng, -1, 1) for _ in range(3)]
    k = rng.choice([1, 2, 3]) if params else 0
    rows = [{p: [str(Fr(rng.randint(0, 16), 16))] for p in params} for _ in range(max(k, 1))]
    return dict(id=idx, mode="rot3", kind="rot3", dom=inner.describe(), pvars=params, rows=rows, k=k,
                matrix=[[str(x) for x in row] for row in M], around=[str(x) for x in ctr])


def rot3_cases(ctx, rep, cases):
    tp = common.use_repo()
    import torch
    lines, plan = [], []
    for cs in cases:
        inner = geomgen.from_json(cs["dom"])
        M = [[Fr(x) for x in row] for row in cs["matrix"]]
        ctr = [Fr(x) for x in cs["around"]]
        envs = [{p: [Fr(a) for a in r[p]] for p in cs["pvars"]} for r in cs["rows"]]
        e = dict(case=cs, inner=inner, M=M, ctr=ctr, envs=envs, line=len(lines))
        flatM = [x for row in M for x in row]
        lines.append(f"bboxrot3 {inner.tokens()} {common.lst(envs, env_tokens)} {common.lst(flatM, common.q)} {common.lst(ctr, common.q)}")
        cands = []
        for i, env in enumerate(envs):
            for pt in candidate_points(inner, env, ctx.rng, ctx.scale(10, 16)):
                cands.append((i, pt))
        e["cand_line"] = len(lines)
        for i, pt in cands:
            lines.append(f"contains {ATOL} {RTOL} {BATOL} {inner.tokens()} {env_tokens(pt)} {env_tokens(envs[i])}")
        e["cands"] = cands
        plan.append(e)
    replies = common.run_driver("C18", lines)
    for e in plan:
        cs, inner, M, ctr = e["case"], e["inner"], e["M"], e["ctr"]
        rep.count("mode:rot3")
        rep.count("rot3-inner:" + inner.kind)
        rep.count("param-rows:%d" % cs["k"])
        model = replies[e["line"]]
        desc = dict(expression=f"Rotate({inner.tokens()}, matrix={cs['matrix']}, around={cs['around']})", parameter_rows=cs["rows"] if cs["k"] else "none")
        try:
            dom = tp.domains.Rotate(inner.to_tp(tp), [[float(x) for x in row] for row in M], [float(x) for x in ctr])
        except Exception as ex:  # noqa
            rep.count("constructor-raised")
            continue
        pr = param_points(tp, torch, cs["pvars"], cs["rows"]) if cs["k"] else tp.spaces.Points.empty()
        try:
            box = dom.bounding_box(pr) if cs["k"] else dom.bounding_box()
            shape = list(box.shape)
            bx = [float(x) for x in box.reshape(-1).tolist()]
        except Exception as ex:  # noqa
            rep.case(dict(rot3=cs["dom"], m=cs["matrix"], c=cs["around"], rows=cs["rows"]), True, sample=dict(desc, model=model), kind="rot3")
            rep.fail(f"bounding_box of a rotated 3-D domain raised {type(ex).__name__}: {str(ex)[:160]}", cs)
            continue
        rep.case(dict(rot3=cs["dom"], m=cs["matrix"], c=cs["around"], rows=cs["rows"]), True,
                 sample=dict(desc, implementation=dict(shape=shape, values=bx), model=model), kind="rot3")
        if shape != [6] or not all(x == x and abs(x) != float("inf") for x in bx):
            rep.fail(f"bounding_box of a rotated 3-D domain has shape {shape} / values {bx}; expected 6 finite entries", cs)
            continue
        # correspondence
        if model.startswith("flat "):
            mv = [Fr(x) for x in model.split()[1:]]
            tl = tol_of(mv)
            bad = [(i, a, float(b)) for i, (a, b) in enumerate(zip(bx, mv)) if abs(a - float(b)) > tl]
            if bad:
                i, a, b = bad[0]
                rep.disagree(f"drivers/C18.lean bboxrot3: entry {i} ({'min' if i % 2 == 0 else 'max'} of axis {i // 2}) differs: implementation {a!r}, model {b!r}",
                             cs, bx, [float(x) for x in mv])
            else:
                rep.count("box-agrees-with-model")
        else:
            rep.disagree("drivers/C18.lean bboxrot3: the model rejects a call the implementation answers", cs, bx, model)
        # enclosure oracle: exact member points of the inner domain, rotated exactly
        worst, n_in = None, 0
        tl = tol_of(bx)
        for j, (i, pt) in enumerate(e["cands"]):
            if replies[e["cand_line"] + j].split()[0] != "1":
                continue
            n_in += 1
            q_ = flat_point(inner, pt)
            img = [sum(M[a][b] * (q_[b] - ctr[b]) for b in range(3)) + ctr[a] for a in range(3)]
            for ax in range(3):
                out = max(bx[2 * ax] - float(img[ax]), float(img[ax]) - bx[2 * ax + 1])
                if out > tl and (worst is None or out > worst[0]):
                    worst = (out, ax, i, q_, img)
        rep.count("member-points-checked", n_in)
        if worst is None and cs["k"] == 0 and all(bx[2 * a + 1] - bx[2 * a] > 1e-6 for a in range(3)):
            imgs = []
            for j, (i, pt) in enumerate(e["cands"]):
                if replies[e["cand_line"] + j].split()[0] == "1":
                    q_ = flat_point(inner, pt)
                    imgs.append([sum(M[a][b] * (q_[b] - ctr[b]) for b in range(3)) + ctr[a] for a in range(3)])
            if imgs and not norm_all_orders(rep, dom, inner.vars(), imgs, bx, cs, what="rotated 3-D domain"):
                continue
        if worst is not None:
            out, ax, i, q_, img = worst
            rep.fail(f"a point of the rotated 3-D domain lies outside the returned bounding box: axis {ax} of the box is "
                     f"[{bx[2*ax]:.6g}, {bx[2*ax+1]:.6g}] but the image {[float(x) for x in img]} of the inner point {[float(x) for x in q_]} "
                     f"(exact membership: inside, parameter row {i}) has coordinate {float(img[ax]):.6g} — {out:.3g} outside", cs)


# ---------------------------------------------------------------------------------------------
# call histories on live objects: the same domain object (and its operand objects) asked several times with
# different row sets, in different orders; the returned tensors are overwritten by the harness between the
# calls (a caller may modify what it got) — every answer is judged like a single call

def sub_paths(node, path=()):
    """attribute paths from the torchphysics object of `node` to the objects of its sub-expressions"""
    out = [(path, node)]
    k = node.kind
    if k in ("union", "cut", "inter", "prod"):
        out += sub_paths(node.kids[0], path + ("domain_a",)) + sub_paths(node.kids[1], path + ("domain_b",))
    elif k in ("translate", "rotate"):
        out += sub_paths(node.kids[0], path + ("domain",))
    return out          # boundaries: the root object only (`.boundary` of a motion is a motion of the boundary)


def mixed_param_node(rng):
    """expressions whose parameter functions read TWO parameters each (t and D): evaluating one of them leaves a
    partially evaluated function object behind — the place where copies can share state"""
    tD = lambda base: ("+", ("+", c(base), ("*", c(dy(rng, -1, 1, 4) or Fr(1, 2)), v("t"))), ("*", c(dy(rng, -1, 1, 4) or Fr(-1, 2)), v("D")))
    def leaf():
        k = rng.choice(["circle", "par", "interval-shift"])
        if k == "circle":
            return Node("circle", "x", [PF([tD(dy(rng, -2, 2)), tD(dy(rng, -2, 2))]), PF([("+", c(dy(rng, 0.5, 2)), ("*", c(Fr(1, 2)), v("t")))])])
        if k == "par":
            sh = [tD(Fr(0)), tD(Fr(0))]
            o, d1, d2 = [dy(rng, -2, 2), dy(rng, -2, 2)], [dy(rng, 1, 3), dy(rng, -1, 1)], [dy(rng, -1, 1), dy(rng, 1, 3)]
            cor = lambda q_: PF([("+", c(q_[0]), sh[0]), ("+", c(q_[1]), sh[1])])
            return Node("par", "x", [cor(o), cor([o[0] + d1[0], o[1] + d1[1]]), cor([o[0] + d2[0], o[1] + d2[1]])])
        return Node("translate", "x", [PF([tD(Fr(0)), tD(Fr(1))])], [Gen(rng, params=[]).prim2("x")])
    shape = rng.choice(["leaf", "union", "cut", "translate", "rotate"])
    if shape == "leaf":
        return leaf()
    if shape in ("union", "cut"):
        return Node(shape, None, [], [leaf(), leaf()])
    if shape == "translate":
        return Node("translate", "x", [PF([tD(Fr(1)), c(Fr(0))])], [leaf()])
    a_ = tD(Fr(3, 5))
    return Node("rotate", "x", [PF([a_, c(Fr(-4, 5)), c(Fr(4, 5)), a_]), PF([c(Fr(0)), c(Fr(1))])], [leaf()])


def make_history(ctx, idx):
    rng = ctx.rng
    if rng.random() < 0.35:
        node = mixed_param_node(rng)
        k = rng.choice([1, 2, 3])
        cs = dict(id=idx, mode="mixed-params", dom=node.describe(), pvars=["t", "D"], k=k,
                  rows=[{p: [str(Fr(rng.randint(0, 16), 16))] for p in ("t", "D")} for _ in range(k)])
    else:
        while True:
            cs = make_case(ctx, idx)
            node = geomgen.from_json(cs["dom"])
            if node.depth() >= 2 or rng.random() < 0.3:
                break
    pv = cs["pvars"]

    def rowset():
        k = rng.choice([1, 2, 3]) if pv else 0
        return dict(k=k, rows=[{p: [str(Fr(rng.randint(0, 16), 16))] for p in pv} for _ in range(max(k, 1))])
    rowsets = [dict(k=cs["k"], rows=cs["rows"]) if (cs["k"] or not pv) else rowset(), rowset(), rowset()]
    paths = [list(p_) for p_, n_ in sub_paths(node) if all(x in pv for x in n_.free_vars())]
    subs = [p_ for p_ in paths if p_] or [[]]
    steps = [dict(path=[], rows=0), dict(path=rng.choice(subs), rows=1), dict(path=[], rows=1), dict(path=rng.choice(subs), rows=0),
             dict(path=[], rows=2), dict(path=[], rows=0)]
    return dict(id=idx, kind="history", mode=cs["mode"], dom=cs["dom"], pvars=pv, rowsets=rowsets, steps=steps)


def DIM_OF_DATA(h, root):
    """parameter variables that are coordinates of a factor (dependent product with data): `D(s=...)` slices, it does not substitute"""
    return [p for p in h["pvars"] if p in root.vars()]


def node_at(node, path):
    for a in path:
        node = node.kids[1] if a == "domain_b" else node.kids[0]
    return node


def history_cases(ctx, rep, hists):
    tp = common.use_repo()
    import torch
    lines, plan = [], []
    for h in hists:
        root = geomgen.from_json(h["dom"])
        st = []
        for step in h["steps"]:
            node = node_at(root, step["path"])
            rs = h["rowsets"][step["rows"]]
            envs = [{p: [Fr(a) for a in r[p]] for p in h["pvars"]} for r in rs["rows"]]
            e = dict(node=node, rs=rs, envs=envs, line=len(lines))
            lines.append(f"bbox {node.tokens()} {common.lst(envs, env_tokens)}")
            cands = []
            mnode = member_node(node)
            for i, env in enumerate(envs):
                try:
                    cands += [(i, pt) for pt in candidate_points(node, env, ctx.rng, 6)]
                except KeyError:
                    pass
            e["cand_line"] = len(lines)
            for i, pt in cands:
                lines.append(f"contains {ATOL} {RTOL} {BATOL} {mnode.tokens()} {env_tokens(pt)} {env_tokens(envs[i])}")
            e["cands"] = cands
            st.append(e)
        # evaluated copies `D(**row)` of the live object: the box of the copy = the box at that single row
        ev = []
        if h["pvars"] and not any(DIM_OF_DATA(h, root)):
            for rs_i in (1, 2, 1):
                row = h["rowsets"][rs_i]["rows"][0]
                env = {p: [Fr(a) for a in row[p]] for p in h["pvars"]}
                ev.append(dict(row=row, line=len(lines)))
                lines.append(f"bbox {root.tokens()} 1 {env_tokens(env)}")
        plan.append((h, root, st, ev))
    replies = common.run_driver("C18", lines)
    for h, root, st, ev in plan:
        rep.count("mode:history")
        rep.count("history-of:" + h["mode"])
        try:
            obj = root.to_tp(tp)
        except Exception as ex:  # noqa
            rep.count("constructor-raised")
            continue
        trace = []
        rep.case(dict(history=h["dom"], rowsets=h["rowsets"], steps=h["steps"]), True,
                 sample=dict(expression=root.tokens(), rowsets=h["rowsets"], steps=h["steps"]), kind="history")
        torch.manual_seed(h["id"])
        for j, (step, e) in enumerate(zip(h["steps"], st)):
            node, rs = e["node"], e["rs"]
            target = obj
            for a in step["path"]:
                target = getattr(target, a)
            where = f"call {j + 1} of the history {[('.'.join(s_['path']) or 'root', 'rows#%d' % s_['rows']) for s_ in h['steps'][:j + 1]]}"
            pr = param_points(tp, torch, h["pvars"], rs["rows"]) if rs["k"] else tp.spaces.Points.empty()
            try:
                box = target.bounding_box(pr) if rs["k"] else target.bounding_box()
                bt = box if isinstance(box, torch.Tensor) else torch.as_tensor(box, dtype=torch.float32)
                res = dict(shape=list(bt.shape), values=[float(x) for x in bt.reshape(-1).tolist()])
            except Exception as ex:  # noqa
                rep.fail(f"bounding_box raised {type(ex).__name__}: {str(ex)[:160]} at {where}", h)
                break
            if isinstance(box, torch.Tensor):
                with torch.no_grad():
                    box.fill_(MARK)          # the caller owns the returned tensor
            pseudo = dict(id=h["id"], mode="history", dom=node.describe(), pvars=h["pvars"], rows=rs["rows"], k=rs["k"])
            d2 = 2 * sum(DIM[x] for x in node.vars())
            boxes = row_boxes(pseudo, res)
            if boxes is None or (rs["k"] <= 1 and res["shape"] != [d2]) or not all(x == x and abs(x) != float("inf") for x in res["values"]):
                rep.fail(f"bounding_box returned shape {res['shape']} / values {res['values'][:8]} at {where}", h)
                break
            model = replies[e["line"]]
            ok = True
            if model.startswith("flat ") or model.startswith("rows "):
                kind, rest = model.split(" ", 1)
                mv = [Fr(x) for r in rest.split(" ; ") for x in r.split()]
                tl = tol_of(mv)
                want = [d2] if kind == "flat" else [len(rest.split(" ; ")), d2]
                if res["shape"] != want or any(abs(a - float(b)) > tl for a, b in zip(res["values"], mv)):
                    ok = False
                    rep.disagree(f"drivers/C18.lean bbox at {where}: the answer differs from the model (and from what a fresh object answers)",
                                 h, res, model)
            # enclosure oracle after every call
            worst = None
            for jj, (i, pt) in enumerate(e["cands"]):
                if replies[e["cand_line"] + jj].split()[0] != "1":
                    continue
                p_ = flat_point(member_node(node), pt)
                bx = boxes[i]
                tl = tol_of(bx + [float(x) for x in p_])
                for ax, x in enumerate(p_):
                    out = max(bx[2 * ax] - float(x), float(x) - bx[2 * ax + 1])
                    if out > tl and (worst is None or out > worst[0]):
                        worst = (out, ax, i, p_, bx)
            rep.count("history-calls-judged")
            if worst is not None:
                out, ax, i, p_, bx = worst
                rep.fail(f"a point of the domain lies outside the bounding box returned at {where}: axis {ax} of the box is "
                         f"[{bx[2*ax]:.6g}, {bx[2*ax+1]:.6g}] but the point {[float(x) for x in p_]} of `{node.tokens()[:60]}…` (exact membership: inside, "
                         f"parameter row {i} of row set {step['rows']}) has coordinate {float(p_[ax]):.6g} — {out:.3g} outside" + marked(bx), h)
                break
            if not ok:
                break
        else:
            # all calls answered correctly: now copies derived from the SAME live object — two evaluated copies, the earlier one
            # asked again after the later one was made, then the parent once more
            if not ev or root.kind == "bdry":
                continue
            copies = []
            try:
                for e_ in ev[:2]:
                    copies.append(obj(**{p: torch.tensor([[float(Fr(e_["row"][p][0]))]]) for p in h["pvars"]}))
            except Exception:  # noqa  (evaluation `D(**values)` itself is C17)
                rep.count("history-evaluation-raised")
                continue
            d2 = 2 * sum(DIM[x] for x in root.vars())
            seq = [(copies[0], ev[0], "first evaluated copy D(row A)", None), (copies[1], ev[1], "second evaluated copy D(row B)", None),
                   (copies[0], ev[0], "FIRST evaluated copy D(row A) again, after D(row B) was made and used", None),
                   (obj, None, "the parent again", None)]
            if len(h["pvars"]) >= 2:
                # partially evaluated copies: the first parameter fixed, the others supplied with the call
                p0, rest = h["pvars"][0], h["pvars"][1:]
                try:
                    parts = [obj(**{p0: torch.tensor([[float(Fr(e_["row"][p0][0]))]])}) for e_ in ev[:2]]
                    rp = [param_points(tp, torch, rest, [e_["row"]]) for e_ in ev[:2]]
                    seq += [(parts[0], ev[0], f"first partially evaluated copy D({p0}=A) asked with the rest of row A", rp[0]),
                            (parts[1], ev[1], f"second partially evaluated copy D({p0}=B) asked with the rest of row B", rp[1]),
                            (parts[0], ev[0], f"FIRST partially evaluated copy D({p0}=A) again, after D({p0}=B) was made and used", rp[0]),
                            (obj, None, "the parent again", None)]
                except Exception:  # noqa
                    rep.count("history-evaluation-raised")
            for target, e_, name, with_params in seq:
                try:
                    if with_params is not None:
                        box = target.bounding_box(with_params)
                        model = replies[e_["line"]]
                    elif e_ is None:
                        rs = h["rowsets"][0]
                        pr = param_points(tp, torch, h["pvars"], rs["rows"]) if rs["k"] else None
                        if pr is None:
                            continue
                        box = target.bounding_box(pr)
                        model = replies[st[0]["line"]]
                    else:
                        box = target.bounding_box()
                        model = replies[e_["line"]]
                    bt = box if isinstance(box, torch.Tensor) else torch.as_tensor(box, dtype=torch.float32)
                    vals = [float(x) for x in bt.reshape(-1).tolist()]
                except Exception as ex:  # noqa
                    rep.fail(f"bounding_box of {name} raised {type(ex).__name__}: {str(ex)[:160]} (after the history {h['steps']})", h)
                    break
                if isinstance(box, torch.Tensor):
                    with torch.no_grad():
                        box.fill_(MARK)
                rep.count("history-derived-objects-judged")
                if not (model.startswith("flat ") or model.startswith("rows ")):
                    continue
                mv = [Fr(x) for r in model.split(" ", 1)[1].split(" ; ") for x in r.split()]
                if len(vals) != len(mv) or any(abs(a - float(b)) > tol_of(mv) for a, b in zip(vals, mv)):
                    row = e_["row"] if e_ else h["rowsets"][0]["rows"]
                    rep.fail(f"the bounding box of {name} of `{root.tokens()[:70]}…` (parameters {row}) is {vals}, but the box of the expression at "
                             f"these parameters is {[float(x) for x in mv]} — copies made from one parent influence each other or the parent" + marked(vals), h)
                    break


def opaque_histories(ctx, rep):
    """the same for operands outside the Lean expression type (ShapelyPolygon, Point) inside composites: exact
    vertex / extreme-point oracles after every call, returned tensors overwritten between the calls"""
    tp = common.use_repo()
    import torch
    rng = ctx.rng
    try:
        from torchphysics.problem.domains.domain2D.shapely_polygon import ShapelyPolygon
    except ImportError:
        rep.count("opaque:shapely-missing")
        return
    X2 = tp.spaces.R2("x")
    for rnd in range(ctx.scale(4, 20)):
        vs = [[dy(rng, 0, 3), dy(rng, 0, 3)], [dy(rng, 4, 8), dy(rng, -2, 1)], [dy(rng, 5, 9), dy(rng, 4, 8)], [dy(rng, -2, 2), dy(rng, 5, 9)]]
        cc, r = [dy(rng, 3, 5), dy(rng, 3, 5)], dy(rng, 3.5, 6)
        pp = [dy(rng, -3, 3), dy(rng, -3, 3)]
        desc = dict(kind="opaque-history", polygon=[[str(a) for a in p_] for p_ in vs], circle=[[str(a) for a in cc], str(r)], point=[str(a) for a in pp])
        try:
            P = ShapelyPolygon(X2, [[float(a) for a in p_] for p_ in vs])
            Cc = tp.domains.Circle(X2, [float(a) for a in cc], float(r))
            Pt = tp.domains.Point(X2, [float(a) for a in pp])
            objs = {"P": P, "C": Cc, "Pt": Pt, "P&C": P & Cc, "C&P": Cc & P, "P+C": P + Cc, "P-C": P - Cc, "Pt+P": Pt + P, "P+Pt": P + Pt,
                    "P*I": P * tp.domains.Interval(tp.spaces.R1("y"), 0, 1), "T(P)": tp.domains.Translate(P, [1.0, -2.0])}
        except Exception as ex:  # noqa
            rep.count("opaque:history-constructor-raised:" + type(ex).__name__)
            continue
        in_c = lambda p_: (p_[0] - cc[0]) ** 2 + (p_[1] - cc[1]) ** 2 <= r * r
        cpts = [[cc[0] + r, cc[1]], [cc[0] - r, cc[1]], [cc[0], cc[1] + r], [cc[0], cc[1] - r]]
        members = {"P": vs, "C": cpts, "Pt": [pp], "P&C": [p_ for p_ in vs if in_c(p_)], "C&P": [p_ for p_ in vs if in_c(p_)],
                   "P+C": vs + cpts, "P-C": [p_ for p_ in vs if not in_c(p_)], "Pt+P": vs + [pp], "P+Pt": vs + [pp],
                   "P*I": [p_ + [Fr(0)] for p_ in vs] + [p_ + [Fr(1)] for p_ in vs], "T(P)": [[p_[0] + 1, p_[1] - 2] for p_ in vs]}
        ext = lambda pts_: [f(p_[i] for p_ in pts_) for i in range(len(pts_[0])) for f in (min, max)]
        tight = {"P": ext(vs), "C": ext(cpts), "P+C": ext(vs + cpts), "P-C": ext(vs), "P*I": ext(members["P*I"]), "T(P)": ext(members["T(P)"])}
        order = ["P", "P&C", "P", "P+C", "C", "C&P", "P", "Pt+P", "Pt", "P*I", "P-C", "T(P)", "P", "C"]
        tail = list(objs)
        rng.shuffle(tail)
        order += tail
        rep.count("mode:opaque-history")
        rep.case(dict(desc, order=order), True, sample=dict(desc, order=order), kind="opaque-history")
        for j, name in enumerate(order):
            where = f"call {j + 1} of the history {order[:j + 1]}"
            try:
                box = objs[name].bounding_box()
                bt = box if isinstance(box, torch.Tensor) else torch.as_tensor(box, dtype=torch.float32)
                bx = [float(x) for x in bt.reshape(-1).tolist()]
            except Exception as ex:  # noqa
                rep.fail(f"bounding_box of {name} raised {type(ex).__name__}: {str(ex)[:160]} at {where}", dict(desc, order=order))
                break
            if isinstance(box, torch.Tensor):
                with torch.no_grad():
                    box.fill_(MARK)
            rep.count("history-calls-judged")
            pts = members[name]
            d = len(bx) // 2
            tl = tol_of(bx)
            bad = None
            if pts and len(bx) != 2 * len(pts[0]):
                bad = f"has {len(bx)} entries"
            for p_ in pts:
                for ax in range(d):
                    if bad is None and not (bx[2 * ax] - tl <= float(p_[ax]) <= bx[2 * ax + 1] + tl):
                        bad = f"does not contain the point {[float(a) for a in p_]} of the set"
            if bad is None and name in tight and any(abs(a - float(b)) > tl for a, b in zip(bx, tight[name])):
                bad = f"is not the exact extent {[float(a) for a in tight[name]]}"
            if bad:
                rep.fail(f"the bounding box {bx} of {name} (P = polygon, C = disc, Pt = point) {bad} at {where}" + marked(bx), dict(desc, order=order))
                break


# ---------------------------------------------------------------------------------------------
# consequence clause in every variable order: products of two / three factors whose axes have clearly different
# boxes; points presented in all orders and as they come out of product samplers in shuffled factor order

def make_order_case(ctx, idx):
    rng = ctx.rng
    g = Gen(rng, params=[])
    x = g.solid(rng.choice([1, 2]), rng.choice(["x", "x", "z"]))
    lo1, lo2 = Fr(rng.choice([10, -20, 40, 7])), Fr(rng.choice([-100, 300, -3, 55]))
    t = Node("interval", "t", [PF([c(lo1)]), PF([c(lo1 + dy(rng, 0.5, 4))])])
    s_ = Node("interval", "s", [PF([c(lo2)]), PF([c(lo2 + dy(rng, 5, 30))])])
    shape = rng.choice(["x*t", "t*x", "(x*t)*s", "(t*x)*s", "(s*t)*x"])
    if shape == "x*t":
        node = Node("prod", None, [], [x, t])
    elif shape == "t*x":
        node = Node("prod", None, [], [t, x]) if len(x.vars()) == 1 and x.is_prim() else Node("prod", None, [], [x, t])
    elif shape == "(x*t)*s":
        node = Node("prod", None, [], [Node("prod", None, [], [x, t]), s_])
    elif shape == "(t*x)*s":
        node = Node("prod", None, [], [Node("prod", None, [], [t, Node("interval", "y", [PF([c(Fr(-1))]), PF([c(dy(rng, 0, 2))])])]), s_])
    else:
        node = Node("prod", None, [], [Node("prod", None, [], [s_, t]), Node("interval", "y", [PF([c(Fr(2))]), PF([c(dy(rng, 2.5, 4))])])])
    return dict(id=idx, kind="order", mode="order", dom=node.describe(), pvars=[], rows=[{}], k=0)


def factors(node):
    return factors(node.kids[0]) + factors(node.kids[1]) if node.kind == "prod" else [node]


def order_cases(ctx, rep, cases):
    tp = common.use_repo()
    import torch
    lines, plan = [], []
    for cs in cases:
        node = geomgen.from_json(cs["dom"])
        e = dict(case=cs, node=node, line=len(lines))
        lines.append(f"bbox {node.tokens()} 1 0")
        cands = candidate_points(node, {}, ctx.rng, 9)
        e["cand_line"] = len(lines)
        for pt in cands:
            lines.append(f"contains {ATOL} {RTOL} {BATOL} {node.tokens()} {env_tokens(pt)} 0")
        e["cands"] = cands
        plan.append(e)
    replies = common.run_driver("C18", lines)
    for e in plan:
        cs, node = e["case"], e["node"]
        rep.count("mode:order")
        rep.count("order-factors:%d" % len(factors(node)))
        model = replies[e["line"]]
        try:
            dom = node.to_tp(tp)
            box = dom.bounding_box()
            bx = [float(a) for a in box.reshape(-1).tolist()]
        except Exception as ex:  # noqa
            rep.fail(f"bounding_box of a product raised {type(ex).__name__}: {str(ex)[:160]}", cs)
            continue
        rep.case(dict(order=cs["dom"]), True, sample=dict(expression=node.tokens(), implementation=bx, model=model), kind="order")
        d2 = 2 * sum(DIM[v_] for v_ in node.vars())
        if not model.startswith("flat ") or len(bx) != d2:
            rep.disagree("drivers/C18.lean bbox (product of several factors)", cs, bx, model)
            continue
        mv = [Fr(a) for a in model.split()[1:]]
        if any(abs(a - float(b)) > tol_of(mv) for a, b in zip(bx, mv)):
            rep.disagree("drivers/C18.lean bbox (product of several factors): numbers differ", cs, bx, [float(a) for a in mv])
            continue
        members = [flat_point(node, pt) for j, pt in enumerate(e["cands"]) if replies[e["cand_line"] + j].split()[0] == "1"]
        rep.count("member-points-checked", len(members))
        bad = [p_ for p_ in members if any(float(p_[a]) < bx[2 * a] - tol_of(bx) or float(p_[a]) > bx[2 * a + 1] + tol_of(bx) for a in range(len(p_)))]
        if bad:
            rep.fail(f"a point {[float(a) for a in bad[0]]} of the product lies outside its bounding box {bx}", cs)
            continue
        if any(bx[2 * a + 1] - bx[2 * a] <= 1e-6 for a in range(d2 // 2)):
            continue
        if members and not norm_all_orders(rep, dom, node.vars(), members, bx, cs, what="product-domain"):
            continue
        # points as product samplers deliver them, factors multiplied in a shuffled order
        fs = factors(node)
        torch.manual_seed(cs["id"])
        try:
            smps = [tp.samplers.RandomUniformSampler(f_.to_tp(tp), n_points=3) for f_ in fs]
            ctx.rng.shuffle(smps)
            prod_s = smps[0]
            for s_ in smps[1:]:
                prod_s = prod_s * s_
            pts = common.call_with_timeout(2, prod_s.sample_points)
            layer = tp.models.NormalizationLayer(dom)
        except BaseException as ex:  # noqa  (sampling defects belong to C01 / C02)
            if isinstance(ex, KeyboardInterrupt):
                raise
            rep.count("order:sampler-unavailable")
            continue
        try:
            out = layer(pts)
            y = torch.cat([out.coordinates[v_] for v_ in node.vars()], dim=1).detach()
        except Exception as ex:  # noqa
            rep.fail(f"NormalizationLayer(product) raised {type(ex).__name__}: {str(ex)[:160]} on the output of a product sampler "
                     f"whose variables are in the order {list(pts.space.keys())}", cs)
            continue
        rep.count("normalised-product-sampler-points", len(y))
        if list(pts.space.keys()) != node.vars():
            rep.count("product-sampler-order-differs-from-domain")
        if not bool((y.abs() <= 1 + 1e-3).all()):
            j = int(y.abs().max(dim=1).values.argmax())
            rep.fail(f"NormalizationLayer built from the bounding box {bx} maps the sampled point {dict((v_, pts.coordinates[v_][j].tolist()) for v_ in node.vars())} "
                     f"(output of a product sampler, variables stored in the order {list(pts.space.keys())}) to {dict((v_, out.coordinates[v_][j].tolist()) for v_ in node.vars())} — outside the cube", cs)


# ---------------------------------------------------------------------------------------------
# the TYPE in which a constructor argument is given must not matter: Python numbers, lists of ints / floats, tuples,
# numpy arrays, int / float32 / float64 tensors, 0-d tensors, callables returning any of these — same box

FAMILIES = ["float", "int", "tuple", "np32", "np64", "npint", "tint", "t32", "t64", "fn32", "fn64", "fnint"]


def as_rep(vals, fam, scalar=False, matrix=False):
    """the constant `vals` (Fractions) in representation family `fam`; None if not applicable"""
    import numpy as np
    import torch
    fl = [float(x) for x in vals]
    integral = all(Fr(x).denominator == 1 for x in vals)
    ints = [int(x) for x in vals] if integral else None
    if fam in ("int", "npint", "tint", "fnint") and not integral:
        return None
    if fam == "bool":
        return bool(ints[0]) if (scalar and integral and ints[0] in (0, 1)) else None
    shape2 = (lambda l: [l[0:2], l[2:4]]) if matrix else (lambda l: l)
    if fam == "float":
        return fl[0] if scalar else shape2(fl)
    if fam == "int":
        return ints[0] if scalar else shape2(ints)
    if fam == "tuple":
        return fl[0] if scalar else (tuple(map(tuple, shape2(fl))) if matrix else tuple(fl))
    if fam in ("np32", "np64", "npint"):
        dt = {"np32": np.float32, "np64": np.float64, "npint": np.int64}[fam]
        a = np.array(ints if fam == "npint" else fl, dtype=dt)
        return a[0] if scalar else (a.reshape(2, 2) if matrix else a)
    if fam in ("tint", "t32", "t64"):
        dt = {"t32": torch.float32, "t64": torch.float64, "tint": torch.int64}[fam]
        a = torch.tensor(ints if fam == "tint" else fl, dtype=dt)
        return a[0] if scalar else (a.reshape(2, 2) if matrix else a)      # scalars: 0-d tensors
    if fam in ("fn32", "fn64", "fnint"):
        if matrix and fam == "fnint":
            return None          # an integer matrix function breaks matmul / linalg.solve everywhere (not array_like usage)
        dt = {"fn32": torch.float32, "fn64": torch.float64, "fnint": torch.int64}[fam]
        a = torch.tensor(ints if fam == "fnint" else fl, dtype=dt)
        if matrix:
            return lambda t: a.reshape(1, 2, 2).repeat(len(t), 1, 1)
        return lambda t: a.reshape(1, -1).repeat(len(t), 1)
    raise ValueError(fam)


def make_argtype_case(ctx, idx):
    rng = ctx.rng
    integral = rng.random() < 0.6
    step = 1 if integral else 8
    num = lambda lo, hi: Fr(rng.randint(lo * step, hi * step), step)
    kind = rng.choice(["interval", "circle", "sphere", "par", "tri", "point", "translate", "rotate", "rotate", "rotate"])
    args = {}
    if kind == "interval":
        lo = num(-3, 2)
        args = dict(lb=[lo], ub=[lo + num(1, 4)])
    elif kind == "circle":
        args = dict(c=[num(-3, 3), num(-3, 3)], r=[num(1, 3)])
    elif kind == "sphere":
        args = dict(c=[num(-2, 2), num(-2, 2), num(-2, 2)], r=[num(1, 3)])
    elif kind in ("par", "tri"):
        while True:
            o, a, b = [num(-3, 3), num(-3, 3)], [num(-3, 3), num(-3, 3)], [num(-3, 3), num(-3, 3)]
            if abs((a[0] - o[0]) * (b[1] - o[1]) - (a[1] - o[1]) * (b[0] - o[0])) >= 1:
                break
        args = dict(o=o, c1=a, c2=b)
    elif kind == "point":
        args = dict(p=[num(-3, 3), num(-3, 3)])
    elif kind == "translate":
        args = dict(t=[num(-3, 3), num(-3, 3)])
    else:
        co, si = rng.choice([(Fr(3, 5), Fr(4, 5)), (Fr(5, 13), Fr(12, 13)), (Fr(0), Fr(1)), (Fr(-4, 5), Fr(3, 5)), (Fr(2), Fr(1))])
        args = dict(m=[co, -si, si, co], c=[num(-3, 3), num(-3, 3)])
    inner = None
    if kind in ("translate", "rotate"):
        inner = Gen(rng, params=[]).prim2("x").describe()
    return dict(id=idx, kind="argtype", mode="argtype", what=kind, args={k_: [str(x) for x in v_] for k_, v_ in args.items()}, inner=inner)


def argtype_node(cs):
    a = {k_: [Fr(x) for x in v_] for k_, v_ in cs["args"].items()}
    pf = lambda l: PF([c(x) for x in l])
    w = cs["what"]
    if w == "interval":
        return Node("interval", "y", [pf(a["lb"]), pf(a["ub"])])
    if w in ("circle", "sphere"):
        return Node(w, "x" if w == "circle" else "z", [pf(a["c"]), pf(a["r"])])
    if w in ("par", "tri"):
        return Node(w, "x", [pf(a["o"]), pf(a["c1"]), pf(a["c2"])])
    if w == "translate":
        return Node("translate", "x", [pf(a["t"])], [geomgen.from_json(cs["inner"])])
    if w == "rotate":
        return Node("rotate", "x", [pf(a["m"]), pf(a["c"])], [geomgen.from_json(cs["inner"])])
    return None


def argtype_build(tp, cs, fams):
    """the domain with argument `name` given in family fams[name]; None if a family is not applicable"""
    a = {k_: [Fr(x) for x in v_] for k_, v_ in cs["args"].items()}
    w = cs["what"]
    D = tp.domains
    r = {}
    for name, vals in a.items():
        r[name] = as_rep(vals, fams[name], scalar=name in ("lb", "ub", "r"), matrix=name == "m")
        if r[name] is None:
            return None
    if w == "interval":
        return D.Interval(tp.spaces.R1("y"), r["lb"], r["ub"])
    if w == "circle":
        return D.Circle(tp.spaces.R2("x"), r["c"], r["r"])
    if w == "sphere":
        return D.Sphere(tp.spaces.R3("z"), r["c"], r["r"])
    if w == "par":
        return D.Parallelogram(tp.spaces.R2("x"), r["o"], r["c1"], r["c2"])
    if w == "tri":
        return D.Triangle(tp.spaces.R2("x"), r["o"], r["c1"], r["c2"])
    if w == "point":
        return D.Point(tp.spaces.R2("x"), r["p"])
    inner = geomgen.from_json(cs["inner"]).to_tp(tp)
    if w == "translate":
        return D.Translate(inner, r["t"])
    return D.Rotate(inner, r["m"], r["c"])


def argtype_cases(ctx, rep, cases):
    tp = common.use_repo()
    import torch
    lines = []
    for cs in cases:
        node = argtype_node(cs)
        lines.append(f"bbox {node.tokens()} 1 0" if node is not None else "bbox")
    replies = common.run_driver("C18", lines)
    prow = tp.spaces.Points(torch.tensor([[0.5]]), tp.spaces.R1("t"))
    for cs, model in zip(cases, replies):
        node = argtype_node(cs)
        rep.count("mode:argtype")
        rep.count("argtype:" + cs["what"])
        if node is not None:
            want = [Fr(x) for x in model.split()[1:]]
            pts = leaf_points(node, {}, ctx.rng, 2)
        else:
            p_ = [Fr(x) for x in cs["args"]["p"]]
            want = [p_[0] - Fr(1, 10), p_[0] + Fr(1, 10), p_[1] - Fr(1, 10), p_[1] + Fr(1, 10)]
            pts = [p_]
        names = list(cs["args"])
        combos = [{n_: f for n_ in names} for f in FAMILIES]
        for _ in range(4):      # mixed: every argument in its own family
            combos.append({n_: ctx.rng.choice(FAMILIES) for n_ in names})
        seen = []
        rep.case(dict(argtype=cs["what"], args=cs["args"], inner=cs["inner"]), True,
                 sample=dict(constructor=cs["what"], arguments=cs["args"], inner=cs["inner"], model_box=[str(x) for x in want],
                             representations="each argument as " + ", ".join(FAMILIES)), kind="argtype")
        for fams in combos:
            if cs["what"] == "point" and any(f.startswith("fn") for f in fams.values()):
                continue        # a moving point has the hull of its positions as box, not the point ± 0.1
            try:
                dom = argtype_build(tp, cs, fams)
            except Exception as ex:  # noqa  (constructor rejects the type: not a box question)
                rep.count("argtype-constructor-raised:" + type(ex).__name__)
                continue
            if dom is None:
                continue
            uses_fn = any(f.startswith("fn") for f in fams.values())
            tag = dict(cs, families=fams)
            try:
                box = dom.bounding_box(prow) if uses_fn else dom.bounding_box()
                bt = torch.as_tensor(box)
                bx = [float(x) for x in bt.reshape(-1).tolist()]
            except Exception as ex:  # noqa
                rep.fail(f"bounding_box of {cs['what']} raised {type(ex).__name__}: {str(ex)[:160]} when its arguments are given as {fams}", tag)
                break
            rep.count("argtype-boxes-judged")
            for f in set(fams.values()):
                if f not in seen:
                    seen.append(f)
                    rep.count("argtype-family:" + f)
            tl = tol_of(want)
            if list(bt.shape) != [len(want)]:
                rep.fail(f"bounding_box of {cs['what']}({cs['args']}) has shape {list(bt.shape)} instead of [{len(want)}] when its arguments are given as {fams}: {bx}", tag)
                break
            if all(abs(a - float(b)) <= tl for a, b in zip(bx, want)):
                continue
            outside = [p_ for p_ in pts if any(float(p_[ax]) < bx[2 * ax] - tl or float(p_[ax]) > bx[2 * ax + 1] + tl for ax in range(len(p_)))]
            msg = (f"the bounding box of {cs['what']}({cs['args']}{', inner ' + geomgen.from_json(cs['inner']).tokens() if cs['inner'] else ''}) depends on the TYPE its arguments "
                   f"are given in: as {fams} (box dtype {bt.dtype}) it is {bx}, for plain floats / exactly it is {[float(x) for x in want]}")
            if outside:
                rep.fail(msg + f"; the point {[float(x) for x in outside[0]]} of the domain lies outside", tag)
            elif cs["what"] not in ("translate", "rotate"):
                rep.fail(msg + " — not tight", tag)
            else:
                rep.disagree("drivers/C18.lean bbox: " + msg, tag, bx, [float(x) for x in want])
            break


# ---------------------------------------------------------------------------------------------
# integer-typed shapes inside every operation: a primitive given by int tensors / Python ints / bools / 0-d tensors / numpy
# integers (its own box may come out as an int64 tensor) combined — in BOTH operand orders — with a float partner that
# protrudes by non-integer amounts; the operation's box must not inherit the integer type

COMP_FAMS = ["tint", "int", "npint", "t64", "np32", "bool", "float"]


def make_argcomp_case(ctx, idx):
    rng = ctx.rng
    I = lambda lo, hi: Fr(rng.randint(lo, hi))
    nz = lambda lo, hi: Fr(rng.randint(lo * 8, hi * 8) * 2 + 1, 16)        # never an integer
    what = rng.choice(["interval", "circle", "sphere", "par", "tri", "interval", "circle"])
    if what == "interval":
        lo = Fr(0) if rng.random() < 0.4 else I(-3, 2)
        args = dict(lb=[lo], ub=[lo + (1 if lo == 0 and rng.random() < 0.6 else I(1, 3))])
        var = "y"
        b = Node("interval", "y", [PF([c(lo + nz(-2, 0))]), PF([c(lo + nz(0, 2) + Fr(1, 2))])])
    elif what == "circle":
        cc, r = [I(-2, 2), I(-2, 2)], I(1, 3)
        args = dict(c=cc, r=[r])
        var = "x"
        b = Node("circle", "x", [PF([c(cc[0] + r * rng.choice([-1, 1]) + nz(-1, 1) / 4), c(cc[1] + nz(-1, 1))]), PF([c(nz(0, 1) + Fr(1, 4))])])
    elif what == "sphere":
        cc, r = [I(-2, 2), I(-2, 2), I(-2, 2)], I(1, 2)
        args = dict(c=cc, r=[r])
        var = "z"
        b = Node("sphere", "z", [PF([c(cc[0] + nz(-1, 1)), c(cc[1] + r * rng.choice([-1, 1])), c(cc[2] + nz(-1, 1))]), PF([c(nz(0, 1) + Fr(1, 4))])])
    else:
        while True:
            o, a_, b_ = [I(-2, 2), I(-2, 2)], [I(-3, 3), I(-3, 3)], [I(-3, 3), I(-3, 3)]
            if abs((a_[0] - o[0]) * (b_[1] - o[1]) - (a_[1] - o[1]) * (b_[0] - o[0])) >= 2:
                break
        args = dict(o=o, c1=a_, c2=b_)
        var = "x"
        b = Node("circle", "x", [PF([c(a_[0] + nz(-1, 1) / 2), c(a_[1] + nz(-1, 1) / 2)]), PF([c(nz(0, 1) + Fr(1, 2))])])
    d = DIM[var]
    shift = [nz(-2, 2) for _ in range(d)]
    s_lo = nz(-1, 1)
    return dict(id=idx, kind="argcomp", mode="argcomp", what=what, var=var, args={k_: [str(x) for x in v_] for k_, v_ in args.items()}, inner=None,
                partner=b.describe(), shift=[str(x) for x in shift], factor=[str(s_lo), str(s_lo + nz(0, 2) + Fr(1, 2))],
                pivot=[str(nz(-1, 1)), str(nz(-1, 1))], rot=rng.choice([["3/5", "-4/5", "4/5", "3/5"], ["5/13", "12/13", "-12/13", "5/13"], ["-4/5", "-3/5", "3/5", "-4/5"]]))


def argcomp_nodes(cs):
    """(name, expression with `a` at position `where`) for every operation"""
    a = argtype_node(cs)
    b = geomgen.from_json(cs["partner"])
    f_ = Node("interval", "s", [PF([c(Fr(cs["factor"][0]))]), PF([c(Fr(cs["factor"][1]))])])
    out = []
    for op in ("union", "inter", "cut"):
        out.append((f"a {op} b", Node(op, None, [], [a, b]), "a0"))
        out.append((f"b {op} a", Node(op, None, [], [b, a]), "a1"))
    out.append(("a * I", Node("prod", None, [], [a, f_]), "a0"))
    out.append(("I * a", Node("prod", None, [], [f_, a]), "a1"))
    out.append(("Translate(a)", Node("translate", cs["var"], [PF([c(Fr(x)) for x in cs["shift"]])], [a]), "inner"))
    out.append(("Translate(a union b)", Node("translate", cs["var"], [PF([c(Fr(x)) for x in cs["shift"]])], [Node("union", None, [], [a, b])]), "inner-a0"))
    if DIM[cs["var"]] == 2:
        out.append(("Rotate(a)", Node("rotate", "x", [PF([c(Fr(x)) for x in cs["rot"]]), PF([c(Fr(x)) for x in cs["pivot"]])], [a]), "inner"))
    return out


def argcomp_cases(ctx, rep, cases):
    tp = common.use_repo()
    import torch
    lines, plan = [], []
    for cs in cases:
        ents = []
        for name, node, where in argcomp_nodes(cs):
            e = dict(name=name, node=node, where=where, line=len(lines))
            lines.append(f"bbox {node.tokens()} 1 0")
            cands = candidate_points(node, {}, ctx.rng, 5)
            e["cand_line"] = len(lines)
            for pt in cands:
                lines.append(f"contains {ATOL} {RTOL} {BATOL} {node.tokens()} {env_tokens(pt)} 0")
            e["cands"] = cands
            ents.append(e)
        plan.append((cs, ents))
    replies = common.run_driver("C18", lines)
    for cs, ents in plan:
        rep.count("mode:argcomp")
        rep.count("argcomp:" + cs["what"])
        names = list(cs["args"])
        combos = [{n_: f for n_ in names} for f in COMP_FAMS] + [{n_: ctx.rng.choice(COMP_FAMS[:5]) for n_ in names} for _ in range(2)]
        rep.case(dict(argcomp=cs["what"], args=cs["args"], partner=cs["partner"]), True,
                 sample=dict(primitive=cs["what"], arguments=cs["args"], given_as=COMP_FAMS, partner=geomgen.from_json(cs["partner"]).tokens(),
                             operations=[e["name"] for e in ents]), kind="argcomp")
        bad = False
        for fams in combos:
            if bad:
                break
            try:
                a_obj = argtype_build(tp, cs, fams)
            except Exception as ex:  # noqa
                rep.count("argtype-constructor-raised:" + type(ex).__name__)
                continue
            if a_obj is None:
                continue
            b_obj = geomgen.from_json(cs["partner"]).to_tp(tp)
            rep.count("argcomp-family:" + "/".join(sorted(set(fams.values()))))
            for e in ents:
                node, where = e["node"], e["where"]

                def build(n_, path):
                    # the torchphysics object of expression n_, with the integer-typed object substituted for `a`
                    k = n_.kind
                    if n_ is argnode:
                        return a_obj
                    if k in ("union", "inter", "cut", "prod"):
                        x, y = build(n_.kids[0], path), build(n_.kids[1], path)
                        return x + y if k == "union" else x & y if k == "inter" else x - y if k == "cut" else x * y
                    if k == "translate":
                        return tp.domains.Translate(build(n_.kids[0], path), n_.pfs[0].py())
                    if k == "rotate":
                        return tp.domains.Rotate(build(n_.kids[0], path), n_.pfs[0].py(matrix=True), n_.pfs[1].py())
                    return n_.to_tp(tp)
                # locate the node object of `a` inside this expression
                argnode = {"a0": lambda n_: n_.kids[0], "a1": lambda n_: n_.kids[1], "inner": lambda n_: n_.kids[0],
                           "inner-a0": lambda n_: n_.kids[0].kids[0]}[where](node)
                tag = dict(cs, families=fams, operation=e["name"])
                try:
                    dom = build(node, None)
                    box = dom.bounding_box()
                    bt = torch.as_tensor(box)
                    bx = [float(x) for x in bt.reshape(-1).tolist()]
                except Exception as ex:  # noqa
                    rep.fail(f"bounding_box of `{e['name']}` raised {type(ex).__name__}: {str(ex)[:160]} (a = {cs['what']}({cs['args']}) given as {fams})", tag)
                    bad = True
                    break
                rep.count("argcomp-boxes-judged")
                want = [Fr(x) for x in replies[e["line"]].split()[1:]]
                tl = tol_of(want)
                if len(bx) == len(want) and all(abs(x - float(y)) <= tl for x, y in zip(bx, want)):
                    continue
                members = [flat_point(node, pt) for j, pt in enumerate(e["cands"]) if replies[e["cand_line"] + j].split()[0] == "1"]
                outside = [p_ for p_ in members if len(bx) == 2 * len(p_) and any(float(p_[ax]) < bx[2 * ax] - tl or float(p_[ax]) > bx[2 * ax + 1] + tl for ax in range(len(p_)))]
                msg = (f"the bounding box of `{e['name']}` with a = {cs['what']}({cs['args']}) given as {fams} (its own box has dtype "
                       f"{torch.as_tensor(a_obj.bounding_box()).dtype}) and b = {geomgen.from_json(cs['partner']).tokens()} is {bx} (dtype {bt.dtype}); "
                       f"with a given as floats / exactly it is {[float(x) for x in want]}")
                if outside:
                    rep.fail(msg + f"; the point {[float(x) for x in outside[0]]} of the domain (exact membership) lies outside", tag)
                else:
                    rep.disagree("drivers/C18.lean bbox: " + msg, tag, bx, [float(x) for x in want])
                bad = True
                break


def replay(ctx, obj):
    common.use_repo()
    import torch
    torch.set_num_threads(1)
    rep = common.Report(ctx)
    lean = common.lean_check("C18")
    inp = (obj.get("failing_input") or obj.get("first"))["input"]
    if inp.get("kind") == "opaque":
        opaque_cases(ctx, rep)
    elif inp.get("kind") == "rot3":
        rot3_cases(ctx, rep, [inp])
    elif inp.get("kind") == "order":
        order_cases(ctx, rep, [{k_: inp[k_] for k_ in ("id", "kind", "mode", "dom", "pvars", "rows", "k")}])
    elif inp.get("kind") == "argtype":
        argtype_cases(ctx, rep, [{k_: inp[k_] for k_ in ("id", "kind", "mode", "what", "args", "inner")}])
    elif inp.get("kind") == "argcomp":
        argcomp_cases(ctx, rep, [{k_: v_ for k_, v_ in inp.items() if k_ not in ("families", "operation")}])
    elif inp.get("kind") == "history":
        history_cases(ctx, rep, [inp])
    elif inp.get("kind") == "opaque-history":
        opaque_histories(ctx, rep)
    else:
        run(ctx, rep, [slim(inp)])
    return common.finish(ctx, rep, lean)
