"""C03 — differential operators: correspondence (generated programs, real operators vs. the Lean model's
symbolic result) + property oracles (sympy's analytic derivative, single-row re-evaluation)."""
import math
import time
from fractions import Fraction

import common
from common import q

OPS = ["grad", "lap", "div", "jac", "rot", "partial", "nd", "conv", "sym", "mdiv"]
IMPL_NAME = dict(grad="grad", lap="laplacian", div="div", jac="jac", rot="rot", partial="partial",
                 nd="normal_derivative", conv="convective", sym="sym_grad", mdiv="matrix_div")
BATCH_FORM = {"grad", "lap", "div", "jac", "partial"}    # have a batch-level (sum-trick) form in the model
U = {"f64": 2.0 ** -53, "f32": 2.0 ** -24}
TOLF = 256.0                                             # tolerance = TOLF * u * (running error bound of the model)


# ------------------------------------------------------------------------------------------
# expressions: nested lists  ["c","p/q"] ["v",name,i] ["+",a,b] ["-",a,b] ["*",a,b] ["/",a,b] ["neg",a] ["^",a,n]
#              ["sin",a] ["cos",a] ["exp",a] ["tanh",a]

def C(x):
    return ["c", q(Fraction(x))]


def tokens(e):
    h = e[0]
    if h == "c":
        return ["c", e[1]]
    if h == "v":
        return ["v", e[1], str(e[2])]
    if h in ("^", "relun"):
        return [h] + tokens(e[1]) + [str(e[2])]
    out = [h]
    for a in e[1:]:
        out += tokens(a)
    return out


def lower(e, layers):
    """library nodes -> core nodes (what the model and sympy see):
    ["lin", lid, j] -> sum_i W[j][i]*input_i + b[j];  ["sinus", a] -> sin a;
    ["adapt", fn, a0, scaling, a] -> fn(scaling*a0*a)  (fn = "sin" | "tanh" | "relun:<n>")"""
    h = e[0]
    if h in ("c", "v"):
        return e
    if h == "lin":
        L = layers[e[1]]
        acc = ["c", L["b"][e[2]]]
        for w, inp in zip(L["W"][e[2]], L["inputs"]):
            acc = ["+", acc, ["*", ["c", w], lower(inp, layers)]]
        return acc
    if h == "sinus":
        return ["sin", lower(e[1], layers)]
    if h == "adapt":
        arg = ["*", C(Fraction(e[2]) * Fraction(e[3])), lower(e[4], layers)]
        return ["relun", arg, int(e[1].split(":")[1])] if e[1].startswith("relun") else [e[1], arg]
    return [h] + [lower(a, layers) if isinstance(a, list) else a for a in e[1:]]


def lowered(case):
    """the case with every program lowered to core nodes"""
    L = case.get("layers")
    if not L:
        return case
    c = dict(case)
    c["out"] = [[lower(e, L) for e in row] for row in case["out"]] if case["op"] == "mdiv" else [lower(e, L) for e in case["out"]]
    c["extra"] = [lower(e, L) for e in case["extra"]]
    return c


def exact_eval(e, env):
    """exact value (Fraction) of a polynomial / relun program at a row; None if not rational"""
    h = e[0]
    if h == "c":
        return Fraction(e[1])
    if h == "v":
        return env[(e[1], e[2])]
    a = exact_eval(e[1], env)
    if a is None:
        return None
    if h == "neg":
        return -a
    if h == "^":
        return a ** e[2]
    if h == "relun":
        return a ** e[2] if a > 0 else Fraction(0)
    if h in ("+", "-", "*", "/"):
        b = exact_eval(e[2], env)
        if b is None or (h == "/" and b == 0):
            return None
        return a + b if h == "+" else a - b if h == "-" else a * b if h == "*" else a / b
    return None


def relun_args(e, acc):
    if e[0] == "relun":
        acc.append(e[1])
    if e[0] not in ("c", "v"):
        for a in e[1:]:
            if isinstance(a, list):
                relun_args(a, acc)
    return acc


def depth(e):
    if e[0] in ("c", "v"):
        return 0
    return 1 + max(depth(a) for a in e[1:] if isinstance(a, list))


def coords_in(e, acc=None):
    acc = set() if acc is None else acc
    if e[0] == "v":
        acc.add((e[1], e[2]))
    elif e[0] != "c":
        for a in e[1:]:
            if isinstance(a, list):
                coords_in(a, acc)
    return acc


def is_poly(e):
    if e[0] in ("c", "v"):
        return True
    if e[0] in ("sin", "cos", "exp", "tanh", "/"):
        return False
    return all(is_poly(a) for a in e[1:] if isinstance(a, list))


def rnd_const(rng, nonzero=True):
    while True:
        k = rng.choice([rng.randint(-12, 12), rng.randint(-3, 3) * 4])
        if k or not nonzero:
            return C(Fraction(k, 4))


def gen_expr(rng, coords, d, poly, deg=5):
    """random expression over the given coordinates; polynomial degree <= deg when poly"""
    if d <= 0 or deg <= 0 or rng.random() < 0.12:
        if coords and (deg > 0) and rng.random() < 0.8:
            n, i = rng.choice(coords)
            return ["v", n, i]
        return rnd_const(rng)
    ops = ["+", "-", "*", "*", "^", "neg"] if poly else ["+", "-", "*", "*", "^", "neg", "sin", "cos", "tanh", "exp", "/", "sin", "cos"]
    h = rng.choice(ops)
    if h in ("+", "-"):
        return [h, gen_expr(rng, coords, d - 1, poly, deg), gen_expr(rng, coords, d - 1, poly, deg)]
    if h == "*":
        if deg < 2:
            return ["*", rnd_const(rng), gen_expr(rng, coords, d - 1, poly, deg)]
        d1 = rng.randint(1, deg - 1)
        return ["*", gen_expr(rng, coords, d - 1, poly, d1), gen_expr(rng, coords, d - 1, poly, deg - d1)]
    if h == "^":
        n = rng.choice([2, 2, 3])
        if deg < n:
            return gen_expr(rng, coords, d - 1, poly, deg)
        return ["^", gen_expr(rng, coords, d - 1, poly, deg // n), n]
    if h == "neg":
        return ["neg", gen_expr(rng, coords, d - 1, poly, deg)]
    if h in ("sin", "cos", "tanh"):
        return [h, gen_expr(rng, coords, d - 1, True, 2)]
    if h == "exp":   # bounded argument
        inner = rng.choice(["sin", "cos", "tanh", "lin"])
        if inner == "lin" and coords:
            n, i = rng.choice(coords)
            return ["exp", ["*", C(Fraction(rng.choice([-2, -1, 1, 2]), 4)), ["v", n, i]]]
        return ["exp", [inner if inner != "lin" else "sin", gen_expr(rng, coords, d - 2, True, 2)]]
    if h == "/":     # strictly positive, well conditioned denominator
        b = gen_expr(rng, coords, d - 2, True, 1)
        return ["/", gen_expr(rng, coords, d - 1, poly, 2), ["+", C(rng.choice([1, 2])), ["*", b, b]]]
    raise AssertionError(h)


def subst(e, m):
    """replace coordinates by expressions"""
    if e[0] == "v":
        return m.get((e[1], e[2]), e)
    if e[0] == "c":
        return e
    return [e[0]] + [subst(a, m) if isinstance(a, list) else a for a in e[1:]]


def gen_symmetric(rng, all_coords, center, d, poly):
    """a component with a prescribed symmetry about `center` (dict coordinate -> Fraction) in the coordinates of one
    variable: EVEN (first derivatives w.r.t. these coordinates vanish there, second derivatives in general do not) or
    ODD (the value vanishes there, the first derivative in general does not)."""
    def shifted(c):
        v = ["v", c[0], c[1]]
        return v if center[c] == 0 else ["-", v, C(center[c])]
    ev = {}
    for c in center:
        ev[c] = ["cos", shifted(c)] if (not poly and rng.random() < 0.4) else ["^", shifted(c), 2]
    base = subst(gen_expr(rng, all_coords, max(1, d - 1), poly, 2), ev)
    if not (coords_in(base) & set(center)):        # make sure the symmetric coordinates occur
        c = rng.choice(sorted(center))
        base = ["+", base, ["*", rnd_const(rng), ev[c]]]
    if rng.random() < 0.6:
        return "even", base
    c = rng.choice(sorted(center))
    odd = shifted(c) if (poly or rng.random() < 0.6) else ["sin", shifted(c)]
    return "odd", ["*", odd, base]


def gen_component(rng, all_coords, focus, d, poly):
    """one output component; `focus` = coordinates of the derivative variables.  Forced shares of the
    special dependence patterns the property text names."""
    others = [c for c in all_coords if c not in focus]
    r = rng.random()
    if r < 0.06:
        return "const", rnd_const(rng, nonzero=False)                    # no tensor dependence at all
    if r < 0.16 and others:
        return "indep", gen_expr(rng, others, d, poly)                   # constant in the derivative variables
    if r < 0.28 and focus:
        n, i = rng.choice(focus)                                         # affine in one coordinate
        rest = [c for c in all_coords if c != (n, i)]
        a = gen_expr(rng, rest, d - 1, poly, 3)
        b = gen_expr(rng, rest, d - 1, poly, 3)
        return "affine", ["+", ["*", a, ["v", n, i]], b]
    if r < 0.36 and focus and others:
        (n, i), (m, j) = rng.choice(focus), rng.choice(others)           # bilinear  x_i * t_j
        return "bilinear", ["*", ["v", n, i], ["v", m, j]]
    if r < 0.42 and focus:
        terms = [["*", rnd_const(rng), ["v", n, i]] for (n, i) in rng.sample(all_coords, min(len(all_coords), rng.randint(1, 3)))]
        e = terms[0]
        for t in terms[1:]:
            e = ["+", e, t]
        return "linear", e
    pool = all_coords if rng.random() < 0.7 or not focus else focus
    return "general", gen_expr(rng, pool, d, poly)


# ------------------------------------------------------------------------------------------
# case generation

NAMES = ["x", "y", "t", "z"]


def gen_case(rng, op, thorough=False):
    nv = rng.choice([1, 1, 1, 2, 2, 2, 3, 3, 4])
    names = rng.sample(NAMES, nv)
    vars_ = [[n, rng.choice([1, 1, 1, 2, 2, 2, 3, 3, 4])] for n in names]
    malformed = None
    # derivative variables
    if op == "partial":
        ones = [k for k, (_, d) in enumerate(vars_) if d == 1]
        if ones and rng.random() < 0.8:
            deriv = [rng.choice(ones) for _ in range(rng.choice([1, 2, 2, 3, 3, 4, 5]))]
        else:
            deriv = [rng.randrange(nv)]
    elif op == "rot":
        # total dimension must be 3
        split = rng.choice([[3], [2, 1], [1, 2], [1, 1, 1]])
        names = rng.sample(NAMES, len(split) + rng.choice([0, 1]))
        vars_ = [[n, d] for n, d in zip(names, split)] + [[n, rng.choice([1, 2])] for n in names[len(split):]]
        order = list(range(len(vars_)))
        rng.shuffle(order)
        vars_ = [vars_[k] for k in order]
        deriv = [order.index(k) for k in range(len(split))]
        nv = len(vars_)
    else:
        k = rng.randint(1, nv)
        deriv = rng.sample(range(nv), k)
        if op in ("grad", "lap", "jac", "nd", "conv") and rng.random() < 0.05:
            deriv.insert(rng.randrange(len(deriv) + 1), rng.choice(deriv))      # the same variable passed twice
    all_coords = [(n, i) for n, d in vars_ for i in range(d)]
    focus = [(vars_[k][0], i) for k in dict.fromkeys(deriv) for i in range(vars_[k][1])]
    tot = sum(vars_[k][1] for k in deriv)
    poly = rng.random() < 0.35
    d = rng.choice([1, 2, 3, 3, 4, 4, 5] if thorough else [1, 2, 3, 3, 4, 5])
    if op == "partial" and len(deriv) > 3:
        d = min(d, 3)                     # keeps the 4th/5th symbolic derivative small
    kinds = []
    # a set that is special for the program: the coordinates of one derivative variable at a centre of symmetry
    center = None
    if rng.random() < 0.3:
        kc = rng.choice(deriv)
        center = {(vars_[kc][0], i): Fraction(rng.choice([0, 0, 0, 1, -1, 2, -4]), 4) for i in range(vars_[kc][1])}

    def comp():
        if center is not None and rng.random() < 0.7:
            kd, e = gen_symmetric(rng, all_coords, center, d, poly)
        else:
            kd, e = gen_component(rng, all_coords, focus, d, poly)
        kinds.append(kd)
        return e
    extra = []
    if op in ("grad", "lap", "partial", "nd"):
        out = [comp()]
    elif op in ("div", "sym"):
        out = [comp() for _ in range(tot)]
        if op == "div" and rng.random() < 0.04 and tot > 1:
            out = out[:-1]
            malformed = "narrow"
        if op == "sym" and rng.random() < 0.08:
            # non-square Jacobian: rejected, or (single row / single column) broadcast by torch — mirrored, no oracle
            out = [comp() for _ in range(rng.choice([m for m in (1, 2, 3, 4) if m != tot]))]
            malformed = "sym-nonsquare"
    elif op == "rot":
        out = [comp() for _ in range(3)]
    elif op in ("jac", "conv"):
        out = [comp() for _ in range(rng.randint(1, 3))]
    elif op == "mdiv":
        out = [[comp() for _ in range(tot)] for _ in range(rng.randint(1, 3))]
    if op in ("nd", "conv"):
        nx = tot
        if op == "nd" and rng.random() < 0.08 and tot > 1:
            nx = 1                                                       # broadcast normals
        if op == "conv" and rng.random() < 0.04 and tot >= 2:   # tot = 1 would broadcast in some formulations
            nx = tot + 1
            malformed = "shape"
        extra = [gen_expr(rng, all_coords, rng.choice([0, 0, 1, 2]), True, 2) for _ in range(nx)]
        if rng.random() < 0.05:
            extra = [C(0) for _ in extra]                                # normals / field vanish on the whole batch
    # batch
    # every operator works on the trailing axes: no batch axis (a single point), one, two or three batch axes
    batch = rng.choice([[1], [2], [3], [5], [2], [3], [4], [2, 2], [1, 3], [3, 2], [2, 1, 2], [1, 2, 2], []])
    n = math.prod(batch)
    rows = [[Fraction(rng.randint(-16, 16), 8) for _ in all_coords] for _ in range(n)]
    # evaluation points that are special for the program / for programs in general
    special_rows = []
    if center is not None:
        pm = rng.choice(["on-set-all", "on-set-all", "on-set-mixed", "on-set-mixed", "generic"])
        cset = center
    else:
        pm = rng.choice(["generic"] * 15 + ["zeros", "zeros", "origin-all", "identical-rows", "var-zero-all"])
        kc = rng.choice(deriv)
        cset = {(vars_[kc][0], i): Fraction(0) for i in range(vars_[kc][1])}
    if pm in ("on-set-all", "on-set-mixed", "var-zero-all"):
        chosen = list(range(n)) if pm != "on-set-mixed" else [r for r in range(n) if rng.random() < 0.5] or [0]
        if pm == "on-set-mixed" and len(chosen) == n and n > 1:
            chosen = chosen[:-1]
        for r in chosen:
            for j, c in enumerate(all_coords):
                if c in cset:
                    rows[r][j] = cset[c]
        special_rows = chosen
    elif pm == "zeros":
        rows = [[Fraction(0) if rng.random() < 0.5 else v for v in r] for r in rows]
    elif pm == "origin-all":
        rows = [[Fraction(0) for _ in r] for r in rows]
        special_rows = list(range(n))
    elif pm == "identical-rows":
        rows = [list(rows[0]) for _ in rows]
    rows = [[q(v) for v in r] for r in rows]
    case = dict(op=op, vars=vars_, out=out, deriv=deriv, extra=extra, batch=batch, rows=rows,
                dtype=rng.choice(["f64", "f64", "f32"]), style=rng.randrange(4), kinds=kinds, poly=poly,
                pointmode=pm, special_rows=special_rows)
    if op == "lap" and rng.random() < 0.25:
        case["pregrad"] = True            # the `grad=` keyword (used for one variable, recomputed for several)
    if op in ("nd", "conv") and rng.random() < 0.3:
        case["extra_graph"] = True        # normals / field handed over with their graph (e.g. the field is u itself)
    r = rng.random()
    if r < 0.08:
        case["outmode"] = "noncontig"
    elif r < 0.13:
        case["outmode"] = "expandview"
    if len(batch) == 1 and rng.random() < 0.15:
        case["inmode"] = "points"
    if malformed:
        case["malformed"] = malformed
    return case


def gen_degenerate(rng, op):
    """degenerate but legal programs: the output IS an input leaf, a slice of an input without arithmetic,
    a constant tensor without graph; inputs optionally created by Points.track_coord_gradients"""
    for _ in range(200):
        case = gen_case(rng, op)
        if case.get("malformed"):
            continue
        vars_, deriv = case["vars"], case["deriv"]
        need = len(case["out"][0]) if op == "mdiv" else len(case["out"])
        kind = rng.choice(["leaf", "leaf", "slice", "const"])
        if kind == "const":
            comps = lambda: [rnd_const(rng, nonzero=False) for _ in range(need)]
            case["outmode"] = "constview" if rng.random() < 0.6 else "std"
        else:
            if kind == "leaf":
                cands = [(n, 0, d) for n, d in vars_ if d == need]
            else:
                cands = [(n, a, a + need) for n, d in vars_ for a in range(d - need + 1) if d > need]
            if not cands:
                continue
            case["outmode"] = "slice"
            comps = lambda: (lambda c: [["v", c[0], i] for i in range(c[1], c[2])])(rng.choice(cands))
        case["out"] = [comps() for _ in case["out"]] if op == "mdiv" else comps()
        case["kinds"] = [kind]
        case["poly"] = True
        case["degenerate"] = kind
        case.pop("pregrad", None)
        if len(case["batch"]) == 1 and rng.random() < 0.4:
            case["inmode"] = "points"
        else:
            case.pop("inmode", None)
        return case
    return None


ACTS = ["relun:2", "relun:3", "relun:3", "tanh", "sinus", "adapt:tanh", "adapt:sin", "adapt:relun:2", "adapt:relun:3"]


def act_node(rng, kind, z):
    if kind.startswith("relun"):
        return ["relun", z, int(kind.split(":")[1])]
    if kind == "tanh":
        return ["tanh", z]
    if kind == "sinus":
        return ["sinus", z]
    fn = kind.split(":", 1)[1]
    return ["adapt", fn, q(Fraction(rng.choice([1, 2, 3]), 2)), q(Fraction(rng.choice([1, 2, 4]), 2)), z]


def gen_network(rng, op):
    """programs built from the library's own modules and autograd Functions (ReLUn, Sinus, AdaptiveActivationFunction,
    the DeepONet trunk layer `linear`, torch.nn.Linear) in which an intermediate is REUSED through several branches:
    residual blocks act(z) +/- z, z*act(z), act(z) + x_i, two heads on one hidden layer."""
    for _ in range(200):
        case = gen_case(rng, op)
        if case.get("malformed"):
            continue
        vars_ = case["vars"]
        coords = [(n, i) for n, d in vars_ for i in range(d)]
        need = len(case["out"][0]) if op == "mdiv" else len(case["out"])
        nrows = len(case["out"]) if op == "mdiv" else 1
        if len(coords) > 4 or need * nrows > 4:
            continue                          # keeps the symbolic oracle fast
        k = rng.choice([2, 2, 3])
        w = lambda: q(Fraction(rng.choice([-4, -3, -2, -1, 1, 2, 3, 4]), 2))
        layers = [dict(kind=rng.choice(["nn", "trunk"]), W=[[w() for _ in coords] for _ in range(k)],
                       b=[q(Fraction(rng.randint(-4, 4), 4)) for _ in range(k)], inputs=[["v", n, i] for n, i in coords])]
        blocks = []
        for j in range(k):
            z = ["lin", 0, j]
            a = act_node(rng, rng.choice(ACTS), z)
            form = rng.choice(["a+z", "z+a", "a-z", "a*z", "a+x", "a"])
            if form == "a+z":
                blocks.append(["+", a, z])
            elif form == "z+a":
                blocks.append(["+", z, a])
            elif form == "a-z":
                blocks.append(["-", a, z])
            elif form == "a*z":
                blocks.append(["*", a, z])
            elif form == "a+x":
                n, i = rng.choice(coords)
                blocks.append(["+", a, ["v", n, i]])
            else:
                blocks.append(a)
        layers.append(dict(kind=rng.choice(["nn", "trunk"]), W=[[w() for _ in range(k)] for _ in range(need * nrows)],
                           b=[q(Fraction(rng.randint(-4, 4), 4)) for _ in range(need * nrows)], inputs=blocks))
        heads = [["lin", 1, j] for j in range(need * nrows)]
        if rng.random() < 0.3:               # a second skip connection around the whole block
            n, i = rng.choice(coords)
            heads = [["+", h, ["v", n, i]] for h in heads]
        case["out"] = [heads[r * need:(r + 1) * need] for r in range(nrows)] if op == "mdiv" else heads
        case["layers"] = layers
        case["share"] = True
        case["kinds"] = ["network"]
        case["network"] = True
        case["poly"] = False
        for key in ("outmode", "pregrad"):
            case.pop(key, None)
        # keep every ReLU argument away from the kink (|z| >= 1/8) at every row
        args = []
        for e in flat_out(lowered(case)):
            relun_args(e, args)
        ok = True
        for r in case["rows"]:
            env = {c: Fraction(v) for c, v in zip(coords, r)}
            for a in args:
                v = exact_eval(a, env)
                if v is None or abs(v) < Fraction(1, 8):
                    ok = False
        if ok:
            return case
    return None


def add_reuse(rng, case):
    """regular programs: make a non-trivial sub-program occur in two branches and evaluate it ONCE (shared tensor)"""
    def subs(e, acc):
        if e[0] not in ("c", "v"):
            acc.append(e)
            for a in e[1:]:
                if isinstance(a, list):
                    subs(a, acc)
        return acc
    def one(e):
        cands = subs(e, [])
        if not cands:
            return e
        s_ = rng.choice(cands)
        wrap = rng.choice([lambda t: t, lambda t: ["sin", t], lambda t: ["tanh", t], lambda t: ["*", t, t]])
        return [rng.choice(["+", "-"]), e, ["*", rnd_const(rng), wrap(s_)]]
    if case["op"] == "mdiv":
        case["out"] = [[one(e) for e in row] for row in case["out"]]
    else:
        case["out"] = [one(e) for e in case["out"]]
    case["share"] = True
    case["reuse"] = True
    return case


def flat_out(case):
    return [e for row in case["out"] for e in row] if case["op"] == "mdiv" else case["out"]


# ------------------------------------------------------------------------------------------
# implementation

def torch_eval(torch, e, X):
    """X maps coordinates to tensors; X["__memo__"] (a dict) makes identical sub-programs ONE tensor that is reused
    in every place it occurs (skip connections), X["__ctx__"] carries layers / dtype / the library"""
    memo = X.get("__memo__")
    if memo is None or e[0] in ("c", "v"):
        return _torch_eval(torch, e, X)
    import json as _json
    key = _json.dumps(e)
    if key not in memo:
        memo[key] = _torch_eval(torch, e, X)
    return memo[key]


def _as_tensor(torch, a, X):
    if torch.is_tensor(a):
        return a
    ctx = X["__ctx__"]
    return torch.full((*ctx["batch"], 1), float(a), dtype=ctx["dt"])


def _torch_eval(torch, e, X):
    h = e[0]
    if h == "c":
        return float(Fraction(e[1]))
    if h == "v":
        return X[(e[1], e[2])]
    if h == "lin":
        ctx = X["__ctx__"]
        lay = ctx["done"].get(e[1])
        if lay is None:
            L = ctx["layers"][e[1]]
            inp = torch.cat([_as_tensor(torch, torch_eval(torch, a, X), X) for a in L["inputs"]], dim=-1)
            W = torch.tensor([[float(Fraction(w)) for w in r] for r in L["W"]], dtype=ctx["dt"], requires_grad=True)
            b = torch.tensor([float(Fraction(w)) for w in L["b"]], dtype=ctx["dt"], requires_grad=True)
            if L["kind"] == "trunk" and len(ctx["batch"]) >= 1:          # the DeepONet trunk layer (custom autograd Function `linear`)
                from torchphysics.models.deeponet.layers import TrunkLinear
                mod = TrunkLinear(len(L["W"][0]), len(L["W"])).to(ctx["dt"])
                with torch.no_grad():
                    mod.weight.copy_(W)
                    mod.bias.copy_(b)
                lay = mod(inp.unsqueeze(0))[0]
            else:
                mod = torch.nn.Linear(len(L["W"][0]), len(L["W"])).to(ctx["dt"])
                with torch.no_grad():
                    mod.weight.copy_(W)
                    mod.bias.copy_(b)
                lay = mod(inp)
            ctx["done"][e[1]] = lay
        return lay[..., e[2]:e[2] + 1]
    if h in ("relun", "sinus", "adapt"):
        tp = X["__ctx__"]["tp"]
        if h == "relun":
            a = _as_tensor(torch, torch_eval(torch, e[1], X), X)
            return tp.models.ReLUn(e[2])(a)
        if h == "sinus":
            return tp.models.Sinus()(_as_tensor(torch, torch_eval(torch, e[1], X), X))
        fn = e[1]
        inner = tp.models.ReLUn(int(fn.split(":")[1])) if fn.startswith("relun") else (tp.models.Sinus() if fn == "sin" else torch.nn.Tanh())
        mod = tp.models.AdaptiveActivationFunction(inner, inital_a=float(Fraction(e[2])), scaling=float(Fraction(e[3])))
        mod = mod.to(X["__ctx__"]["dt"])
        return mod(_as_tensor(torch, torch_eval(torch, e[4], X), X))
    a = torch_eval(torch, e[1], X)
    if h == "neg":
        return -a
    if h == "^":
        return a ** e[2]
    if h in ("sin", "cos", "exp", "tanh"):
        if not torch.is_tensor(a):
            return getattr(math, h)(a)
        return getattr(torch, h)(a)
    b = torch_eval(torch, e[2], X)
    return a + b if h == "+" else a - b if h == "-" else a * b if h == "*" else a / b


def build_inputs(torch, case, rows=None):
    dt = torch.float64 if case["dtype"] == "f64" else torch.float32
    rows = case["rows"] if rows is None else rows
    batch = case["batch"] if rows is case["rows"] else [len(rows)]
    T, X, off = {}, {}, 0
    style = case["style"]
    tracked = None
    if case.get("inmode") == "points" and len(batch) == 1:
        # the tensors the library itself hands to residual functions: leaf VIEWS (slices) of one joined tensor
        tp = common.use_repo()
        space = tp.spaces.Space({n: d for n, d in case["vars"]})
        joined = torch.tensor([[float(Fraction(v)) for v in r] for r in rows], dtype=dt)
        tracked, _ = tp.spaces.Points(joined, space).track_coord_gradients()
    for n, d in case["vars"]:
        if tracked is not None:
            t = tracked[n]
        else:
            vals = [[float(Fraction(v)) for v in r[off:off + d]] for r in rows]
            t = torch.tensor(vals, dtype=dt).reshape(*batch, d).clone().requires_grad_(True)
        T[n] = t
        if style == 1:
            cols = [t.narrow(-1, i, 1) for i in range(d)]
        elif style == 2:
            cols = [c.unsqueeze(-1) for c in t.unbind(-1)]
        elif style == 3:
            cols = list(torch.split(t, 1, dim=-1))
        else:
            cols = [t[..., i:i + 1] for i in range(d)]
        for i in range(d):
            X[(n, i)] = cols[i]
        off += d
    X["__ctx__"] = dict(layers=case.get("layers", []), done={}, dt=dt, batch=batch, tp=common.use_repo())
    X["__memo__"] = {} if case.get("share") else None
    return T, X, batch, dt


def is_slice(exprs):
    """(name, a, b) if the components are exactly coordinates a..b-1 of one variable, in order"""
    if not exprs or any(e[0] != "v" for e in exprs):
        return None
    n, a = exprs[0][1], exprs[0][2]
    if all(e[1] == n and e[2] == a + k for k, e in enumerate(exprs)):
        return n, a, a + len(exprs)
    return None


def make_output(torch, exprs, T, X, case, batch, dt):
    """the tensor handed to the operator; `outmode` selects degenerate but legal ways of producing it"""
    mode = case.get("outmode", "std")
    sl = is_slice(exprs)
    dims = dict((n, d) for n, d in case["vars"])
    if mode == "slice" and sl:
        n, a, b = sl
        if a == 0 and b == dims[n]:
            return T[n]                         # the output IS the input leaf
        return T[n][..., a:b]                   # a component / slice of an input, no arithmetic
    if mode == "constview" and all(e[0] == "c" for e in exprs):
        row = torch.tensor([float(Fraction(e[1])) for e in exprs], dtype=dt)
        return row.expand(*batch, len(exprs))   # constant tensor without graph, stride 0
    out = assemble(torch, [torch_eval(torch, e, X) for e in exprs], batch, dt, case["style"])
    if mode == "noncontig":
        return out.movedim(-1, 0).contiguous().movedim(0, -1)
    if mode == "expandview":
        return out.unsqueeze(0).expand(2, *out.shape)[1]
    return out


def assemble(torch, comps, batch, dt, style):
    cols = []
    for c in comps:
        if not torch.is_tensor(c):
            c = torch.full((*batch, 1), float(c), dtype=dt)
        cols.append(c)
    if style == 2:
        out = torch.zeros((*batch, len(cols)), dtype=dt)
        for j, c in enumerate(cols):
            out[..., j:j + 1] = c
        return out
    if style == 3:
        return torch.stack([c.squeeze(-1) for c in cols], dim=-1)
    return torch.cat(cols, dim=-1)


def err_kind(e):
    msg = str(e)
    if isinstance(e, IndexError) or "exceeds dimension" in msg or "out of range" in msg:
        return "narrow"
    if "must match" in msg or "size" in msg.lower() or "shape" in msg.lower() or "batch" in msg.lower():
        return "shape"
    return "other"


def run_impl(case, rows=None):
    """returns dict(shape=[per-row shape], values=[[...] per row], dtype) or dict(error=kind, message=...)"""
    tp = common.use_repo()
    import torch
    ops = tp.utils.differentialoperators
    T, X, batch, dt = build_inputs(torch, case, rows)
    op = case["op"]
    try:
        if op == "mdiv":
            rows_t = [make_output(torch, row, T, X, case, batch, dt) for row in case["out"]]
            out = torch.stack(rows_t, dim=len(batch))
            if case.get("outmode") == "noncontig":
                out = out.transpose(-1, -2).contiguous().transpose(-1, -2)
        else:
            out = make_output(torch, case["out"], T, X, case, batch, dt)
        dv = [T[case["vars"][k][0]] for k in case["deriv"]]
        f = getattr(ops, IMPL_NAME[op])
        before = {n: t.detach().clone() for n, t in T.items()}
        before["<model_out>"] = out.detach().clone()
        if op in ("nd", "conv"):
            ex = assemble(torch, [torch_eval(torch, e, X) for e in case["extra"]], batch, dt, 0)
            if not case.get("extra_graph"):
                ex = ex.detach()
            res = f(out, ex, *dv)
        elif op == "lap" and case.get("pregrad"):
            res = f(out, *dv, grad=ops.grad(out, dv[0]))
        else:
            res = f(out, *dv)
        mutated = [n for n, t in before.items() if not torch.equal(t, (out if n == "<model_out>" else T[n]).detach())]
        second = None
        if rows is None and not case.get("pregrad") and op not in ("nd", "conv"):
            res2 = f(out, *dv)               # a second use of the same graph must give the same answer
            if res2.shape != res.shape or not torch.allclose(res2, res, rtol=1e-6, atol=1e-9, equal_nan=True):
                second = "second call on the same tensors returned a different result"
    except Exception as e:  # noqa
        return dict(error=err_kind(e), message=f"{type(e).__name__}: {str(e)[:200]}")
    nb = len(batch)
    if list(res.shape[:nb]) != list(batch):
        return dict(shape=list(res.shape), values=None, dtype=str(res.dtype), badbatch=True)
    per = list(res.shape[nb:])
    vals = res.detach().to(torch.float64).reshape(math.prod(batch), -1).tolist()
    info = dict(shape=per, values=vals, dtype=str(res.dtype), mutated=mutated, second=second)
    if op in ("lap", "grad", "partial") and rows is None:
        # measured for the evidence: is the whole batch stationary w.r.t. some derivative variable / does u vanish on it?
        try:
            with torch.no_grad():
                info["out_zero"] = bool(not torch.any(out))
            cnt = 0
            if out.requires_grad:
                for v in dv:
                    g = torch.autograd.grad(out.sum(), v, allow_unused=True, retain_graph=True)[0]
                    if g is not None and not torch.any(g):
                        cnt += 1
            info["stationary"] = cnt
        except Exception:  # noqa
            pass
    return info


# ------------------------------------------------------------------------------------------
# oracle: sympy's analytic derivatives of the same program

def sym_expr(sp, e, S):
    h = e[0]
    if h == "c":
        return sp.Rational(e[1])
    if h == "v":
        return S[(e[1], e[2])]
    a = sym_expr(sp, e[1], S)
    if h == "neg":
        return -a
    if h == "^":
        return a ** e[2]
    if h == "relun":
        # away from the kink relu(a)^n = step(a) * a^n with a locally constant step: one parameter symbol per distinct
        # argument, set per row from the exact sign of the argument (falls back to Piecewise for non-rational arguments)
        reg = S.get("__relu__")
        if reg is not None and is_poly_or_relun(e[1]):
            import json as _json
            key = _json.dumps(e[1])
            if key not in reg:
                reg[key] = (e[1], sp.Symbol("step_%d" % len(reg), real=True))
            return reg[key][1] * a ** e[2]
        return sp.Piecewise((a ** e[2], a > 0), (0, True))
    if h in ("sin", "cos", "exp", "tanh"):
        return getattr(sp, h)(a)
    b = sym_expr(sp, e[2], S)
    return a + b if h == "+" else a - b if h == "-" else a * b if h == "*" else a / b


def is_poly_or_relun(e):
    if e[0] in ("c", "v"):
        return True
    if e[0] in ("sin", "cos", "exp", "tanh", "/"):
        return False
    return all(is_poly_or_relun(a) for a in e[1:] if isinstance(a, list))


def run_oracle(case):
    """the textbook differential expression, by sympy, evaluated in float64 at every row.
    returns (per-row shape, [[values] per row])"""
    import sympy as sp
    case = lowered(case)
    coords = [(n, i) for n, d in case["vars"] for i in range(d)]
    S = {c: sp.Symbol(f"{c[0]}_{c[1]}", real=True) for c in coords}
    S["__relu__"] = {}
    op = case["op"]
    out = [sym_expr(sp, e, S) for e in flat_out(case)]
    extra = [sym_expr(sp, e, S) for e in case["extra"]]
    ys = [S[(case["vars"][k][0], i)] for k in case["deriv"] for i in range(case["vars"][k][1])]
    d = sp.diff
    if op == "grad":
        res, shape = [d(out[0], y) for y in ys], [len(ys)]
    elif op == "lap":
        res, shape = [sum(d(out[0], y, 2) for y in ys)], [1]
    elif op == "div":
        res, shape = [sum(d(o, y) for o, y in zip(out, ys))], [1]
    elif op == "jac":
        res, shape = [d(o, y) for o in out for y in ys], [len(out), len(ys)]
    elif op == "rot":
        J = [[d(o, y) for y in ys] for o in out]
        res, shape = [J[2][1] - J[1][2], J[0][2] - J[2][0], J[1][0] - J[0][1]], [3]
    elif op == "partial":
        if all(case["vars"][k][1] == 1 for k in case["deriv"]):
            e = out[0]
            for y in ys:
                e = d(e, y)
            res, shape = [e], [1]
        else:
            res, shape = [d(out[0], y) for y in ys], [len(ys)]
    elif op == "nd":
        nrm = extra if len(extra) == len(ys) else extra * len(ys)
        res, shape = [sum(d(out[0], y) * n for y, n in zip(ys, nrm))], [1]
    elif op == "conv":
        res, shape = [sum(d(o, y) * v for y, v in zip(ys, extra)) for o in out], [len(out)]
    elif op == "sym":
        m = len(out)
        res, shape = [(d(out[i], ys[j]) + d(out[j], ys[i])) / 2 for i in range(m) for j in range(m)], [m, m]
    elif op == "mdiv":
        m = len(case["out"])
        nn = len(ys)
        res, shape = [sum(d(out[i * nn + j], ys[j]) for j in range(nn)) for i in range(m)], [m]
    steps = list(S["__relu__"].values())
    f = sp.lambdify([S[c] for c in coords] + [sy for _, sy in steps], res, modules="math", cse=False)
    vals = []
    for r in case["rows"]:
        env = {c: Fraction(x) for c, x in zip(coords, r)}
        sv = [1.0 if exact_eval(arg, env) > 0 else 0.0 for arg, _ in steps]
        v = f(*([float(Fraction(x)) for x in r] + sv))
        vals.append([float(x) for x in v])
    return shape, vals


# ------------------------------------------------------------------------------------------
# model (driver)

def driver_line(case, form, num):
    case = lowered(case)
    op = case["op"]
    t = [op, form, num, str(len(case["vars"]))]
    for n, d in case["vars"]:
        t += [n, str(d)]
    if op == "mdiv":
        t.append(str(len(case["out"])))
        for row in case["out"]:
            t.append(str(len(row)))
            for e in row:
                t += tokens(e)
    else:
        t.append(str(len(case["out"])))
        for e in case["out"]:
            t += tokens(e)
    t.append(str(len(case["deriv"])))
    t += [str(k) for k in case["deriv"]]
    t.append(str(len(case["extra"])))
    for e in case["extra"]:
        t += tokens(e)
    t.append(str(len(case["rows"])))
    for r in case["rows"]:
        t.append(str(len(r)))
        t += list(r)
    return " ".join(t)


def parse_reply(reply, num):
    """-> dict(error=kind) | dict(shape, values, bounds)   (values: Fraction|None for rat, float for flt)"""
    if reply.startswith("err:"):
        return dict(error=reply[4:])
    if reply.startswith("bad-op") or " ; " not in reply and not reply.endswith(" ;"):
        raise common.DriverFailure(f"driver C03 answered {reply[:120]!r}")
    head, _, body = reply.partition(" ;")
    shape = [int(x) for x in head.split()]
    vals, bnds = [], []
    for row in body.split("|"):
        toks = row.split()
        if num == "rat":
            vals.append([None if t == "none" else Fraction(t) for t in toks])
            bnds.append([None] * len(toks))
        else:
            vals.append([common.unfbits(t.split(":")[0]) for t in toks])
            bnds.append([common.unfbits(t.split(":")[1]) for t in toks])
    return dict(shape=shape, values=vals, bounds=bnds)


# ------------------------------------------------------------------------------------------
# judging

def fallback_tol(case, ref):
    return (1e-7 if case["dtype"] == "f64" else 2e-3) * max(1.0, abs(ref))


def close(a, b, tol):
    if a is None or b is None:
        return False
    if math.isnan(a) or math.isnan(b) or math.isinf(a) or math.isinf(b):
        return False
    return abs(a - b) <= tol


def describe(case):
    return f"{IMPL_NAME[case['op']]} on vars {case['vars']} deriv {case['deriv']} batch {case['batch']} {case['dtype']}"


def judge(rep, case, impl, oracle, models):
    """models: dict (form,num) -> parsed reply (may be empty when the driver is unavailable)"""
    op = case["op"]
    u = U[case["dtype"]]
    mal = case.get("malformed")
    flt = models.get(("row", "flt"))
    # ---- malformed stream: model and code must reject the same inputs; never feeds the oracles
    if mal:
        rep.count("malformed:" + mal)
        got = impl.get("error")
        if got is not None or flt is None or impl.get("badbatch"):
            return          # rejecting a malformed input is always fine (the model may mirror an oddity that a stricter code refuses)
        if flt.get("error"):
            rep.disagree(f"malformed input ({mal}) accepted by {IMPL_NAME[op]} but rejected by drivers/C03.lean", case,
                         dict(shape=impl["shape"]), "err:" + flt["error"])
            return
        rep.count("malformed-but-accepted:" + mal)   # mirrored oddity: correspondence only, below
    # ---- property oracle 1: no error, the analytic value at every row
    if "error" in impl and not mal:
        rep.fail(f"{describe(case)} raised instead of returning the derivative: {impl['message']}", case,
                 detail=dict(kinds=case["kinds"]))
        return
    if impl.get("mutated"):
        rep.fail(f"{describe(case)}: the call changed the values of its input tensors {impl['mutated']}", case)
    if impl.get("second"):
        rep.fail(f"{describe(case)}: {impl['second']}", case)
    oshape, ovals = oracle if oracle is not None else (impl["shape"], [])
    if impl.get("badbatch") or impl["shape"] != oshape:
        rep.fail(f"{describe(case)}: result shape {impl['shape']} (batch part included if wrong), expected batch {case['batch']} + {oshape}", case)
        return
    bounds = flt["bounds"] if (flt and "bounds" in flt) else None
    worst = None
    for r, (iv, ov) in enumerate(zip(impl["values"], ovals)):
        for j, (a, b) in enumerate(zip(iv, ov)):
            tol = (TOLF * u * (bounds[r][j] + 1.0)) if bounds and not math.isnan(bounds[r][j]) else fallback_tol(case, b)
            if not close(a, b, tol):
                worst = worst or dict(row=r, entry=j, implementation=a, analytic=b, tolerance=tol, point=case["rows"][r])
    if worst:
        rep.fail(f"{describe(case)}: row {worst['row']} entry {worst['entry']} is {worst['implementation']!r}, "
                 f"the analytic value is {worst['analytic']!r} (tolerance {worst['tolerance']:.3g})", case, detail=worst)
    # ---- correspondence: model vs implementation
    for (form, num), m in models.items():
        what = f"operator values: drivers/C03.lean `{op} {form} {num}` vs torchphysics.utils.{IMPL_NAME[op]}"
        if "error" in m:
            rep.disagree(what, case, dict(shape=impl["shape"]), "err:" + m["error"])
            continue
        if m["shape"] != impl["shape"]:
            rep.disagree(what, case, dict(shape=impl["shape"]), dict(shape=m["shape"]))
            continue
        bad = None
        for r, (iv, mv) in enumerate(zip(impl["values"], m["values"])):
            for j, (a, b) in enumerate(zip(iv, mv)):
                if b is None:
                    bad = bad or dict(row=r, entry=j, implementation=a, model="none (not a rational computation)")
                    continue
                bf = float(b)
                if bounds and not math.isnan(bounds[r][j]):
                    tol = TOLF * u * (bounds[r][j] + 1.0)
                else:
                    tol = fallback_tol(case, bf)
                if not close(a, bf, tol):
                    bad = bad or dict(row=r, entry=j, implementation=a, model=str(b), tolerance=tol)
        if bad:
            rep.disagree(what, case, bad, "see model field")
    # the exact channel also audits the Float channel and its error bound
    rat = models.get(("row", "rat"))
    if rat and flt and "values" in rat and "values" in flt and rat["shape"] == flt["shape"]:
        for rv, fv, fb in zip(rat["values"], flt["values"], flt["bounds"]):
            for a, b, e in zip(rv, fv, fb):
                if a is not None and not (abs(float(a) - b) <= 4 * U["f64"] * (e + 1.0)):
                    rep.notes.append(f"model Float value {b!r} outside its own error bound of the exact value {a}")
                    rep.count("errbound-too-small")


def single_row_check(rep, case, impl):
    """property oracle 2: the result of a row does not depend on the other rows — recompute chosen rows alone"""
    if "error" in impl or impl.get("badbatch") or len(case["rows"]) < 2:
        return
    n = len(case["rows"])
    sp = [r for r in case.get("special_rows", []) if r < n]
    picks = (sp[:2] + [r for r in sorted({0, n - 1, (case["style"] * 7 + 3) % n}) if r not in sp])[:3 if sp else 2]
    u = U[case["dtype"]]
    for r in picks:
        alone = run_impl(case, rows=[case["rows"][r]])
        if "error" in alone or alone.get("badbatch"):
            rep.fail(f"{describe(case)}: evaluating row {r} alone fails ({alone.get('message', alone.get('shape'))}) although the batch works", case)
            return
        for j, (a, b) in enumerate(zip(impl["values"][r], alone["values"][0])):
            tol = 64 * u * max(1.0, abs(a), abs(b))
            if not close(a, b, tol):
                rep.fail(f"{describe(case)}: row {r} entry {j} is {a!r} inside the batch but {b!r} when the row is evaluated alone "
                         f"(the result of a row depends on the other rows)", case, detail=dict(row=r, entry=j, in_batch=a, alone=b))
                return
    rep.count("single-row-recomputed", len(picks))


# ------------------------------------------------------------------------------------------

def nontrivial(case):
    outs = flat_out(case)
    focus = {(case["vars"][k][0], i) for k in case["deriv"] for i in range(case["vars"][k][1])}
    dep = any(coords_in(e) & focus for e in outs)
    outs = flat_out(lowered(case))
    deep = max(depth(e) for e in outs) >= 2 or case.get("degenerate") in ("leaf", "slice")
    return (not case.get("malformed")) and dep and deep and len(case["rows"]) >= 2


def gen_cases(ctx):
    rng = ctx.rng
    per_op = ctx.scale(115, 1500)
    cases = [c for c in CORPUS]
    for op in OPS:
        for _ in range(per_op):
            c = gen_case(rng, op, thorough=not ctx.quick)
            if not c.get("malformed") and rng.random() < 0.15:
                c = add_reuse(rng, c)
            elif rng.random() < 0.5:
                c["share"] = True
            cases.append(c)
    for op in OPS:
        for _ in range(ctx.scale(30, 300)):
            c = gen_degenerate(rng, op)
            if c is not None:
                cases.append(c)
    for op in OPS:
        for _ in range(ctx.scale(10, 120)):
            c = gen_network(rng, op)
            if c is not None:
                cases.append(c)
    return cases


def V(n, i):
    return ["v", n, i]


# minimised past failures of the pinned snapshot (run first)
CORPUS = [
    # laplacian of a bilinear function raised ("not used in the graph")
    dict(op="lap", vars=[["x", 2], ["t", 1]], out=[["*", V("x", 0), V("t", 0)]], deriv=[1], extra=[], batch=[2],
         rows=[["1", "2", "1/2"], ["3", "4", "1/4"]], dtype="f64", style=0, kinds=["bilinear"], poly=True),
    # gradient w.r.t. a variable the function does not depend on raised
    dict(op="grad", vars=[["x", 2], ["t", 1]], out=[["^", V("x", 0), 2]], deriv=[1], extra=[], batch=[2],
         rows=[["1", "2", "1/2"], ["3", "4", "1/4"]], dtype="f64", style=0, kinds=["indep"], poly=True),
    dict(op="partial", vars=[["x", 1], ["t", 1]], out=[["*", V("x", 0), V("t", 0)]], deriv=[1, 1], extra=[], batch=[2],
         rows=[["1", "1/2"], ["3", "1/4"]], dtype="f64", style=0, kinds=["bilinear"], poly=True),
    # a function without any tensor dependence
    dict(op="grad", vars=[["x", 2]], out=[["c", "3"]], deriv=[0], extra=[], batch=[2],
         rows=[["1", "2"], ["3", "4"]], dtype="f32", style=0, kinds=["const"], poly=True),
    # grad with two variables on a rank-3 tensor concatenated along axis 1
    dict(op="grad", vars=[["x", 2], ["t", 1]], out=[["*", ["^", V("x", 0), 2], ["*", V("x", 1), V("t", 0)]]], deriv=[0, 1], extra=[],
         batch=[2, 3], rows=[[q(Fraction(a, 2)), q(Fraction(b, 4)), q(Fraction(a + b, 8))] for a in (1, 3) for b in (1, 2, 5)],
         dtype="f64", style=0, kinds=["general"], poly=True),
    # float64 programs through the float32 accumulators of laplacian / rot / matrix_div
    dict(op="lap", vars=[["x", 2]], out=[["*", ["^", V("x", 0), 3], ["^", V("x", 1), 2]]], deriv=[0], extra=[], batch=[2],
         rows=[["11/8", "13/8"], ["-7/8", "9/8"]], dtype="f64", style=0, kinds=["general"], poly=True),
    dict(op="rot", vars=[["x", 3]], out=[["^", V("x", 1), 3], ["*", ["^", V("x", 2), 3], V("x", 0)], ["*", V("x", 0), ["^", V("x", 1), 3]]],
         deriv=[0], extra=[], batch=[2], rows=[["11/8", "13/8", "7/8"], ["-7/8", "9/8", "5/8"]], dtype="f64", style=0,
         kinds=["general"] * 3, poly=True),
    dict(op="mdiv", vars=[["x", 2]], out=[[["^", V("x", 0), 3], ["^", V("x", 1), 3]], [["*", V("x", 0), V("x", 1)], ["^", V("x", 1), 5]]],
         deriv=[0], extra=[], batch=[2], rows=[["11/8", "13/8"], ["-7/8", "9/8"]], dtype="f64", style=0, kinds=["general"] * 4, poly=True),
]


CORPUS += [
    # the output IS an input leaf: partial(x, x) = 1, partial(t, t) = 1 (a `grad_fn is None` early-out returned 0)
    dict(op="partial", vars=[["x", 1], ["t", 1]], out=[V("x", 0)], deriv=[0], extra=[], batch=[2], rows=[["1", "1/2"], ["3", "1/4"]],
         dtype="f64", style=0, kinds=["leaf"], poly=True, outmode="slice", degenerate="leaf"),
    dict(op="partial", vars=[["x", 1], ["t", 1]], out=[V("t", 0)], deriv=[1], extra=[], batch=[2], rows=[["1", "1/2"], ["3", "1/4"]],
         dtype="f32", style=0, kinds=["leaf"], poly=True, outmode="slice", degenerate="leaf", inmode="points"),
    dict(op="grad", vars=[["x", 1], ["t", 1]], out=[V("x", 0)], deriv=[0, 1], extra=[], batch=[2], rows=[["1", "1/2"], ["3", "1/4"]],
         dtype="f64", style=0, kinds=["leaf"], poly=True, outmode="slice", degenerate="leaf"),
    dict(op="div", vars=[["x", 2]], out=[V("x", 0), V("x", 1)], deriv=[0], extra=[], batch=[2], rows=[["1", "1/2"], ["3", "1/4"]],
         dtype="f64", style=0, kinds=["leaf"], poly=True, outmode="slice", degenerate="leaf", inmode="points"),
    dict(op="lap", vars=[["x", 2]], out=[V("x", 1)], deriv=[0], extra=[], batch=[2], rows=[["1", "1/2"], ["3", "1/4"]],
         dtype="f64", style=0, kinds=["slice"], poly=True, outmode="slice", degenerate="slice"),
    # jac / sym_grad on two batch axes silently returned shape (2,3,3,2); rot, convective, matrix_div raised
    dict(op="jac", vars=[["x", 2]], out=[["*", ["^", V("x", 0), 2], V("x", 1)], ["*", V("x", 0), ["^", V("x", 1), 3]]], deriv=[0], extra=[],
         batch=[2, 3], rows=[[q(Fraction(a, 2)), q(Fraction(b, 4))] for a in (1, 3) for b in (1, 2, 5)], dtype="f64", style=0,
         kinds=["general"] * 2, poly=True),
    dict(op="rot", vars=[["x", 3]], out=[["^", V("x", 1), 2], ["*", V("x", 2), V("x", 0)], ["*", V("x", 0), V("x", 1)]], deriv=[0], extra=[],
         batch=[2, 2], rows=[[q(Fraction(a, 2)), q(Fraction(b, 4)), q(Fraction(a + b, 8))] for a in (1, 3) for b in (1, 5)], dtype="f32", style=0,
         kinds=["general"] * 3, poly=True),
    # a whole batch at stationary points: the gradient vanishes, the laplacian does not (u = x0^2 + 3 x1^2 at the origin: 8)
    dict(op="lap", vars=[["x", 2]], out=[["+", ["^", V("x", 0), 2], ["*", ["c", "3"], ["^", V("x", 1), 2]]]], deriv=[0], extra=[], batch=[1],
         rows=[["0", "0"]], dtype="f32", style=0, kinds=["even"], poly=True, pointmode="on-set-all", special_rows=[0]),
    # batch on the symmetry plane x = 0 of u = cos(x) t^2: u_xx = -t^2; also through the grad= keyword; mixed batch for row independence
    dict(op="lap", vars=[["x", 1], ["t", 1]], out=[["*", ["cos", V("x", 0)], ["^", V("t", 0), 2]]], deriv=[0, 1], extra=[], batch=[3],
         rows=[["0", "1/2"], ["0", "-3/4"], ["0", "5/4"]], dtype="f64", style=0, kinds=["even"], poly=False, pointmode="on-set-all",
         special_rows=[0, 1, 2]),
    dict(op="lap", vars=[["x", 1], ["t", 1]], out=[["*", ["cos", V("x", 0)], ["^", V("t", 0), 2]]], deriv=[0], extra=[], batch=[2],
         rows=[["0", "1/2"], ["0", "-3/4"]], dtype="f64", style=0, kinds=["even"], poly=False, pointmode="on-set-all",
         special_rows=[0, 1], pregrad=True),
    dict(op="lap", vars=[["x", 2]], out=[["exp", ["neg", ["+", ["^", V("x", 0), 2], ["^", V("x", 1), 2]]]]], deriv=[0], extra=[], batch=[2, 1],
         rows=[["0", "0"], ["1/2", "-1/4"]], dtype="f64", style=0, kinds=["even"], poly=False, pointmode="on-set-mixed", special_rows=[0]),
    # residual block with the library's ReLUn on a reused intermediate: u = 3/2 * (ReLU^3(z) + z), z = 2x - y + 1/2
    # (a backward that edits the incoming gradient in place corrupts the other branch of the sum)
    dict(op="grad", vars=[["x", 1], ["y", 1]], deriv=[0, 1], extra=[], batch=[3], dtype="f64", style=0, kinds=["network"], poly=False,
         rows=[["1", "1/2"], ["-1", "1/4"], ["3/4", "-1/2"]], share=True, network=True,
         layers=[dict(kind="nn", W=[["2", "-1"]], b=["1/2"], inputs=[V("x", 0), V("y", 0)]),
                 dict(kind="trunk", W=[["3/2"]], b=["0"], inputs=[["+", ["relun", ["lin", 0, 0], 3], ["lin", 0, 0]]])],
         out=[["lin", 1, 0]]),
    dict(op="lap", vars=[["x", 2]], deriv=[0], extra=[], batch=[2], dtype="f32", style=0, kinds=["network"], poly=False,
         rows=[["1", "1/2"], ["-1", "1/4"]], share=True, network=True,
         layers=[dict(kind="trunk", W=[["1", "-2"], ["1/2", "1"]], b=["1/4", "-1/4"], inputs=[V("x", 0), V("x", 1)])],
         out=[["+", ["-", ["adapt", "relun:2", "1/2", "2", ["lin", 0, 0]], ["lin", 0, 0]], ["*", ["tanh", ["lin", 0, 1]], ["lin", 0, 1]]]]),
    # a single point without batch axis
    dict(op="jac", vars=[["x", 2]], out=[["*", V("x", 0), V("x", 1)], ["sin", V("x", 0)]], deriv=[0], extra=[], batch=[],
         rows=[["3/2", "-5/4"]], dtype="f64", style=0, kinds=["general"] * 2, poly=False),
]


def model_requests(case, rng_choice):
    reqs = [("row", "flt")]
    case = lowered(case)
    if case["poly"] and all(is_poly(e) for e in flat_out(case) + case["extra"]):
        reqs.append(("row", "rat"))
    if (case["op"] in BATCH_FORM and not case.get("malformed") and rng_choice < 0.4 and len(case["rows"]) <= 4
            and len(case["deriv"]) <= 3):
        reqs.append(("batch", "rat" if len(reqs) == 2 else "flt"))
    return reqs


def run(ctx, rep, cases=None, use_driver=True):
    rep.rule = ("programs: random expressions (depth <= 5; + - * / ^ neg sin cos exp tanh; 35% polynomial = exact channel) over 1-3 "
                "named inputs of dimension 1-3, forced shares of components that are constant / independent of / affine in / "
                "bilinear / linear in the derivative variables; every operator, every admissible variable subset and order, "
                "0-3 batch axes for every operator, float32 and float64, four ways of slicing/assembling the tensors; "
                "points are dyadic k/8 in [-2,2]; 30% of the programs are built even/odd about a centre in one derivative variable and "
                "evaluated with all / some / no rows on that set (stationary points, zeros of u), further batches with zero "
                "coordinates, all rows at the origin, identical rows; partial up to order 5; `grad=` keyword; networks built from the library's modules and autograd Functions (ReLUn, Sinus, "
                "AdaptiveActivationFunction, TrunkLinear/`linear`, nn.Linear) with reused intermediates (residual blocks), 20% of the "
                "regular programs with a sub-program shared by two branches; every call repeated (same result, inputs unchanged); non-trivial = some output depends on a derivative variable, depth >= 2, >= 2 rows; "
                "distinct = distinct (operator, program, variables, batch, points)")
    cases = cases if cases is not None else gen_cases(ctx)
    impls, oracles, lines, owners = [], [], [], []
    for ci, case in enumerate(cases):
        impls.append(run_impl(case))
        oracles.append(None if case.get("malformed") else run_oracle(case))
        for (form, num) in model_requests(case, ((ci * 2654435761) % 1000) / 1000.0):
            lines.append(driver_line(case, form, num))
            owners.append((ci, form, num))
    models = [dict() for _ in cases]
    failure = None
    if use_driver:
        try:
            replies = common.run_driver("C03", lines)
            for (ci, form, num), rp in zip(owners, replies):
                models[ci][(form, num)] = parse_reply(rp, num)
        except common.DriverFailure as e:
            failure = e
            models = [dict() for _ in cases]
    for case, impl, orc, ms in zip(cases, impls, oracles, models):
        op = case["op"]
        rep.count("op:" + op)
        rep.count("dtype:" + case["dtype"])
        rep.count("batch-rank:%d" % len(case["batch"]))
        rep.count("nvars-deriv:%d" % len(case["deriv"]))
        for kd in set(case["kinds"]):
            rep.count("component:" + kd)
        for k in ms:
            rep.count("model-channel:%s-%s" % k)
        if case.get("pregrad"):
            rep.count("laplacian-with-precomputed-grad")
        if case.get("network"):
            rep.count("network(library modules, reused intermediates)")
            for L in case["layers"]:
                rep.count("lib:linear-" + L["kind"])
            import json as _json
            txt = _json.dumps([case["out"], case["layers"]])
            for tag in ("relun", "sinus", "adapt", "tanh"):
                if '"%s' % tag in txt:
                    rep.count("lib:" + tag)
        if case.get("reuse"):
            rep.count("sub-program reused in two branches (one shared tensor)")
        if case.get("share"):
            rep.count("shared-evaluation")
        rep.count("points:" + case.get("pointmode", "corpus"))
        rep.count("nvars-total:%d" % len(case["vars"]))
        rep.count("max-dim:%d" % max(d for _, d in case["vars"]))
        if len(set(case["deriv"])) < len(case["deriv"]) and op != "partial":
            rep.count("same-variable-passed-twice")
        if op == "partial":
            rep.count("partial-order:%d" % len(case["deriv"]))
        if case.get("extra_graph"):
            rep.count("normals/field-with-graph")
        if case["extra"] and all(e == ["c", "0"] for e in case["extra"]):
            rep.count("normals/field-zero")
        if impl.get("stationary") and orc is not None and any(abs(v) > 1e-9 for r in orc[1] for v in r):
            rep.count(op + ":whole-batch-stationary-in-a-variable-but-result-nonzero")
        if impl.get("out_zero") and orc is not None and any(abs(v) > 1e-9 for r in orc[1] for v in r):
            rep.count(op + ":u-vanishes-on-whole-batch-but-result-nonzero")
        if case.get("special_rows") and 0 < len(case["special_rows"]) < len(case["rows"]):
            rep.count("mixed-batch(special+generic rows)")
        rep.count("output:" + case.get("outmode", "std"))
        rep.count("inputs:" + case.get("inmode", "harness"))
        if case.get("degenerate"):
            rep.count("degenerate:" + case["degenerate"])
        rep.case(dict(op=op, vars=case["vars"], out=case["out"], deriv=case["deriv"], batch=case["batch"], rows=case["rows"],
                      dtype=case["dtype"], extra=case["extra"], outmode=case.get("outmode"), inmode=case.get("inmode"),
                      layers=case.get("layers"), share=case.get("share")),
                 nontrivial(case),
                 sample=dict(case={k: case[k] for k in ("op", "vars", "out", "deriv", "extra", "batch", "dtype")},
                             rows=case["rows"][:2], implementation=(impl.get("values") or [impl.get("error")])[:2],
                             model={f"{k[0]}-{k[1]}": (str(v.get("values", v.get("error"))[:1]) if "values" in v else v.get("error"))
                                    for k, v in ms.items()}),
                 kind=op)
        judge(rep, case, impl, orc, ms)
        if not case.get("malformed"):
            single_row_check(rep, case, impl)
    if failure is not None:
        raise failure


def search_only(ctx, rep):
    """the executable model is unavailable: property oracles only"""
    rep.evaluations = 0
    rep.keys.clear()
    rep.samples.clear()
    rep.hist.clear()
    rep.failures.clear()
    run(common.Ctx(ctx.prop, ctx.tier, ctx.seed), rep, use_driver=False)


def replay(ctx, obj):
    rep = common.Report(ctx)
    inp = obj.get("failing_input") or obj.get("first")
    if not inp:
        print("[C03] replay file names a broken proof obligation, nothing to run against the implementation; re-run ./check C03")
        return 1
    case = inp["input"]
    lean = common.lean_check("C03")
    run(ctx, rep, [case])
    return common.finish(ctx, rep, lean)
