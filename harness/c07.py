"""C07 — training through the Solver equals the reference optimisation loop.

Correspondence: the Lean model (lean/TPV/Model/Train.lean, executed by drivers/C07.lean in exact
rational arithmetic) runs the whole training history of generated set-ups (polynomial models, float64,
SGD with momentum / weight decay / StepLR) and is compared with `trainer.fit` after EVERY step.
Property oracles (independent of the Lean model, evaluated on every case, both channels): the plain
reference loop of the property text around the same torch optimizer, compared bit-for-bit after every
step; iteration indices seen by probe conditions; validation-only tensors never move; adaptive point
weights ascend; optimizer state equals the reference's.

This module is also the tool-box of harness/c19.py (build / run helpers)."""
import copy
import logging
import math
import os
from fractions import Fraction

import sys

import common
from common import q

sys.set_int_max_str_digits(0)   # exact rationals of the Lean run can have thousands of digits

for _n in ("pytorch_lightning", "lightning", "lightning.pytorch", "lightning_fabric", "lightning.fabric",
           "pytorch_lightning.utilities.rank_zero", "pytorch_lightning.accelerators.cuda"):
    logging.getLogger(_n).setLevel(logging.ERROR)

TOL = 1e-9          # float64 run vs exact rational run, relative to max(1, |trajectory|)
BLOWUP = 1e6


# ------------------------------------------------------------------------------------------
# symbolic losses (PExp of the Lean model), built by running the SAME residual lambdas on Sym objects

class Sym:
    __slots__ = ("op", "a", "b")

    def __init__(self, op, a=None, b=None):
        self.op, self.a, self.b = op, a, b

    @staticmethod
    def lift(x):
        if isinstance(x, Sym):
            return x
        return Sym("c", Fraction(x))

    @staticmethod
    def par(i):
        return Sym("p", i)

    @staticmethod
    def it():
        return Sym("it")

    def __add__(self, o):
        o = Sym.lift(o)
        if self.op == "c" and o.op == "c":
            return Sym("c", self.a + o.a)
        return Sym("+", self, o)

    __radd__ = lambda self, o: Sym.lift(o).__add__(self)

    def __neg__(self):
        if self.op == "c":
            return Sym("c", -self.a)
        return Sym("~", self)

    def __sub__(self, o):
        return self + (-Sym.lift(o))

    def __rsub__(self, o):
        return Sym.lift(o) + (-self)

    def __mul__(self, o):
        o = Sym.lift(o)
        if self.op == "c" and o.op == "c":
            return Sym("c", self.a * o.a)
        return Sym("*", self, o)

    __rmul__ = lambda self, o: Sym.lift(o).__mul__(self)

    def __truediv__(self, o):
        return self * Sym("c", 1 / Fraction(o))

    def __pow__(self, k):
        assert isinstance(k, int) and k >= 1
        r = self
        for _ in range(k - 1):
            r = r * self
        return r

    def rev(self):
        return Sym("r", self)

    def tokens(self, out):
        op = self.op
        if op == "c":
            out.append("c"); out.append(q(self.a))
        elif op == "p":
            out.append("p"); out.append(str(self.a))
        elif op == "it":
            out.append("it")
        elif op in ("+", "*"):
            out.append(op); self.a.tokens(out); self.b.tokens(out)
        else:
            out.append(op); self.a.tokens(out)
        return out

    def dual(self, env, it, x):
        """exact (value, derivative with respect to the learnable scalar x) — Fractions"""
        op = self.op
        if op == "c":
            return self.a, Fraction(0)
        if op == "p":
            return env[self.a], Fraction(1 if self.a == x else 0)
        if op == "it":
            return Fraction(it), Fraction(0)
        if op == "+":
            (a, da), (b, db) = self.a.dual(env, it, x), self.b.dual(env, it, x)
            return a + b, da + db
        if op == "*":
            (a, da), (b, db) = self.a.dual(env, it, x), self.b.dual(env, it, x)
            return a * b, da * b + a * db
        a, da = self.a.dual(env, it, x)
        if op == "~":
            return -a, -da
        return a, -da          # "r": gradient reversal

    def mentions(self):
        op = self.op
        if op == "p":
            return {self.a}
        if op in ("+", "*"):
            return self.a.mentions() | self.b.mentions()
        if op in ("~", "r"):
            return self.a.mentions()
        return set()

    def degree(self):
        """total degree in the learnable scalars"""
        op = self.op
        if op in ("c", "it"):
            return 0
        if op == "p":
            return 1
        if op == "+":
            return max(self.a.degree(), self.b.degree())
        if op == "*":
            return self.a.degree() + self.b.degree()
        return self.a.degree()

    def evalf(self, env, it):
        """exact evaluation (Fractions) — used by the generator to keep trajectories tame"""
        op = self.op
        if op == "c":
            return self.a
        if op == "p":
            return env[self.a]
        if op == "it":
            return Fraction(it)
        if op == "+":
            return self.a.evalf(env, it) + self.b.evalf(env, it)
        if op == "*":
            return self.a.evalf(env, it) * self.b.evalf(env, it)
        if op == "~":
            return -self.a.evalf(env, it)
        return self.a.evalf(env, it)


def ssum(items):
    items = list(items)
    return Sym("S", items)


def sym_tokens(e, out):
    if e.op == "S":
        out.append("S"); out.append(str(len(e.a)))
        for x in e.a:
            sym_tokens(x, out)
    else:
        e.tokens(out)
    return out


def mean_of(items):
    """mean over points: S-node scaled by 1/n"""
    items = list(items)
    s = items[0]
    for x in items[1:]:
        s = s + x
    return s * Fraction(1, len(items))


# residual families: ONE lambda, run by torchphysics on tensors and by the harness on Sym scalars.
# c = tuple of dyadic constants of the case.
RESIDUALS = {
    # name: (argument names, function of (args..., c))
    "lin": (("u", "x"), lambda u, x, c: u - (c[0] + c[1] * x)),
    "quad": (("u", "x"), lambda u, x, c: u * u * c[0] - c[1] * x),
    "par": (("u", "x", "D"), lambda u, x, D, c: D * u - c[0] * x - c[1]),
    "parshift": (("u", "x", "D"), lambda u, x, D, c: u + D * c[0] - c[1]),
    "paronly": (("x", "D"), lambda x, D, c: D * c[0] - x),
    "dataf": (("u", "x", "f"), lambda u, x, f, c: u - f * c[0]),
    "paronlyf": (("x", "D", "f"), lambda x, D, f, c: D * c[0] - x + f),
    "perf": (("u_left", "u_right", "f_left", "f_right"), lambda ul, ur, fl, fr, c: ul - ur * c[0] - fl + fr * c[1]),
    "per2": (("u_left", "u_right", "t"), lambda ul, ur, t, c: ul - ur * c[0] - c[1] * t),
    "per2f": (("u_left", "u_right", "t", "f_left", "f_right"), lambda ul, ur, t, fl, fr, c: ul - ur - fl * c[0] + fr + t * c[1]),
    "lin2": (("u", "x", "t"), lambda u, x, t, c: u - c[0] * x - c[1] * t),
    "per": (("u_left", "u_right", "x_right"), lambda ul, ur, xr, c: ul - ur * c[0] - c[1] * xr),
    "perD": (("u_left", "u_right", "D"), lambda ul, ur, D, c: ul * D - ur - c[1]),
}
SAMPLER_KINDS = ("pinn", "mean", "ritz", "single", "adaptive", "hpm_sampler", "integro")
PENALTIES = {
    "sq": lambda D, c: (D - c[0]) * (D - c[0]),
    "lin": lambda D, c: D * c[0],
}


def make_fn(names, f, c):
    """a python function with exactly the named parameters (UserFunction routes by name)"""
    src = f"def _g({', '.join(names)}):\n    return _f({', '.join(names)}, _c)\n"
    ns = {"_f": f, "_c": c}
    exec(src, ns)
    return ns["_g"]


# ------------------------------------------------------------------------------------------
# building the real objects from a case

class Built:
    pass


def opt_values(tp, torch, o):
    """(optimizer class, optimizer_args, lr, scheduler kwargs of OptimizerSetting) of an optimizer spec"""
    if o["kind"] == "sgd":
        args = dict(momentum=float(Fraction(o["momentum"])), dampening=float(Fraction(o["dampening"])),
                    weight_decay=float(Fraction(o["wd"])))
        cls = torch.optim.SGD
    else:
        args = dict(betas=(0.9, 0.99), weight_decay=float(Fraction(o.get("wd", 0))))
        cls = torch.optim.Adam
    sched = {}
    if o.get("step_size") and o.get("sched") == "exp":
        sched = dict(scheduler_class=torch.optim.lr_scheduler.ExponentialLR,
                     scheduler_args=dict(gamma=float(Fraction(o["gamma"]))), scheduler_frequency=o.get("freq", 1))
    elif o.get("step_size"):
        sched = dict(scheduler_class=torch.optim.lr_scheduler.StepLR,
                     scheduler_args=dict(step_size=o["step_size"], gamma=float(Fraction(o["gamma"]))),
                     scheduler_frequency=o.get("freq", 1))
    return cls, args, float(Fraction(o["lr"])), sched


def build(case):
    """fresh torchphysics objects for `case`; identical calls give identical objects"""
    tp = common.use_repo()
    import torch
    X = tp.spaces.R1("x"); U = tp.spaces.R1("u"); V = tp.spaces.R1("v"); T = tp.spaces.R1("t")
    dt = torch.float64 if case["channel"] == "rat" else torch.float32
    B = Built()
    B.tp, B.torch = tp, torch
    B.ids = {}            # id -> (tensor, flat index)
    B.names = {}          # id -> readable name
    B.tensors = []        # (name, tensor, [ids]) every learnable tensor of the set-up
    next_id = [0]

    def reg_tensor(name, t):
        ids = []
        for k in range(t.numel()):
            B.ids[next_id[0]] = (t, k); B.names[next_id[0]] = f"{name}[{k}]"
            ids.append(next_id[0]); next_id[0] += 1
        B.tensors.append((name, t, ids))
        return ids

    class Poly(tp.models.Model):
        """u(x) = sum_k coef[k] x^k"""

        def __init__(self, init, inp, out, shape="vec"):
            """shape of the learnable tensors that hold the coefficients: one vector (k,), a column (k,1), a row (1,k),
            or one tensor per coefficient — 0-dimensional scalars (like AdaptiveActivationFunction.a) or shape (1,) / (1,1)"""
            super().__init__(inp, out)
            vals = [float(Fraction(a)) for a in init]
            self.n = len(vals)
            if shape in ("vec", "col", "row"):
                t = torch.tensor(vals, dtype=dt)
                self.coef = torch.nn.Parameter(t if shape == "vec" else t.reshape(-1, 1) if shape == "col" else t.reshape(1, -1))
            else:
                mk = {"scalars0d": lambda v: torch.tensor(v, dtype=dt), "ones": lambda v: torch.tensor([v], dtype=dt),
                      "oneones": lambda v: torch.tensor([[v]], dtype=dt)}[shape]
                self.cs = torch.nn.ParameterList([torch.nn.Parameter(mk(v)) for v in vals])

        def c(self, k):
            return self.coef.reshape(-1)[k] if hasattr(self, "coef") else self.cs[k].reshape(())

        def coef_tensors(self):
            return [("coef", self.coef)] if hasattr(self, "coef") else [(f"cs.{k}", p) for k, p in enumerate(self.cs)]

        def forward(self, points):
            points = self._fix_points_order(points)
            x = points.as_tensor.to(self.c(0).dtype)     # library grid samplers emit float32
            y = torch.zeros_like(x)
            for k in range(self.n):
                y = y + self.c(k) * x ** k if k else y + self.c(0)
            return tp.spaces.Points(y, self.output_space)

    class Poly2(tp.models.Model):
        """u(x, t) = a0 + a1 x + a2 t + a3 x t"""

        def __init__(self, init, order="xt"):
            super().__init__(X * T if order == "xt" else T * X, U)     # declared order of the input variables
            self.order = order
            self.coef = torch.nn.Parameter(torch.tensor([float(Fraction(a)) for a in init], dtype=dt))

        def forward(self, points):
            points = self._fix_points_order(points)                    # points may arrive in the other order
            z = points.as_tensor.to(self.coef.dtype)
            x, t = (z[..., :1], z[..., 1:2]) if self.order == "xt" else (z[..., 1:2], z[..., :1])
            return tp.spaces.Points(self.coef[0] + self.coef[1] * x + self.coef[2] * t + self.coef[3] * x * t, U)

    B.models, B.model_syms = [], []
    for mi, m in enumerate(case["models"]):
        if m["kind"] == "fcn2":
            torch.manual_seed(m["seed"])
            mod = tp.models.FCN(X * T if m.get("order", "xt") == "xt" else T * X, U, hidden=tuple(m["hidden"]),
                                **({"activations": tp.models.AdaptiveActivationFunction(torch.nn.Tanh(), inital_a=0.75)} if m.get("adaptive_act") else {}))
            for pn, p in mod.named_parameters():
                reg_tensor(f"model{mi}.{pn}", p)
            B.model_syms.append(None)
        elif m["kind"] == "poly2":
            mod = Poly2(m["init"], m.get("order", "xt"))
            ids = reg_tensor(f"model{mi}.coef", mod.coef)
            B.model_syms.append(lambda x, t, ids=ids: Sym.par(ids[0]) + Sym.par(ids[1]) * x + Sym.par(ids[2]) * t + Sym.par(ids[3]) * x * t)
        elif m["kind"] == "poly":
            mod = Poly(m["init"], X, U, m.get("shape", "vec"))
            ids = [i for tn, t in mod.coef_tensors() for i in reg_tensor(f"model{mi}.{tn}", t)]
            B.model_syms.append(lambda x, ids=ids: _poly_sym(ids, x))
        elif m["kind"] == "seq":
            a = Poly(m["init"], X, V, m.get("shape", "vec")); b = Poly(m["init2"], V, U, m.get("shape2", "vec"))
            mod = tp.models.Sequential(a, b)
            ia = [i for tn, t in a.coef_tensors() for i in reg_tensor(f"model{mi}.0.{tn}", t)]
            ib = [i for tn, t in b.coef_tensors() for i in reg_tensor(f"model{mi}.1.{tn}", t)]
            B.model_syms.append(lambda x, ia=ia, ib=ib: _poly_sym(ib, _poly_sym(ia, x)))
        elif m["kind"] == "fcn":
            torch.manual_seed(m["seed"])
            mod = tp.models.FCN(X, U, hidden=tuple(m["hidden"]),     # adaptive activation: a 0-dimensional learnable slope
                                **({"activations": tp.models.AdaptiveActivationFunction(torch.nn.Tanh(), inital_a=0.75)} if m.get("adaptive_act") else {}))
            for pn, p in mod.named_parameters():
                reg_tensor(f"model{mi}.{pn}", p)
            B.model_syms.append(None)
        elif m["kind"] == "deeponet":
            torch.manual_seed(m["seed"])
            Ix = tp.domains.Interval(X, 0.0, 1.0); Ik = tp.domains.Interval(tp.spaces.R1("k"), 0.0, 1.0)
            fspace = tp.spaces.FunctionSpace(Ix, tp.spaces.R1("e"))
            fset = tp.domains.CustomFunctionSet(fspace, tp.samplers.GridSampler(Ik, m["n_fn"]).make_static(), lambda k, x: k * x)
            trunk = tp.models.FCTrunkNet(X, hidden=(3,))
            branch = tp.models.FCBranchNet(fspace, hidden=(3,),
                                           discretization_sampler=tp.samplers.GridSampler(Ix, m["n_disc"]).make_static())
            mod = tp.models.DeepONet(trunk, branch, U, output_neurons=2)
            mod._harness = dict(fset=fset, Ix=Ix)      # one function set per DeepONet, shared by its conditions
            for pn, p in mod.named_parameters():
                reg_tensor(f"model{mi}.{pn}", p)
            B.model_syms.append(None)
        else:
            raise ValueError(m["kind"])
        B.models.append(mod)

    B.params, B.param_ids = [], []
    for pi, p in enumerate(case["params"]):
        P = tp.models.Parameter(float(Fraction(p["init"])), tp.spaces.R1(f"D{pi}"))
        B.params.append(P)
        B.param_ids.append(None)   # registered after the dtype conversion below

    class FixedSampler(tp.samplers.PointSampler):
        """emits the given point sets in turn (set number = call count mod number of sets)"""

        def __init__(self, sets, space=X):
            super().__init__(n_points=len(sets[0]))
            self.sets = [torch.tensor([[float(Fraction(v)) for v in a] if isinstance(a, (list, tuple)) else [float(Fraction(a))]
                                       for a in s], dtype=dt) for s in sets]
            self.ncalls = 0
            self.space = space

        def sample_points(self, params=tp.spaces.Points.empty(), device="cpu", **kw):
            s = self.sets[self.ncalls % len(self.sets)]
            self.ncalls += 1
            return tp.spaces.Points(s.clone(), self.space)

    def staticize(sampler, c, force=False):
        """static wrapper as configured: never resampling (default) or resampling every `static_interval` calls"""
        if force or c.get("static"):
            r = c.get("static_interval")
            return sampler.make_static(r) if r else sampler.make_static()
        return sampler

    def data_fn(names, f, cc, c):
        """a data function: plain callable or (c['f_wrapped']) a UserFunction object"""
        g = make_fn(names, f, cc)
        return tp.utils.UserFunction(g) if c.get("f_wrapped") else g

    class Probe(tp.conditions.Condition):
        """loss = (coef0 - c0 * iteration)^2 : makes the iteration argument visible in the learnable state"""

        def __init__(self, module, c, name, weight):
            super().__init__(name=name, weight=weight)
            self.module = module
            self.c = c
            self.seen = []

        def forward(self, device="cpu", iteration=None):
            self.seen.append(iteration)
            it = 0 if iteration is None else iteration
            d = self.module.c(0) - self.c[0] * it
            return d * d

    B.FixedSampler = FixedSampler
    B.probes = []
    B.adaptive = []      # (cond, ids)

    def mk_cond(ci, c, prefix):
        name = f"{prefix}{ci}"
        w = float(Fraction(c["weight"]))
        cc = tuple(float(Fraction(a)) for a in c.get("c", ()))
        kind = c["kind"]
        mod = B.models[c["model"]] if c.get("model") is not None else None
        par = B.params[c["param"]] if c.get("param") is not None else None
        kw = {}
        if par is not None:
            kw["parameter"] = par
        if kind in SAMPLER_KINDS:
            if kind == "integro" and c.get("with_f"):
                names = ("u", "u_integral", "f")
                fn = make_fn(names, lambda u, ui, f, c_: u - c_[0] * ui.mean(dim=1, keepdim=True) - f, cc)
            elif kind == "integro":
                names = ("u", "u_integral")
                fn = make_fn(names, lambda u, ui, c_: u - c_[0] * ui.mean(dim=1, keepdim=True) - c_[1], cc)
            else:
                names, f = RESIDUALS[c["res"]]
                names = tuple(f"D{c['param']}" if n == "D" else n for n in names)
                fn = make_fn(names, f, cc)
            if c.get("lib_sampler"):
                I = tp.domains.Interval(X, 0.0, 1.0)
                sampler = tp.samplers.GridSampler(I, n_points=c["lib_sampler"]).make_static()
                sampler.sample_points()
            else:
                sampler = staticize(FixedSampler(c["sets"]), c, force=(kind == "adaptive"))
            if "f" in names:
                kw["data_functions"] = {"f": data_fn(("x",), lambda x, c_: x * c_[1] + c_[2], cc, c)}
            if kind == "pinn":
                cond = tp.conditions.PINNCondition(mod, sampler, fn, name=name, weight=w,
                                                   track_gradients=c.get("track", True), **kw)
            elif kind == "mean":
                cond = tp.conditions.MeanCondition(mod, sampler, fn, name=name, weight=w,
                                                   track_gradients=c.get("track", True), **kw)
            elif kind == "ritz":
                cond = tp.conditions.DeepRitzCondition(mod, sampler, fn, name=name, weight=w,
                                                       track_gradients=c.get("track", True), **kw)
            elif kind == "single":
                cond = tp.conditions.SingleModuleCondition(mod, sampler, fn, error_fn=lambda r: torch.sum(torch.square(r), dim=1),
                                                           reduce_fn=torch.sum, name=name, weight=w,
                                                           track_gradients=c.get("track", True), **kw)
            elif kind == "hpm_sampler":
                cond = tp.conditions.HPM_EquationLoss_at_Sampler(mod, sampler, fn, name=name, weight=w, **kw)
            elif kind == "integro":
                cond = tp.conditions.IntegroPINNCondition(mod, sampler, fn, FixedSampler([c["int_set"]]), name=name, weight=w,
                                                          track_gradients=c.get("track", True), **kw)
            else:
                cond = tp.conditions.AdaptiveWeightsCondition(mod, sampler, fn, name=name, weight=w, **kw)
        elif kind == "pinn2":
            names, f = RESIDUALS["lin2"]
            if c.get("lib_product"):
                gx = tp.samplers.GridSampler(tp.domains.Interval(X, 0.0, 1.0), n_points=c["lib_product"][0])
                gt = tp.samplers.GridSampler(tp.domains.Interval(T, 0.0, 1.0), n_points=c["lib_product"][1])
                sampler = (gx * gt if c["order"] == "xt" else gt * gx).make_static()
                sampler.sample_points()
            else:
                sampler = staticize(FixedSampler(c["sets"], space=(X * T if c["order"] == "xt" else T * X)), c)
            cond = tp.conditions.PINNCondition(mod, sampler, make_fn(names, f, cc), name=name, weight=w,
                                               track_gradients=c.get("track", True))
        elif kind == "pideeponet":
            h = mod._harness
            cond = tp.conditions.PIDeepONetCondition(mod, h["fset"], tp.samplers.GridSampler(h["Ix"], c["n"]).make_static(),
                                                     make_fn(("u", "x"), lambda u, x, c_: u - c_[0] * x, cc), name=name, weight=w)
        elif kind == "deeponet_data":
            g = torch.Generator().manual_seed(c["seed"])
            m_ = case["models"][c["model"]]
            bd = torch.rand(c["nf"], m_["n_disc"], 1, generator=g); td = torch.rand(c["nt"], 1, generator=g)
            od = torch.rand(c["nf"], c["nt"], 1, generator=g)
            loader = tp.utils.DeepONetDataLoader(bd, td, od, tp.spaces.R1("e"), X, U, c["bB"], c["bT"],
                                                 shuffle_branch=False, shuffle_trunk=False)
            cond = tp.conditions.DeepONetDataCondition(mod, loader, norm=2, name=name, weight=w)
        elif kind == "periodic":
            names, f = RESIDUALS[c["res"]]
            names = tuple(f"D{c['param']}" if n == "D" else n for n in names)
            I = tp.domains.Interval(X, float(Fraction(c["lb"])), float(Fraction(c["ub"])))
            if c.get("np_sets"):
                kw["non_periodic_sampler"] = staticize(FixedSampler(c["np_sets"], space=T), c)
                if "f_left" in names:
                    kw["data_functions"] = {"f": data_fn(("x", "t"), lambda x, t, c_: x * c_[1] + t * c_[2] + c_[0], cc, c)}
            elif "f_left" in names:
                kw["data_functions"] = {"f": data_fn(("x",), lambda x, c_: x * c_[1] + c_[2], cc, c)}
            cond = tp.conditions.PeriodicCondition(mod, I, make_fn(names, f, cc), name=name, weight=w,
                                                   track_gradients=c.get("track", True), **kw)
        elif kind in ("hpm_data", "hpcm"):
            xs = torch.tensor([[float(Fraction(a))] for a in c["x"]], dtype=dt)
            ys = torch.tensor([[float(Fraction(a))] for a in c["y"]], dtype=dt)
            loader = tp.utils.PointsDataLoader((tp.spaces.Points(xs, X), tp.spaces.Points(ys, U)),
                                               batch_size=c["bs"], shuffle=False)
            if kind == "hpm_data":
                names, f = RESIDUALS[c["res"]]
                names = tuple(f"D{c['param']}" if n == "D" else n for n in names)
                cond = tp.conditions.HPM_EquationLoss_at_DataPoints(mod, loader, 1, make_fn(names, f, cc), name=name, weight=w, **kw)
            else:
                corr = B.models[c["model2"]]
                cond = tp.conditions.HPCMCondition(mod, corr, loader, lambda x: corr(tp.spaces.Points(x, X)), norm=2,
                                                   use_full_dataset=True, name=name, weight=w)
        elif kind == "data":
            xs = torch.tensor([[float(Fraction(a))] for a in c["x"]], dtype=dt)
            ys = torch.tensor([[float(Fraction(a))] for a in c["y"]], dtype=dt)
            loader = tp.utils.PointsDataLoader((tp.spaces.Points(xs, X), tp.spaces.Points(ys, U)),
                                               batch_size=c["bs"], shuffle=False)
            cond = tp.conditions.DataCondition(mod, loader, norm=2, name=name, weight=w,
                                               use_full_dataset=bool(c.get("full", False)))
        elif kind == "param":
            pen = make_fn((f"D{c['param']}",), PENALTIES[c["pen"]], cc)
            cond = tp.conditions.ParameterCondition(par, pen, weight=w, name=name)
        elif kind == "probe":
            cond = Probe(mod, cc, name, w)
            B.probes.append((prefix, ci, cond))
        else:
            raise ValueError(kind)
        return cond

    B.mk_cond = mk_cond
    B.train = [mk_cond(i, c, "t") for i, c in enumerate(case["train"])]
    B.val = [mk_cond(i, c, "v") for i, c in enumerate(case["val"])]
    B.opt_class, B.opt_args, B.lr, B.sched = opt_values(tp, torch, case["opt"])
    o = case["opt"]
    if case.get("default_args") and o["momentum"] == "0" and o["dampening"] == "0" and o.get("wd", "0") == "0":
        # the library's default `optimizer_args={}` (one dict object shared by all such settings)
        B.opt_args = {}
        B.setting = tp.solver.OptimizerSetting(B.opt_class, B.lr, **B.sched)
    else:
        B.setting = tp.solver.OptimizerSetting(B.opt_class, B.lr, optimizer_args=dict(B.opt_args), **B.sched)
    B.solver = tp.solver.Solver(B.train, B.val, optimizer_setting=B.setting)
    if case["channel"] == "rat":
        B.solver.double()      # Parameter(...) and AdaptiveWeightLayer create float32 tensors
    for pi, P in enumerate(B.params):
        B.param_ids[pi] = reg_tensor(f"param{pi}", P.as_tensor)
    for ci, (c, cond) in enumerate(list(zip(case["train"], B.train)) + list(zip(case["val"], B.val))):
        if c["kind"] == "adaptive":
            if case["channel"] == "rat" and cond.adaptive_layer.weight.dtype != torch.float64:
                cond.adaptive_layer.double()
            ids = reg_tensor(f"adaptive{ci}.weight", cond.adaptive_layer.weight)
            B.adaptive.append((cond, ids))
    return B


def _poly_sym(ids, x):
    y = Sym.par(ids[0])
    xk = Sym.lift(1)
    for k in range(1, len(ids)):
        xk = xk * x
        y = y + Sym.par(ids[k]) * xk
    return y


def cond_tensor_ids(case, B, c, where, ci):
    """ids of the learnable scalars reachable from a condition (harness knowledge, by construction)"""
    ids = []
    if c.get("param") is not None:
        ids += B.param_ids[c["param"]]
    for key in ("model", "model2"):
        if c.get(key) is not None:
            for name, t, tids in B.tensors:
                if name.startswith(f"model{c[key]}."):
                    ids += tids
    if c["kind"] == "adaptive":
        k = ci if where == "t" else len(case["train"]) + ci
        for name, t, tids in B.tensors:
            if name == f"adaptive{k}.weight":
                ids += tids
    return ids


def set_sequence(c, sets, force=False):
    """the point sets a condition's sampler delivers at its calls 0 .. period-1:
    non-static: the sets in turn; static, never resampling: the first set; StaticSampler(resample_interval=r):
    a new set at calls 0, r, 2r, ... (counter < r keeps the points)"""
    if force or c.get("static"):
        r = c.get("static_interval")
        if not r:
            return sets[:1]
        return [sets[(n // r) % len(sets)] for n in range(r * len(sets))]
    return sets


def cond_syms(case, B, c, where, ci):
    """the loss of the condition at its n-th call, n = 0 .. period-1, as Sym"""
    kind = c["kind"]
    cc = tuple(Fraction(a) for a in c.get("c", ()))
    msym = B.model_syms[c["model"]] if c.get("model") is not None else None
    D = Sym.par(B.param_ids[c["param"]][0]) if c.get("param") is not None else None
    if kind == "pinn2":
        out = []
        for s_ in set_sequence(c, c["sets"]):
            terms = []
            for row in s_:
                a, b = Sym.lift(Fraction(row[0])), Sym.lift(Fraction(row[1]))
                x, t = (a, b) if c["order"] == "xt" else (b, a)       # the rows are written in delivery order
                r = msym(x, t) - x * cc[0] - t * cc[1]
                terms.append(r * r)
            out.append(mean_of(terms))
        return out
    if kind == "periodic":
        names, f = RESIDUALS[c["res"]]
        lb, ub = Sym.lift(Fraction(c["lb"])), Sym.lift(Fraction(c["ub"]))
        if c.get("np_sets"):
            out = []
            for s_ in set_sequence(c, c["np_sets"]):
                terms = []
                for tv in s_:
                    t = Sym.lift(Fraction(tv))
                    args = dict(u_left=msym(lb, t), u_right=msym(ub, t), t=t, D=D,
                                f_left=lb * cc[1] + t * cc[2] + cc[0], f_right=ub * cc[1] + t * cc[2] + cc[0])
                    r = f(*[args[n] for n in names], cc)
                    terms.append(r * r)
                out.append(mean_of(terms))
            return out
        args = dict(u_left=msym(lb), u_right=msym(ub), x_left=lb, x_right=ub, D=D,
                    f_left=lb * cc[1] + cc[2], f_right=ub * cc[1] + cc[2])
        r = f(*[args[n] for n in names], cc)
        return [r * r]
    if kind == "integro":
        ui = mean_of([msym(Sym.lift(Fraction(a))) for a in c["int_set"]])
        out = []
        for s_ in set_sequence(c, c["sets"]):
            terms = []
            for xv in s_:
                x = Sym.lift(Fraction(xv))
                r = msym(x) - ui * cc[0] - ((x * cc[1] + cc[2]) if c.get("with_f") else cc[1])
                terms.append(r * r)
            out.append(mean_of(terms))
        return out
    if kind in ("hpm_data", "hpcm"):
        xs, ys, bs = c["x"], c["y"], c["bs"]
        n = len(xs)
        nb = math.ceil(n / bs)
        batches = []
        for b in range(nb):
            terms = []
            for i in range(b * bs, min((b + 1) * bs, n)):
                x = Sym.lift(Fraction(xs[i]))
                if kind == "hpm_data":
                    names, f = RESIDUALS[c["res"]]
                    args = dict(x=x, D=D)
                    d = f(*[args[nm] for nm in names], cc)
                else:
                    d = msym(x) - Fraction(ys[i]) - B.model_syms[c["model2"]](x)
                terms.append(d * d)
            batches.append(mean_of(terms))
        if kind == "hpcm":
            tot = batches[0] * Fraction(1, nb)
            for b in batches[1:]:
                tot = tot + b * Fraction(1, nb)
            return [tot]
        return batches
    if kind in SAMPLER_KINDS:
        names, f = RESIDUALS[c["res"]]
        sets = set_sequence(c, c["sets"], force=(kind == "adaptive"))
        out = []
        aw = cond_tensor_ids(case, B, c, where, ci)[-len(c["sets"][0]):] if kind == "adaptive" else None
        for s in sets:
            terms = []
            for pi, xv in enumerate(s):
                x = Sym.lift(Fraction(xv))
                args = dict(u=msym(x) if msym else None, x=x, D=D,
                            f=(x * cc[1] + cc[2]) if "f" in names else None)
                r = f(*[args[n] for n in names], cc)
                if kind in ("mean", "ritz"):
                    terms.append(r)
                elif kind in ("pinn", "single", "hpm_sampler"):
                    terms.append(r * r)
                else:
                    terms.append(Sym.par(aw[pi]).rev() * (r * r))
            out.append(mean_of(terms) * len(terms) if kind == "single" else mean_of(terms))
        return out
    if kind == "data":
        xs, ys, bs = c["x"], c["y"], c["bs"]
        n = len(xs)
        nb = math.ceil(n / bs)
        batches = []
        for b in range(nb):
            terms = []
            for i in range(b * bs, min((b + 1) * bs, n)):
                d = msym(Sym.lift(Fraction(xs[i]))) - Fraction(ys[i])
                terms.append(d * d)
            batches.append(mean_of(terms))
        if c.get("full"):
            tot = batches[0] * Fraction(1, nb)
            for b in batches[1:]:
                tot = tot + b * Fraction(1, nb)
            return [tot]
        return batches
    if kind == "param":
        return [PENALTIES[c["pen"]](D, cc)]
    if kind == "probe":
        ids = cond_tensor_ids(case, B, c, where, ci)
        d = Sym.par(ids[0]) - Sym.it() * cc[0]
        e = d * d
        # `coef[0]` selects one entry: the whole tensor is in the autograd graph (zero gradient for the rest)
        mids = [i for name, t, tids in B.tensors if ids[0] in tids for i in tids]   # the tensor that holds coefficient 0
        for i in mids[1:]:
            e = e + Sym.par(i) * 0
        return [e]
    raise ValueError(kind)


def spec_tokens(case, B):
    """<spec> of the line protocol"""
    out = []
    ids = sorted(B.ids)
    out.append(str(len(ids)))
    for i in ids:
        t, k = B.ids[i]
        out += [str(i), q(float(t.detach().reshape(-1)[k]))]
    for where, conds in (("t", case["train"]), ("v", case["val"])):
        out.append(str(len(conds)))
        for ci, c in enumerate(conds):
            out += [q(Fraction(c["weight"])), "1" if c.get("track", True) else "0"]
            tids = cond_tensor_ids(case, B, c, where, ci)
            out.append(str(len(tids))); out += [str(i) for i in tids]
            syms = cond_syms(case, B, c, where, ci)
            out.append(str(len(syms)))
            for s in syms:
                sym_tokens(s, out)
    return out


def opt_tokens(case):
    o = case["opt"]
    return [q(Fraction(o["lr"])), q(Fraction(o["momentum"])), q(Fraction(o["dampening"])), q(Fraction(o["wd"])),
            str(1 if (o.get("step_size") and o.get("sched") == "exp") else o.get("step_size", 0)),   # ExponentialLR = StepLR(step_size=1)
            q(Fraction(o.get("gamma", 1))), str(o.get("freq", 1))]


# ------------------------------------------------------------------------------------------
# running the implementation and the reference loop

def snapshot(B):
    return {i: B.ids[i][0].detach().reshape(-1)[B.ids[i][1]].item() for i in B.ids}


def tensor_snapshot(B):
    return [(name, t.detach().clone()) for name, t, _ in B.tensors]


def make_trainer(B, case, N, callbacks=(), **kw):
    import pytorch_lightning as pl
    args = dict(accelerator="cpu", max_steps=N, logger=False, enable_checkpointing=False,
                enable_progress_bar=False, enable_model_summary=False, callbacks=list(callbacks),
                num_sanity_val_steps=2 if case.get("sanity") else 0)
    if case["val"] and case.get("val_every"):
        args["val_check_interval"] = case["val_every"]
    elif not case["val"]:
        args["limit_val_batches"] = 0
    # else: Lightning's default — one validation pass at the end of the epoch, i.e. after the last step
    if case.get("limit_batches"):
        args["limit_train_batches"] = case["limit_batches"]      # the run is split into epochs of that many batches
    args.update(kw)
    return pl.Trainer(**args)


def opt_state_of(opt, B):
    """optimizer state per learnable tensor name (public: optimizer.state_dict / param_groups)"""
    torch = B.torch
    byid = {id(t): name for name, t, _ in B.tensors}
    out = {}
    for g in opt.param_groups:
        for p in g["params"]:
            st = opt.state.get(p, {})
            out[byid.get(id(p), f"?{id(p)}")] = {k: (v.detach().clone() if torch.is_tensor(v) else v) for k, v in st.items()}
    return out, [g["lr"] for g in opt.param_groups]


def run_impl(case, B=None, extra_callbacks=(), ckpt_path=None, N=None, trainer_kw=None):
    """trainer.fit on freshly built objects, recording the learnable state after every step"""
    import pytorch_lightning as pl
    B = B or build(case)
    torch = B.torch
    rec = dict(traj=[snapshot(B)], tens=[tensor_snapshot(B)], logged=[], grad_mode=[], steps=[], lrs=[])

    class Rec(pl.Callback):
        def on_train_batch_start(self, trainer, pl_module, batch, batch_idx):
            rec["grad_mode"].append(torch.is_grad_enabled())

        def on_train_batch_end(self, trainer, pl_module, outputs, batch, batch_idx):
            rec["traj"].append(snapshot(B))
            rec["tens"].append(tensor_snapshot(B))
            rec["steps"].append((batch_idx, trainer.global_step))
            rec["lrs"].append(trainer.optimizers[0].param_groups[0]["lr"])      # learning rate in force after this step
            v = trainer.logged_metrics.get("train/loss")
            rec["logged"].append(None if v is None else float(v))

    N = case["N"] if N is None else N
    tr = make_trainer(B, case, N, callbacks=[Rec()] + list(extra_callbacks), **(trainer_kw or {}))
    try:
        tr.fit(B.solver, ckpt_path=ckpt_path)
    except Exception as e:  # the implementation refused / crashed: reported by the caller
        rec["error"] = f"{type(e).__name__}: {e}"
        return B, rec
    rec["opt"], rec["lr"] = opt_state_of(tr.optimizers[0], B)
    rec["tens_final"], rec["traj_final"] = tensor_snapshot(B), snapshot(B)   # after fit returned
    rec["probe_seen"] = {f"{w}{ci}": list(c.seen) for w, ci, c in B.probes}
    rec["trainer"] = tr
    return B, rec


def train_reachable(case, B):
    """learnable tensors reachable from a TRAINING condition, each once (harness knowledge)"""
    names, seen = [], set()
    for ci, c in enumerate(case["train"]):
        ids = cond_tensor_ids(case, B, c, "t", ci)
        for name, t, tids in B.tensors:
            if tids and tids[0] in ids and name not in seen:
                seen.add(name); names.append(name)
    return names


def run_reference(case, N=None, B=None):
    """the plain loop of the property text around the same torch optimizer and scheduler
    (B given: continue on existing objects with the optimizer values stored in B)"""
    B = B or build(case)
    torch = B.torch
    names = train_reachable(case, B)
    bynames = {name: t for name, t, _ in B.tensors}
    plist = [bynames[n] for n in names]
    opt = B.opt_class(plist, lr=B.lr, **B.opt_args)
    sched = None
    if B.sched:
        sched = B.sched["scheduler_class"](opt, **B.sched["scheduler_args"])
    freq = B.sched.get("scheduler_frequency", 1) if B.sched else 1
    N = case["N"] if N is None else N
    rec = dict(traj=[snapshot(B)], tens=[tensor_snapshot(B)], losses=[], lrs=[])
    try:
        for j in range(N):
            opt.zero_grad()
            total = 0
            for c, cond in zip(case["train"], B.train):
                # the weight the HARNESS configured, never a value read back from the library object
                total = total + float(Fraction(c["weight"])) * cond(device="cpu", iteration=j)
            total.backward()
            opt.step()
            if sched is not None and (j + 1) % freq == 0:
                sched.step()
            rec["traj"].append(snapshot(B)); rec["tens"].append(tensor_snapshot(B))
            rec["losses"].append(float(total)); rec["lrs"].append(opt.param_groups[0]["lr"])
    except RuntimeError as e:
        # only seen when objects are re-used across fits: a DeepONet caches its branch evaluation under the
        # iteration number, a second loop that starts again at the same number hits the stale autograd graph
        rec["error"] = f"{type(e).__name__}: {str(e)[:120]}"
    rec["opt"], rec["lr"] = opt_state_of(opt, B)
    return B, rec


# ------------------------------------------------------------------------------------------
# generators

def dy(rng, lo, hi, den=8):
    return str(Fraction(rng.randint(lo * den, hi * den), den))


def gen_points(rng, n):
    return [dy(rng, -1, 1, 8) for _ in range(n)]


def gen_cond(rng, case, where, allow_probe=True):
    nm, npar = len(case["models"]), len(case["params"])
    poly_models = [i for i, m in enumerate(case["models"]) if m["kind"] in ("poly", "seq")]
    kinds = ["pinn", "pinn", "mean", "data", "data", "ritz", "single", "periodic", "periodic", "integro", "hpcm"]
    if npar:
        kinds += ["param", "pinn", "hpm_sampler", "hpm_data", "periodic"]
    if where == "t":
        kinds += ["adaptive"]
    if allow_probe and [i for i in poly_models if case["models"][i]["kind"] == "poly"]:
        kinds += ["probe"]
    kind = rng.choice(kinds)
    c = dict(kind=kind, weight=dy(rng, 0, 2, 4) if rng.random() < 0.85 else dy(rng, -1, 0, 4))
    if c["weight"] == "0" and rng.random() < 0.3:      # weight-0 conditions stay in the generated set-ups
        c["weight"] = "1"
    if c["weight"] == "1" and kind in ("periodic", "integro", "hpcm", "hpm_sampler", "hpm_data", "ritz", "single"):
        c["weight"] = rng.choice(["1/2", "3/4", "3/2", "7/4", "-1/4"])
    if kind in SAMPLER_KINDS:
        c["model"] = rng.randrange(nm)
        use_par = npar and rng.random() < 0.6
        if kind == "hpm_sampler":
            c["param"] = rng.randrange(npar)
            c["res"] = rng.choice(["paronly", "paronlyf"])
        elif kind == "integro":
            c["res"] = "integro"
            c["with_f"] = rng.random() < 0.5
            c["int_set"] = gen_points(rng, rng.choice([1, 2, 3]))
        elif use_par:
            c["param"] = rng.randrange(npar)
            c["res"] = rng.choice(["par", "parshift"])
        else:
            c["res"] = rng.choice(["lin", "lin", "quad", "dataf", "dataf"])
        npts = rng.choice([1, 2, 3, 4])
        nsets = 1 if kind == "adaptive" else rng.choice([1, 1, 2, 3])
        c["sets"] = [gen_points(rng, npts) for _ in range(nsets)]
        c["static"] = kind == "adaptive" or rng.random() < 0.4
        if c["static"] and kind != "adaptive":
            c["static_interval"] = rng.choice([None, None, 1, 2, 3])
        c["f_wrapped"] = rng.random() < 0.4
        c["c"] = [dy(rng, -1, 1, 4), dy(rng, -1, 1, 4), dy(rng, -1, 1, 4)]
        if kind not in ("adaptive", "hpm_sampler"):
            c["track"] = rng.random() < 0.7
    elif kind == "periodic":
        c["model"] = rng.randrange(nm)
        c["lb"], c["ub"] = rng.choice([("-1", "1"), ("0", "1"), ("-1/2", "3/4"), ("1/4", "2")])
        c["c"] = [dy(rng, -1, 1, 4), dy(rng, -1, 1, 4), dy(rng, -1, 1, 4)]
        if npar and rng.random() < 0.4:
            c["param"] = rng.randrange(npar); c["res"] = "perD"
        else:
            c["res"] = rng.choice(["per", "perf"])
        c["f_wrapped"] = rng.random() < 0.4
        c["track"] = rng.random() < 0.7
    elif kind in ("hpm_data", "hpcm"):
        c["model"] = rng.randrange(nm)
        n = rng.randint(1, 4)
        c["x"], c["y"] = gen_points(rng, n), gen_points(rng, n)
        c["bs"] = rng.randint(1, n + 1)
        c["c"] = [dy(rng, -1, 1, 4), dy(rng, -1, 1, 4), dy(rng, -1, 1, 4)]
        if kind == "hpm_data":
            c["param"] = rng.randrange(npar); c["res"] = "paronly"
        else:
            c["model2"] = rng.randrange(nm)
    elif kind == "data":
        c["model"] = rng.randrange(nm)
        n = rng.randint(1, 5)
        c["x"], c["y"] = gen_points(rng, n), gen_points(rng, n)
        c["bs"] = rng.randint(1, n + 1)
        c["full"] = where == "v" and rng.random() < 0.5
    elif kind == "param":
        c["param"] = rng.randrange(npar)
        c["pen"] = rng.choice(["sq", "sq", "lin"])
        c["c"] = [dy(rng, -1, 1, 4)]
    elif kind == "probe":
        c["model"] = rng.choice([i for i in poly_models if case["models"][i]["kind"] == "poly"])
        c["c"] = [dy(rng, -1, 1, 8)]
    return c


def add_pinn2(rng, case, mi, k):
    """PINN conditions on a two-variable model; the sampler delivers the variables in the order `order`,
    which may differ from the order in which the model declares them"""
    for _ in range(k):
        npts, nsets = rng.choice([1, 2, 3]), rng.choice([1, 1, 2])
        c = dict(kind="pinn2", model=mi, weight=rng.choice(["1/2", "3/4", "3/2", "1", "5/4"]), order=rng.choice(["xt", "tx"]),
                 sets=[[[dy(rng, -1, 1, 8), dy(rng, -1, 1, 8)] for _ in range(npts)] for _ in range(nsets)],
                 static=rng.random() < 0.4, c=[dy(rng, -1, 1, 4), dy(rng, -1, 1, 4)], track=rng.random() < 0.7)
        if c["static"]:
            c["static_interval"] = rng.choice([None, None, 2])
        if case["channel"] == "torch" and rng.random() < 0.5:
            c["lib_product"] = [rng.choice([1, 2, 3]), rng.choice([1, 2])]
            c["static"], c["static_interval"] = True, None
            c["sets"] = c["sets"][:1]
        case["train"].append(c)


def add_periodic2(rng, case):
    """a two-variable model u(x, t) with PeriodicConditions in x whose non-periodic sampler runs over t
    (static never resampling / static with a finite interval / not static), with and without data functions
    that depend on the periodic variable and are read at both ends"""
    case["models"].append(dict(kind="poly2", init=[dy(rng, -1, 1) for _ in range(4)], order=rng.choice(["xt", "tx"])))
    mi = len(case["models"]) - 1
    add_pinn2(rng, case, mi, rng.choice([0, 1, 1, 2]))
    for _ in range(rng.choice([1, 1, 2])):
        nsets = rng.choice([1, 2])
        c = dict(kind="periodic", model=mi, weight=rng.choice(["1/2", "3/4", "3/2", "7/4", "1", "-1/4"]),
                 res=rng.choice(["per2", "per2f", "per2f"]), c=[dy(rng, -1, 1, 4), rng.choice(["1/2", "-3/4", "1", "5/4"]), dy(rng, -1, 1, 4)],
                 np_sets=[gen_points(rng, rng.choice([1, 2, 3])) for _ in range(nsets)], static=rng.random() < 0.7,
                 f_wrapped=rng.random() < 0.4, track=rng.random() < 0.7)
        c["lb"], c["ub"] = rng.choice([("-1", "1"), ("0", "1"), ("-1/2", "3/4")])
        if c["static"]:
            c["static_interval"] = rng.choice([None, None, None, 1, 2])
        npts = len(c["np_sets"][0])
        c["np_sets"] = [s_[:npts] + ["0"] * (npts - len(s_)) for s_ in c["np_sets"]]
        case["train"].append(c)
    return case


def gen_case_rat(rng, Nmax=8):
    case = dict(channel="rat")
    nm = rng.choice([1, 1, 2, 3])
    case["models"] = []
    for _ in range(nm):
        if rng.random() < 0.2:
            case["models"].append(dict(kind="seq", init=[dy(rng, -1, 1), dy(rng, -1, 1)], init2=[dy(rng, -1, 1), dy(rng, -1, 1)],
                                       shape=rng.choice(["vec", "scalars0d", "row"]), shape2=rng.choice(["vec", "scalars0d", "ones"])))
        else:
            deg = rng.choice([0, 1, 1, 2])
            case["models"].append(dict(kind="poly", init=[dy(rng, -1, 1) for _ in range(deg + 1)],
                                       shape=rng.choice(["vec", "vec", "col", "row", "scalars0d", "scalars0d", "ones", "oneones"])))
    case["params"] = [dict(init=dy(rng, -1, 1)) for _ in range(rng.choice([0, 1, 1, 2]))]
    case["train"] = [gen_cond(rng, case, "t") for _ in range(rng.choice([1, 2, 2, 3, 4]))]
    case["val"] = [gen_cond(rng, case, "v") for _ in range(rng.choice([0, 0, 1, 2]))]
    if case["val"] and rng.random() < 0.4:
        # a validation condition on its own model / parameter (must never move)
        case["models"].append(dict(kind="poly", init=[dy(rng, -1, 1), dy(rng, -1, 1)]))
        case["val"][0] = dict(kind="pinn", weight="1", model=len(case["models"]) - 1, res="lin",
                              sets=[gen_points(rng, 2)], static=False, c=["1/2", "1/4", "0"], track=rng.random() < 0.5)
    if rng.random() < 0.3:
        add_periodic2(rng, case)
    case["N"] = rng.randint(1, Nmax)
    case["sanity"] = bool(case["val"]) and rng.random() < 0.5
    case["val_every"] = rng.choice([0, 1, 2, 3]) if case["val"] else 0
    if case["val_every"] > case["N"]:
        case["val_every"] = 0
    mom = rng.choice(["0", "0", "1/2", "3/4"])
    case["opt"] = dict(kind="sgd", lr=rng.choice(["1/4", "1/8", "1/16", "1/32"]), momentum=mom,
                       dampening=rng.choice(["0", "1/4"]) if mom != "0" else "0",
                       wd=rng.choice(["0", "0", "1/8"]),
                       step_size=rng.choice([0, 0, 1, 2, 3]), gamma=rng.choice(["1/2", "1/4", "3/4"]),
                       freq=rng.choice([1, 1, 2, 3, 5]), sched=rng.choice(["step", "step", "exp"]))
    return case


def gen_case_torch(rng, Nmax=8):
    """float32, library samplers, FCN models, Adam (+StepLR): only the reference-loop oracle applies"""
    case = dict(channel="torch")
    nm = rng.choice([1, 2])
    case["models"] = [dict(kind="fcn", seed=rng.randrange(10 ** 6), hidden=[rng.choice([2, 3, 5])] * rng.choice([1, 2]),
                           adaptive_act=rng.random() < 0.35)
                      for _ in range(nm)]
    if rng.random() < 0.5:
        case["models"].append(dict(kind="poly", init=[dy(rng, -1, 1), dy(rng, -1, 1)], shape=rng.choice(["vec", "scalars0d", "ones", "col"])))
    case["params"] = [dict(init=dy(rng, -1, 1)) for _ in range(rng.choice([0, 1, 2]))]

    def cond(where):
        c = gen_cond(rng, case, where)
        if c["kind"] in ("pinn", "mean", "adaptive") and rng.random() < 0.5:
            c["lib_sampler"] = rng.choice([2, 3, 5])
            c["sets"] = [["0"] * c["lib_sampler"]]
        return c
    case["train"] = [cond("t") for _ in range(rng.choice([1, 2, 3, 4]))]
    case["val"] = [cond("v") for _ in range(rng.choice([0, 0, 1, 2]))]
    if rng.random() < 0.3:
        add_periodic2(rng, case)
    if rng.random() < 0.35:
        # a library network on two variables, declared in one order, fed in either order
        case["models"].append(dict(kind="fcn2", seed=rng.randrange(10 ** 6), hidden=[rng.choice([2, 3])], order=rng.choice(["xt", "tx"]),
                                   adaptive_act=rng.random() < 0.35))
        add_pinn2(rng, case, len(case["models"]) - 1, rng.choice([1, 2]))
    if rng.random() < 0.35:
        # a DeepONet with its own conditions (they use the iteration argument to cache the branch evaluation)
        case["models"].append(dict(kind="deeponet", seed=rng.randrange(10 ** 6), n_fn=rng.choice([2, 3]), n_disc=rng.choice([3, 4])))
        mi = len(case["models"]) - 1

        def dcond():
            w = rng.choice(["1/2", "3/4", "3/2", "7/4", "1"])
            if rng.random() < 0.5:
                return dict(kind="pideeponet", weight=w, model=mi, n=rng.choice([2, 3, 5]), c=[dy(rng, -1, 1, 4)])
            nf, nt = rng.choice([2, 3]), rng.choice([2, 3, 4])
            return dict(kind="deeponet_data", weight=w, model=mi, seed=rng.randrange(10 ** 6), nf=nf, nt=nt,
                        bB=rng.randint(1, nf), bT=rng.randint(1, nt))
        case["train"] += [dcond() for _ in range(rng.choice([1, 2]))]
        if rng.random() < 0.3:
            case["val"].append(dcond())
    case["N"] = rng.randint(1, Nmax)
    case["sanity"] = bool(case["val"]) and rng.random() < 0.5
    case["val_every"] = rng.choice([0, 1, 2, 3]) if case["val"] else 0
    if case["val_every"] > case["N"]:
        case["val_every"] = 0
    if rng.random() < 0.7:
        case["opt"] = dict(kind="adam", lr=rng.choice(["1/8", "1/64", "1/1024"]), wd=rng.choice(["0", "0", "1/16"]),
                           momentum="0", dampening="0",
                           step_size=rng.choice([0, 1, 2]), gamma=rng.choice(["1/2", "9/10"]), freq=rng.choice([1, 2, 3, 7]),
                           sched=rng.choice(["step", "exp"]))
    else:
        case["opt"] = dict(kind="sgd", lr=rng.choice(["1/8", "1/32"]), momentum=rng.choice(["0", "9/10"]), dampening="0",
                           wd="0", step_size=rng.choice([0, 2]), gamma="1/2", freq=1)
    return case


def probe_case(rng):
    """small set-up whose learnable state depends on the iteration argument at every step"""
    case = gen_case_rat(rng, Nmax=6)
    case["models"][0] = dict(kind="poly", init=[dy(rng, -1, 1), dy(rng, -1, 1)], shape=rng.choice(["vec", "scalars0d", "ones", "row"]))
    case["train"][0] = dict(kind="probe", weight="1", model=0, c=[rng.choice(["1/4", "1/2", "-1/4", "1/8"])])
    case["N"] = max(case["N"], 3)
    return case


# ------------------------------------------------------------------------------------------
# comparison

def parse_traj(reply, N):
    parts = [p.strip() for p in reply.split(" | ")]
    reg = [int(t) for t in parts[0].split()]
    steps = [[Fraction(t) for t in p.split()] for p in parts[1:N + 2]]
    rest = parts[N + 2:]
    info = {}
    for p in rest:
        k, _, v = p.partition(" ")
        info[k] = v
    return reg, steps, info


def first_tensor_diff(a, b):
    """first (step, tensor name, values) at which two recorded tensor histories differ bit-wise"""
    for j, (sa, sb) in enumerate(zip(a, b)):
        for (na, ta), (nb, tb) in zip(sa, sb):
            same = ta.shape == tb.shape and bool(((ta == tb) | (ta.isnan() & tb.isnan())).all())
            if not same:
                return j, na, ta.reshape(-1).tolist(), tb.reshape(-1).tolist()
    if len(a) != len(b):
        return min(len(a), len(b)), "<number of steps>", len(a), len(b)
    return None


def judge_condition_values(rep, case):
    """property oracle independent of the Lean model AND of the reference loop (which evaluates the library's
    condition objects): the loss a training condition contributes, and its gradient with respect to every
    learnable scalar, evaluated on freshly built objects at the first step, equal the loss of the condition as the
    harness configured it (its own formulas for residual, data functions, points and reduction; exact rationals)"""
    if case["channel"] != "rat" or case.get("long"):
        return
    FB = build(case)
    torch = FB.torch
    env = {i: Fraction(FB.ids[i][0].detach().reshape(-1)[FB.ids[i][1]].item()) for i in FB.ids}
    tens = [t for _, t, _ in FB.tensors]
    for ci, (c, cond) in enumerate(zip(case["train"], FB.train)):
        sym = cond_syms(case, FB, c, "t", ci)[0]
        try:
            loss = cond(device="cpu", iteration=0)
            grads = torch.autograd.grad(loss.sum(), tens, allow_unused=True) if loss.requires_grad else [None] * len(tens)
        except Exception as e:
            rep.fail(f"training condition {ci} ({c['kind']}) cannot be evaluated: {type(e).__name__}: {str(e)[:160]}", case)
            continue
        want = sym.evalf(env, 0)
        got = float(loss.sum())
        scale = max(1.0, abs(float(want)))
        # full-data-set conditions accumulate their value in a float32 tensor (the gradients stay float64)
        vtol = 1e-6 if (c["kind"] == "hpcm" or c.get("full")) else 1e-9
        if not abs(got - float(want)) <= vtol * scale:
            rep.fail(f"training condition {ci} ({c['kind']}, residual {c.get('res')}, weight {c['weight']}): the loss it contributes at the first "
                     f"step is {got!r}; the loss of the condition as configured (the harness' own evaluation of residual, data functions, "
                     f"points and reduction) is {float(want)!r}", case, detail=dict(condition=ci, library=got, configured=float(want)))
            continue
        ment = sym.mentions()
        for (name, t, tids), g in zip(FB.tensors, grads):
            for k, i in enumerate(tids):
                if i not in ment and g is None:
                    continue
                gv = 0.0 if g is None else float(g.reshape(-1)[k])
                wv = float(sym.dual(env, 0, i)[1])
                if not abs(gv - wv) <= 1e-9 * max(1.0, abs(wv)):
                    rep.fail(f"training condition {ci} ({c['kind']}, residual {c.get('res')}): gradient of its loss with respect to {FB.names[i]} is "
                             f"{gv!r} ({'no gradient path' if g is None else 'autograd'}), the configured loss has {wv!r}", case,
                             detail=dict(condition=ci, tensor=FB.names[i], library=gv, configured=wv))
                    break


def judge(rep, case, B, rec, Bref, ref, reply):
    N = case["N"]
    if "error" in rec:
        rep.fail(f"trainer.fit raised {rec['error']} on a valid set-up", case)
        return
    if "error" in ref:
        rep.count("reference-loop-raises(not judged)")
        return
    # ---- oracle 0: learning-rate history = the positions at which the scheduler was stepped
    for j, (a, b) in enumerate(zip(rec["lrs"], ref["lrs"])):
        if a != b:
            rep.fail(f"learning rate in force after step {j + 1}: {a} through the Solver, {b} in the plain loop that steps the configured "
                     f"scheduler after every {case['opt'].get('freq', 1)}-th step (first difference of the lr histories)", case,
                     detail=dict(step=j + 1, solver_lr=a, reference_lr=b))
            break
    # ---- oracle R: every learnable tensor reachable from a training condition is in the optimizer's param groups
    for name in train_reachable(case, B):
        if name not in rec["opt"]:
            shape = [tuple(t.shape) for n2, t, _ in B.tensors if n2 == name][0]
            rep.fail(f"learnable tensor {name} (shape {shape}) is reachable from a training condition but is not in the optimizer's "
                     f"param groups", case, detail=dict(tensor=name, shape=list(shape)))
    # ---- oracle 1: the reference loop of the property text, bit-exact after every step
    d = first_tensor_diff(rec["tens"], ref["tens"])
    if d is not None:
        j, name, got, want = d
        rep.fail(f"after step {j} the learnable tensor {name} trained through the Solver is {got}, the plain reference loop "
                 f"(every training condition once per step with the step index, weighted sum, same optimizer/scheduler) gives {want}",
                 case, detail=dict(step=j, tensor=name, solver=got, reference=want))
    else:
        # optimizer state (momentum buffers / Adam moments / lr) of the train-reachable tensors
        for name in train_reachable(case, Bref):
            so, ro = rec["opt"].get(name), ref["opt"].get(name)
            if so is None:
                rep.fail(f"learnable tensor {name} is reachable from a training condition but was never handed to the optimizer", case)
                continue
            for k in ro:
                a, b = so.get(k), ro[k]
                same = (a is not None) and (bool(((a == b) | (a.isnan() & b.isnan())).all()) if B.torch.is_tensor(b) else a == b)
                if not same:
                    rep.fail(f"optimizer state '{k}' of {name} after {N} steps: Solver {a}, reference loop {b}", case)
        if [float(x) for x in rec["lr"]][:1] != [float(x) for x in ref["lr"]][:1]:
            rep.fail(f"learning rate after {N} steps: Solver {rec['lr']}, reference loop {ref['lr']}", case)
    # ---- oracle 2: iteration indices
    for key, seen in rec["probe_seen"].items():
        if key.startswith("t"):
            train_seen = [s for s in seen if s is not None]
            if train_seen != list(range(N)):
                rep.fail(f"training condition {key} was called with iteration arguments {seen}, expected 0..{N - 1} once each", case)
    # ---- oracle 3: validation-only tensors never move; validation never blocks gradients of training
    reach = set(train_reachable(case, B))
    for (name, t0), (_, t1) in zip(rec["tens"][0], rec["tens"][-1]):
        if name not in reach and not bool((t0 == t1).all()):
            rep.fail(f"tensor {name} is reachable from validation conditions only but changed from {t0.tolist()} to {t1.tolist()}", case)
    # ---- oracle 4: adaptive point weights ascend (plain SGD, non-negative condition weight)
    o = case["opt"]
    if o["kind"] == "sgd" and o["momentum"] == "0" and o["wd"] == "0":
        for ci, c in enumerate(case["train"]):
            if c["kind"] == "adaptive" and Fraction(c["weight"]) >= 0:
                ids = cond_tensor_ids(case, B, c, "t", ci)[-len(c["sets"][0]):]
                for j in range(N):
                    for i in ids:
                        if rec["traj"][j + 1][i] < rec["traj"][j][i]:
                            rep.fail(f"adaptive point weight {B.names[i]} decreased at step {j}: {rec['traj'][j][i]} -> {rec['traj'][j + 1][i]} "
                                     "(squared errors are non-negative, so gradient ASCENT never lowers it)", case)
    # ---- correspondence with the Lean model (rat channel)
    if reply is None:
        return
    if reply.startswith("err") or reply.startswith("bad-op"):
        rep.disagree("drivers/C07.lean `traj` rejected a set-up the implementation trains", case, "trained", reply)
        return
    if case.get("long"):
        parts = [x.strip() for x in reply.split(" | ")]
        reg = [int(t) for t in parts[0].split()]
        final = [Fraction(t) for t in parts[1].split()]
        mlrs = [Fraction(t) for t in parts[2].split()]
        rep.count("long-run"); rep.count(f"long-run:freq={case['opt']['freq']}")
        for j, (a, b) in enumerate(zip(rec["lrs"], mlrs)):
            if not abs(a - float(b)) <= 1e-12 * float(b):
                rep.disagree("learning-rate history: Lean `sgd` (scheduler stepped when the global step count is a multiple of the "
                             "frequency) vs trainer.fit", case, dict(step=j + 1, lr=a), dict(step=j + 1, lr=float(b)))
                return
        scale = max([1.0] + [abs(float(v)) for v in final])
        for i, v in zip(reg, final):
            if not abs(rec["traj_final"][i] - float(v)) <= 1e-7 * scale:
                rep.disagree(f"state after {N} steps: Lean `solverRun` (exact) vs trainer.fit (float64)", case,
                             dict(tensor=B.names[i], value=rec["traj_final"][i]), dict(value=float(v)))
                return
        return
    reg, steps, info = parse_traj(reply, N)
    impl_reg = set()
    for name in rec["opt"]:
        for n2, t, tids in B.tensors:
            if n2 == name:
                impl_reg |= set(tids)
    if set(reg) != impl_reg:
        rep.disagree("registry: model `registry` vs parameters handed to the optimizer (optimizer.param_groups)",
                     case, sorted(B.names[i] for i in impl_reg), sorted(B.names[i] for i in reg))
    scale = max([1.0] + [abs(float(v)) for st in steps for v in st])
    if scale > BLOWUP:
        rep.count("diverging-trajectory(not compared)")
        return
    for j, st in enumerate(steps):
        for i, v in zip(reg, st):
            got = rec["traj"][j][i]
            if not abs(got - float(v)) <= TOL * scale:
                rep.disagree("training history: Lean `solverRun` (exact rationals) vs trainer.fit (float64), after every step",
                             case, dict(step=j, tensor=B.names[i], value=got), dict(step=j, value=float(v)))
                return
    its = [int(t) for t in info.get("it", "").split()]
    if its != list(range(N + 1)):
        rep.disagree("iteration counter of the model", case, list(range(N + 1)), its)
    lg = info.get("logged", "").split()
    for j, t in enumerate(lg):
        if t != "none" and rec["logged"][j] is not None:
            if not abs(rec["logged"][j] - float(Fraction(t))) <= 1e-5 * max(1.0, abs(float(Fraction(t)))):
                rep.disagree("logged train/loss (float32) vs the model's weighted sum", case,
                             dict(step=j, value=rec["logged"][j]), dict(step=j, value=float(Fraction(t))))
                return
    if not all(rec["grad_mode"]):
        rep.disagree("grad mode at the start of a training batch", case, rec["grad_mode"], info.get("grad"))


def tame(case, budget=2000):
    """the bit length of the exact rational trajectory multiplies by (degree of the gradient) per step:
    cap the number of steps so that the Lean run stays small (degree^N <= budget)"""
    B = build(case)
    deg = 1
    for where, conds in (("t", case["train"]),):
        for ci, c in enumerate(conds):
            for s in cond_syms(case, B, c, where, ci):
                deg = max(deg, s.degree())
    g = max(1, deg - 1)
    case["loss_degree"] = deg
    if g > 1:
        nmax = max(1, int(math.log(budget) / math.log(g)))
        if case["N"] > nmax:
            case["N"] = nmax
            if case.get("val_every", 0) > nmax:
                case["val_every"] = 0
    return case


def model_request(case, B):
    if case.get("long"):
        return " ".join(["lrhist", str(case["N"])] + opt_tokens(case) + spec_tokens(case, B))
    return " ".join(["traj", str(case["N"]), "1" if case.get("sanity") else "0", str(case.get("val_every", 0))]
                    + opt_tokens(case) + spec_tokens(case, B))


def ref_request(case, B):
    return " ".join(["ref", str(case["N"])] + opt_tokens(case) + spec_tokens(case, B))


def describe(case):
    return dict(channel=case["channel"], N=case["N"], train=[c["kind"] for c in case["train"]], val=[c["kind"] for c in case["val"]],
                opt=case["opt"]["kind"], val_every=case.get("val_every"))


# ------------------------------------------------------------------------------------------
# histories: several solvers / fits in ONE process (settings with the default optimizer_args, a user
# dict shared by settings, one OptimizerSetting object reused with changed fields, shared condition and
# model objects across solvers).  Oracle: the reference loop following the same history.

def gen_history(rng, channel):
    case = gen_case_rat(rng, Nmax=4) if channel == "rat" else gen_case_torch(rng, Nmax=4)
    case["val"] = case["val"][:1]
    lrs = rng.sample(["1/4", "1/8", "1/16", "1/32", "1/64", "1/128"], 3)
    stages, prev_mode = [], None
    shared = dict(weight_decay=rng.choice(["0", "1/8"]))
    for si in range(rng.choice([2, 2, 3])):
        mode = rng.choice(["default", "default", "explicit", "shared_dict"] + (["reuse", "reuse"] if si else []))
        kind = rng.choice(["sgd", "adam"]) if channel == "torch" else "sgd"
        o = dict(kind=kind, lr=lrs[si], momentum="0", dampening="0", wd="0",
                 step_size=rng.choice([0, 0, 1, 2]), gamma=rng.choice(["1/2", "3/4"]), freq=rng.choice([1, 2]))
        if mode == "explicit":
            o["wd"] = rng.choice(["0", "1/8"])
            if kind == "sgd":
                o["momentum"] = rng.choice(["0", "1/2"])
        st = dict(mode=mode, opt=o, N=rng.randint(1, 4), rebuild=rng.random() < 0.4,
                  sanity=bool(case["val"]) and rng.random() < 0.3)
        if mode == "reuse":
            st["change_class"] = rng.random() < 0.3
            st["change_sched"] = rng.random() < 0.5
        # public attributes changed AFTER the Solver object exists (before its first fit) or between two fits
        st["same_solver"] = bool(si) and not st["rebuild"] and rng.random() < 0.5     # the Solver OBJECT of the previous fit again
        edits = []
        if rng.random() < 0.6:
            for _ in range(rng.choice([1, 1, 2])):
                edits.append(dict(kind="weight", idx=rng.randrange(8), value=rng.choice(["1/4", "1/2", "5/4", "2", "3", "0", "-1/2"])))
        if rng.random() < 0.3:
            nc = gen_cond(rng, case, "t", allow_probe=False)
            if nc["kind"] in ("pinn", "mean", "ritz", "single", "data", "periodic", "integro", "hpcm", "param", "hpm_sampler", "hpm_data"):
                nc["weight"] = rng.choice(["1/2", "3/2", "2"])
                one_d = [i for i, m in enumerate(case["models"]) if m["kind"] in ("poly", "seq", "fcn")]
                for key in ("model", "model2"):
                    if nc.get(key) is not None and nc[key] not in one_d:
                        nc[key] = rng.choice(one_d) if one_d else None
                if one_d or nc["kind"] == "param":
                    edits.append(dict(kind="append", cond=nc))
        st["edits"] = edits
        stages.append(st)
    case["stages"] = stages
    case["shared_args"] = shared
    case["N"] = sum(st["N"] for st in stages)
    case["val_every"] = 0
    return case


def history_settings(case, tp, torch):
    """generator of (setting object handed to the Solver, values the reference loop uses) per stage"""
    shared = {k: float(Fraction(v)) for k, v in case["shared_args"].items()}   # ONE user dict for all `shared_dict` stages
    prev = None           # (setting, cls, args, lr, sched)
    for st in case["stages"]:          # lazily: a reused setting is changed only when its stage starts
        cls, args, lr, sched = opt_values(tp, torch, st["opt"])
        mode = st["mode"]
        if mode == "reuse" and prev is not None:
            setting, pcls, pargs, plr, psched = prev
            setting.lr = lr                                   # "coarse, then fine" with the same setting object
            if st.get("change_class") and not pargs:
                setting.optimizer_class = cls
            else:
                cls = pcls
            args = pargs
            if st.get("change_sched"):
                setting.scheduler_class = sched.get("scheduler_class")
                setting.scheduler_args = sched.get("scheduler_args", {})
                setting.scheduler_frequency = sched.get("scheduler_frequency", 1)
            else:
                sched = psched
        elif mode == "default" or mode == "reuse":
            args = {}                                         # the library's default `optimizer_args={}`
            setting = tp.solver.OptimizerSetting(cls, lr, **sched)
        elif mode == "shared_dict":
            args = dict(shared)
            setting = tp.solver.OptimizerSetting(cls, lr, optimizer_args=shared, **sched)
        else:
            setting = tp.solver.OptimizerSetting(cls, lr, optimizer_args=dict(args), **sched)
        prev = (setting, cls, dict(args), lr, dict(sched))
        yield prev


def run_history(case):
    """the same history through Solver/trainer.fit and through the reference loop"""
    tp = common.use_repo()
    import torch
    res = dict(stages=[])
    sets_impl = history_settings(case, tp, torch)
    sets_ref = history_settings(case, tp, torch)
    B = R = None
    cur = None          # condition specs (with the weights in force) of the objects currently alive — harness' own record
    for si, st in enumerate(case["stages"]):
        if B is None or st["rebuild"]:
            cur = [dict(c) for c in case["train"]]
            sc0 = dict(case, N=st["N"], sanity=st["sanity"], val_every=0, opt=st["opt"])
            B, R = build(sc0), build(sc0)
        setting, cls, args, lr, sched = next(sets_impl)
        if st.get("same_solver") and si and not st["rebuild"]:
            B.solver.optimizer_setting = setting                                  # the Solver OBJECT of the previous fit again
        else:
            B.solver = tp.solver.Solver(B.train, B.val, optimizer_setting=setting)    # condition objects shared across solvers
        # edits of public attributes after the Solver exists: weights re-assigned, a condition appended
        for e in st.get("edits", []):
            if e["kind"] == "weight":
                i = e["idx"] % len(cur)
                cur[i]["weight"] = e["value"]
                B.train[i].weight = float(Fraction(e["value"]))
            else:
                spec = dict(e["cond"])
                cur.append(spec)
                cb = B.mk_cond(len(cur) - 1, spec, "t"); B.train.append(cb)
                B.solver.train_conditions.append(cb)
                R.train.append(R.mk_cond(len(cur) - 1, spec, "t"))
        sc = dict(case, N=st["N"], sanity=st["sanity"], val_every=0, opt=st["opt"], train=[dict(c) for c in cur])
        _, rec = run_impl(sc, B=B)
        _, rcls, rargs, rlr, rsched = next(sets_ref)
        R.opt_class, R.opt_args, R.lr, R.sched = rcls, rargs, rlr, rsched
        _, ref = run_reference(sc, B=R)
        res["stages"].append((sc, rec, ref))
        if "error" in rec or "error" in ref:
            break
    res["B"], res["R"] = B, R
    return res


def judge_history(rep, case, res):
    for si, (sc, rec, ref) in enumerate(res["stages"]):
        st = case["stages"][si]
        what = (f"fit number {si + 1} of {len(case['stages'])} in one process (setting: {st['mode']}, {st['opt']['kind']}, lr={st['opt']['lr']}, "
                f"{'fresh objects' if st['rebuild'] or si == 0 else 'same condition/model objects as before'}"
                f"{', same Solver object' if st.get('same_solver') and si and not st['rebuild'] else ''}"
                f"{'; after the Solver was built: ' + '; '.join(('weight of condition %d := %s' % (e['idx'] % len(sc['train']), e['value'])) if e['kind'] == 'weight' else 'condition appended to solver.train_conditions (%s, weight %s)' % (e['cond']['kind'], e['cond']['weight']) for e in st.get('edits', [])) if st.get('edits') else ''}): ")
        if "error" in ref:
            # the plain loop itself cannot be run on these re-used objects (stale DeepONet branch cache): no reference
            rep.count("history:reference-loop-raises(" + ("solver too" if "error" in rec else "solver trains") + ")")
            return
        if "error" in rec:
            rep.fail(what + f"trainer.fit raised {rec['error']}", case)
            return
        d = first_tensor_diff(rec["tens"], ref["tens"])
        if d is not None:
            j, name, got, want = d
            rep.fail(what + f"after step {j} the learnable tensor {name} trained through the Solver is {got}, the reference loop with the "
                     f"configured optimizer (lr={st['opt']['lr']}) and scheduler gives {want}", case,
                     detail=dict(stage=si, step=j, tensor=name, solver=got, reference=want))
            return
        if [float(x) for x in rec["lr"]][:1] != [float(x) for x in ref["lr"]][:1]:
            rep.fail(what + f"learning rate after the fit: Solver {rec['lr']}, reference loop {ref['lr']}", case)
            return
        B = res["B"]
        for name in train_reachable(sc, B):
            so, ro = rec["opt"].get(name), ref["opt"].get(name)
            if so is None:
                rep.fail(what + f"learnable tensor {name} was not handed to the optimizer", case)
                return
            for k in ro:
                a, b = so.get(k), ro[k]
                same = (a is not None) and (bool(((a == b) | (a.isnan() & b.isnan())).all()) if B.torch.is_tensor(b) else a == b)
                if not same:
                    rep.fail(what + f"optimizer state '{k}' of {name}: Solver {a}, reference loop {b}", case)
                    return


def gen_long_case(rng, lo=1100, hi=2100):
    """ONE cheap long run that crosses the round numbers inside the Solver / trainer (the dummy data loader, epochs
    of 1000): one or two parameters, a static point set, a scheduler whose frequency does not divide round numbers"""
    case = dict(channel="rat", long=True, params=[], val=[], sanity=False, val_every=0)
    case["models"] = [dict(kind="poly", init=[dy(rng, -1, 1)] + ([dy(rng, -1, 1)] if rng.random() < 0.5 else []))]
    case["train"] = [dict(kind="pinn", weight=rng.choice(["1/2", "3/4", "1"]), model=0, res="lin", sets=[gen_points(rng, 2)],
                          static=True, c=[dy(rng, -1, 1, 4), dy(rng, -1, 1, 4), "0"], track=False)]
    freq = rng.choice([7, 64, 300, 999, 1001, 1100])
    # long enough that "every freq-th step of the whole run" and "every freq-th batch of an epoch of 1000" differ
    need = {7: 1100, 64: 1100, 300: 1300, 999: 2000, 1001: 1100, 1100: 1150}[freq]
    case["N"] = max(rng.randint(lo, hi), need)
    case["opt"] = dict(kind="sgd", lr=rng.choice(["1/8", "1/16"]), momentum=rng.choice(["0", "1/2"]), dampening="0", wd="0",
                       step_size=max(1, case["N"] // (freq * 20)),    # about 20 decays over the run, none invisible for long
                       gamma=rng.choice(["1/2", "3/4"]), freq=freq, sched="step")
    return case


def share_param_with_val(rng, case, p=0.45):
    """a validation condition that READS an inverse-problem Parameter which a training condition learns, evaluated
    before the first training step (sanity pass, gradients disabled) and/or between training steps"""
    used = sorted({c["param"] for c in case["train"] if c.get("param") is not None})
    if not used or rng.random() >= p:
        return case
    j = rng.choice(used)
    if rng.random() < 0.5:
        v = dict(kind="param", weight="1", param=j, pen=rng.choice(["sq", "lin"]), c=[dy(rng, -1, 1, 4)])
    else:
        one_d = [i for i, m in enumerate(case["models"]) if m["kind"] in ("poly", "seq", "fcn")]
        if not one_d:
            return case
        v = dict(kind="pinn", weight="1", model=rng.choice(one_d), param=j, res=rng.choice(["par", "parshift"]),
                 sets=[gen_points(rng, 2)], static=False, c=[dy(rng, -1, 1, 4), dy(rng, -1, 1, 4), "0"], track=rng.random() < 0.5)
    case["val"] = (case["val"] + [v])[-2:]
    case["sanity"] = rng.random() < 0.8
    if not case["sanity"] or rng.random() < 0.5:
        case["val_every"] = rng.choice([1, 2]) if case["N"] >= 2 and not case.get("limit_batches") else case.get("val_every", 0)
    if not case["sanity"] and not case.get("val_every"):
        case["sanity"] = True
    return case


def split_epochs(rng, case, p=0.3):
    """Trainer(limit_train_batches=m) with max_steps > m: the run consists of several epochs (batch_idx restarts,
    the step count does not).  Scheduler frequency 1 and no in-epoch validation keep Lightning's per-epoch
    bookkeeping out of the statement."""
    if rng.random() < p and case["N"] >= 2:
        case["limit_batches"] = rng.randint(1, max(1, min(3, case["N"] - 1)))
        case["val_every"] = 0
        case["opt"]["freq"] = 1
    return case


def gen_cases(ctx):
    rng = ctx.rng
    cases = []
    for _ in range(ctx.scale(1, 6)):
        cases.append(gen_long_case(rng, 1100, ctx.scale(1500, 3300)))
    for _ in range(ctx.scale(30, 300)):
        cases.append(gen_history(rng, rng.choice(["rat", "torch"])))
    for _ in range(ctx.scale(85, 1000)):
        cases.append(share_param_with_val(rng, split_epochs(rng, tame(gen_case_rat(rng)), 0.2)))
    for _ in range(ctx.scale(20, 250)):
        cases.append(split_epochs(rng, tame(probe_case(rng)), 0.5))
    for _ in range(ctx.scale(42, 500)):
        cases.append(share_param_with_val(rng, split_epochs(rng, gen_case_torch(rng), 0.3)))
    return cases


def run(ctx, rep, cases=None):
    rep.rule = ("seeded set-ups of 1-4 training conditions (PINN / mean / data / parameter-penalty / adaptive-weight / iteration-probe), "
                "0-2 validation conditions, shared and unshared models, inverse-problem parameters, SGD(+momentum, weight decay)/Adam, "
                "StepLR, N<=8 steps; plus histories of 2-3 solvers fitted one after the other in one process (default / explicit / shared-dict "
                "optimizer_args, a reused OptimizerSetting with changed fields, shared condition and model objects); a case is non-trivial if "
                "N>=2 and some learnable tensor moves (history: >=2 fits with different learning rates); distinct = distinct set-ups")
    cases = cases if cases is not None else gen_cases(ctx)
    done = []
    for case in [c for c in cases if "stages" in c]:
        res = run_history(case)
        last = res["stages"][-1][1]
        rep.case(case, len(case["stages"]) >= 2 and len({st["opt"]["lr"] for st in case["stages"]}) >= 2,
                 sample=dict(case=dict(describe(case), stages=[(st["mode"], st["opt"]["kind"], st["opt"]["lr"], st["N"], st["rebuild"]) for st in case["stages"]]),
                             final_state={res["B"].names[i]: v for i, v in list(last.get("traj_final", {}).items())[:6]}),
                 kind="history")
        rep.count("history"); rep.count(f"history:stages={len(case['stages'])}")
        for si, st in enumerate(case["stages"]):
            rep.count("history:setting=" + st["mode"]); rep.count("history:opt=" + st["opt"]["kind"])
            if si and not st["rebuild"]:
                rep.count("history:shared-objects")
                if st.get("same_solver"):
                    rep.count("history:same-Solver-object")
            for e in st.get("edits", []):
                rep.count("history:edit=" + ("weight-reassigned" if e["kind"] == "weight" else "condition-appended")
                          + ("(before first fit)" if si == 0 else "(between fits)"))
        judge_history(rep, case, res)
    for case in [c for c in cases if "stages" not in c]:
        B, rec = run_impl(case)
        Bref, ref = run_reference(case)
        line = model_request(case, build(case)) if case["channel"] == "rat" else None
        refline = ref_request(case, build(case)) if case["channel"] == "rat" and not case.get("long") else None
        done.append((case, B, rec, Bref, ref, line, refline))
    lines, pos = [], {}
    for i, d in enumerate(done):
        if d[5]:
            pos[(i, 0)] = len(lines); lines.append(d[5])
        if d[6]:
            pos[(i, 1)] = len(lines); lines.append(d[6])
    failure = None
    try:
        replies = common.run_driver("C07", lines)
    except common.DriverFailure as e:
        replies, failure = None, e
    for i, (case, B, rec, Bref, ref, line, refline) in enumerate(done):
        reply = refreply = None
        if replies is not None:
            reply = replies[pos[(i, 0)]] if (i, 0) in pos else None
            refreply = replies[pos[(i, 1)]] if (i, 1) in pos else None
        moved = "error" not in rec and rec["traj"][0] != rec["traj"][-1]
        rep.case(case, case["N"] >= 2 and moved,
                 sample=dict(case=describe(case), final_state={B.names[i]: v for i, v in list(rec["traj"][-1].items())[:6]} if "error" not in rec else rec["error"],
                             model=(reply or "")[:200]), kind=case["channel"])
        rep.count("channel:" + case["channel"]); rep.count("opt:" + case["opt"]["kind"])
        rep.count(f"N={case['N']}")
        for name in train_reachable(case, B):
            shp = [tuple(t.shape) for n2, t, _ in B.tensors if n2 == name][0]
            rep.count("trained-tensor-shape:" + ("0-d" if len(shp) == 0 else "(1,)" if shp == (1,) else "(1,1)" if shp == (1, 1) else f"{len(shp)}-d"))
        for c in case["train"]:
            rep.count("train:" + c["kind"])
            if c.get("res") in ("dataf", "paronlyf", "perf", "per2f") or c.get("with_f"):
                mode = ("static-never-resampling" if not c.get("static_interval") else f"static-interval") if c.get("static") else "not-static"
                rep.count(f"datafn:{c['kind']}{'(t-sampler)' if c.get('np_sets') else ''}:{mode}")
                rep.count("datafn:" + ("UserFunction" if c.get("f_wrapped") else "callable"))
            elif c.get("static_interval"):
                rep.count("static-interval-without-datafn")
            if c.get("model") is not None and case["models"][c["model"]]["kind"] in ("poly2", "fcn2"):
                declared = case["models"][c["model"]].get("order", "xt")
                delivered = c.get("order", "xt")           # periodic conditions deliver (x, t)
                rep.count("two-variable-model:" + ("points-reordered" if declared != delivered else "declared-order"))
        for c in case["val"]:
            rep.count("val:" + c["kind"])
        rep.count("validation:" + ("none" if not case["val"] else f"every{case.get('val_every')}" + ("+sanity" if case.get("sanity") else "")))
        if case["opt"].get("step_size"):
            rep.count("scheduler:StepLR")
        tp_ = {c["param"] for c in case["train"] if c.get("param") is not None}
        if any(c.get("param") in tp_ for c in case["val"]):
            rep.count("validation-reads-trained-Parameter" + ("(sanity pass first)" if case.get("sanity") else ""))
        judge(rep, case, B, rec, Bref, ref, reply)
        judge_condition_values(rep, case)
        if case.get("limit_batches"):
            rep.count(f"epochs-of-{case['limit_batches']}-batches" + (":with-index-using-condition" if any(c["kind"] in ("probe", "pideeponet", "deeponet_data") for c in case["train"]) else ""))
        if reply and refreply and not reply.startswith(("err", "bad")):
            # the model's own reference loop must agree with its solver run (theorem solver_eq_ref, executed)
            _, steps, info = parse_traj(reply, case["N"])
            rp = refreply.split(" | ")
            if [Fraction(t) for t in rp[0].split()] != steps[-1]:
                rep.disagree("model: refLoop vs solverRun (theorem solver_eq_ref executed)", case, refreply[:300], reply[:300])
    if failure is not None:
        raise failure


def search_only(ctx, rep):
    pass


def replay(ctx, obj):
    rep = common.Report(ctx)
    inp = obj.get("failing_input") or obj.get("first")
    case = inp["input"]
    lean = common.lean_check("C07")
    run(ctx, rep, [case])
    return common.finish(ctx, rep, lean)
