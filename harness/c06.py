"""C06 — boundary normals are finite outward unit vectors.

Per case: a boundary expression (primitive boundary or boundary of a nested union / cut / intersection of
primitives, both vertex orientations, parameter-dependent shapes, 1-3 parameter rows), boundary points from the
library's own samplers (random + grid) plus constructed edge / corner points that the boundary's own membership
test accepts, and `normal(points, params)` of the implementation.

* correspondence: the Lean model `TPV.Geom.normal` (lean/TPV/Model/GeomNormal.lean), run in `Float` on the exact
  values of the float32 inputs, must give the same vector (1e-4) / the same "no finite answer" — demanded only
  where the model's decisions are stable under a perturbation of the point by a few float32 ulps.
* property oracles on EVERY point, independent of the model of `normal`: finite; |n| = 1 (1e-4); exact step test:
  `p + εn ∉ D` and `p − εn ∈ D`, membership decided in exact rational arithmetic by the Lean membership algorithm
  that `contains_iff_mem` proves equal to the denoted set.  ε is 4e-3 of the size of the primitive the point lies
  on, reduced so that no other boundary piece is within 2.5ε (then the segment p ± εn meets the boundary only at
  p); perpendicular to the edge / radial at points clearly on one smooth piece (5e-4); points at junctions of two primitives' boundaries, near (not at) a corner, or at corners too sharp for
  float32 are counted as skipped, never reported."""
import math
from fractions import Fraction as Fr

import common
import geomgen
from geomgen import Gen, Node, env_tokens
from common import q

ATOL, RTOL = "1/100000000", "1/100000"   # torch.isclose defaults; the barycentric tolerance is computed per row (eff_batol)
VEC_TOL = 1e-4
SAMPLER_SOURCES = ("random", "grid", "drandom", "dgrid")
UNIT_TOL = 1e-4


def f32(x):
    import numpy as np
    return float(np.float32(float(x)))


# ---------------------------------------------------------------------------------------------
# plain float geometry of the leaves (used for generator validity and for the validity guards of the
# step test only — never for a verdict)

def leaves(node, out=None):
    out = [] if out is None else out
    if node.is_prim():
        out.append(node)
    else:
        for k in node.kids:
            leaves(k, out)
    return out


def leaf_geom(leaf, env):
    """(kind, data, scale) with float data"""
    k = leaf.kind
    vals = [[float(a) for a in p.eval(env)] for p in leaf.pfs]
    if k == "interval":
        l, u = vals[0][0], vals[1][0]
        return k, (l, u), abs(u - l)
    if k in ("circle", "sphere"):
        return k, (vals[0], vals[1][0]), abs(vals[1][0])
    o, c1, c2 = vals
    if k == "par":
        c3 = [c1[0] + c2[0] - o[0], c1[1] + c2[1] - o[1]]
        corners = [o, c1, c3, c2]
    else:
        corners = [o, c1, c2]
    segs = [(corners[i], corners[(i + 1) % len(corners)]) for i in range(len(corners))]
    scale = min(math.dist(a, b) for a, b in segs)
    return k, segs, scale


def seg_dist(p, a, b):
    ax, ay = a; bx, by = b
    dx, dy = bx - ax, by - ay
    L2 = dx * dx + dy * dy
    t = 0.0 if L2 == 0 else max(0.0, min(1.0, ((p[0] - ax) * dx + (p[1] - ay) * dy) / L2))
    return math.hypot(p[0] - ax - t * dx, p[1] - ay - t * dy)


def pieces_dist(geom, p):
    """distances from p to the boundary pieces of a leaf"""
    k, data, _ = geom
    if k == "interval":
        return [abs(p[0] - data[0]), abs(p[0] - data[1])]
    if k in ("circle", "sphere"):
        c, r = data
        return [abs(math.dist(p, c) - r)]
    return [seg_dist(p, a, b) for a, b in data]


def py_mem(node, env, p):
    """float membership (generator validity only)"""
    k = node.kind
    if k == "union":
        return py_mem(node.kids[0], env, p) or py_mem(node.kids[1], env, p)
    if k == "cut":
        return py_mem(node.kids[0], env, p) and not py_mem(node.kids[1], env, p)
    if k == "inter":
        return py_mem(node.kids[0], env, p) and py_mem(node.kids[1], env, p)
    vals = [[float(a) for a in pf.eval(env)] for pf in node.pfs]
    if k == "interval":
        return vals[0][0] <= p[0] <= vals[1][0]
    if k in ("circle", "sphere"):
        return math.dist(p, vals[0]) <= vals[1][0]
    o, c1, c2 = vals
    d1 = (c1[0] - o[0], c1[1] - o[1]); d2 = (c2[0] - o[0], c2[1] - o[1])
    det = d1[0] * d2[1] - d1[1] * d2[0]
    qx, qy = p[0] - o[0], p[1] - o[1]
    s = (d2[1] * qx - d2[0] * qy) / det
    t = (d1[0] * qy - d1[1] * qx) / det
    if k == "par":
        return 0 <= s <= 1 and 0 <= t <= 1
    return s >= 0 and t >= 0 and s + t <= 1


def leaf_boundary_points(leaf, env, rng, m):
    """constructed points on the boundary of a leaf (exact rationals, rounded to float32 later): edge points,
    every corner, circle points in rational directions"""
    k = leaf.kind
    vals = [p.eval(env) for p in leaf.pfs]
    out = []
    if k == "interval":
        return [([vals[0][0]], "end"), ([vals[1][0]], "end")]
    if k == "circle":
        (cx, cy), (r,) = vals
        dirs = [(1, 0), (0, 1), (-1, 0), (0, -1), (Fr(3, 5), Fr(4, 5)), (Fr(-5, 13), Fr(12, 13)), (Fr(8, 17), Fr(-15, 17)),
                (Fr(-4, 5), Fr(-3, 5)), (Fr(20, 29), Fr(21, 29)), (Fr(-7, 25), Fr(24, 25))]
        for dx, dy in rng.sample(dirs, min(m, len(dirs))):
            out.append(([cx + r * dx, cy + r * dy], "arc"))
        return out
    if k == "sphere":
        (cx, cy, cz), (r,) = vals
        dirs = [(1, 0, 0), (0, 0, -1), (0, 1, 0), (Fr(2, 3), Fr(1, 3), Fr(2, 3)), (Fr(-2, 7), Fr(3, 7), Fr(6, 7)),
                (Fr(1, 9), Fr(-4, 9), Fr(8, 9)), (Fr(-6, 11), Fr(-2, 11), Fr(-9, 11)), (Fr(3, 13), Fr(4, 13), Fr(-12, 13))]
        for d in rng.sample(dirs, min(m, len(dirs))):
            out.append(([cx + r * d[0], cy + r * d[1], cz + r * d[2]], "arc"))
        return out
    o, c1, c2 = vals
    d1 = [c1[0] - o[0], c1[1] - o[1]]; d2 = [c2[0] - o[0], c2[1] - o[1]]
    def at(s, t):
        return [o[0] + s * d1[0] + t * d2[0], o[1] + s * d1[1] + t * d2[1]]
    if k == "par":
        for s, t in [(0, 0), (1, 0), (0, 1), (1, 1)]:
            out.append((at(s, t), "corner"))
        for _ in range(m):
            u = Fr(rng.randint(1, 15), 16)
            s, t = rng.choice([(0, u), (1, u), (u, 0), (u, 1)])
            out.append((at(s, t), "edge"))
    else:
        for s, t in [(0, 0), (1, 0), (0, 1)]:
            out.append((at(s, t), "corner"))
        for _ in range(m):
            u = Fr(rng.randint(1, 15), 16)
            s, t = rng.choice([(0, u), (u, 0), (u, 1 - u)])
            out.append((at(s, t), "edge"))
    return out


# ---------------------------------------------------------------------------------------------
# generation

def gen_flip_prim(rng, var="x"):
    """triangle / parallelogram whose corner_2 is `origin + (2t − 1)·w`: the vertex ORIENTATION flips between parameter
    rows t < 1/2 and t > 1/2 (rows are drawn with |2t − 1| ≥ 1/4, so |det| stays away from 0); origin and corner_1 constant"""
    from geomgen import PF, c, v, dy
    kind = rng.choice(["tri", "tri", "par"])
    while True:
        o = [dy(rng, -2, 2), dy(rng, -2, 2)]
        d1 = [dy(rng, -3, 3), dy(rng, -3, 3)]
        w = [dy(rng, -3, 3), dy(rng, -3, 3)]
        det = d1[0] * w[1] - d1[1] * w[0]
        if abs(det) >= 2 and max(map(abs, d1)) >= Fr(1, 2) and max(map(abs, w)) >= 1:
            break
    c2 = PF([("+", c(o[j] - w[j]), ("*", c(2 * w[j]), v("t"))) for j in range(2)])
    return Node(kind, var, [PF([c(o[0]), c(o[1])]), PF([c(o[0] + d1[0]), c(o[1] + d1[1])]), c2]), o, min(
        math.hypot(float(d1[0]), float(d1[1])), math.hypot(float(w[0]), float(w[1])) / 4)


def scale_node(node, lam, off):
    """image of the expression under x ↦ lam·x + off (lam a power of two, off dyadic: exact): positions get the affine
    map, radii the factor"""
    from geomgen import PF, c
    def pos(pf):
        return PF([("+", c(off[j]), ("*", c(lam), t_)) for j, t_ in enumerate(pf.terms)])
    def rad(pf):
        return PF([("*", c(lam), t_) for t_ in pf.terms])
    if node.is_prim():
        if node.kind in ("circle", "sphere"):
            return Node(node.kind, node.var, [pos(node.pfs[0]), rad(node.pfs[1])])
        return Node(node.kind, node.var, [pos(pf) for pf in node.pfs])
    return Node(node.kind, node.var, [], [scale_node(k_, lam, off) for k_ in node.kids], dict(node.flags))


def gen_scale(rng, dim, ratio_min, kmax=9):
    """size factor 2^k (k in −kmax … kmax) and a dyadic offset with |offset| ≤ (smallest size ≈ lam/4) / ratio_min: shapes from
    1e-3 to 1e3, centred away from the origin, size / offset ratio down to `ratio_min`"""
    k = rng.randint(-kmax, kmax)
    lam = Fr(2) ** k
    omax = lam / 4 / Fr(ratio_min)
    unit = Fr(2) ** (math.floor(math.log2(float(omax))) - 3)
    off = [rng.choice([-1, 1]) * rng.randint(0, 8) * unit for _ in range(dim)]
    if rng.random() < 0.6:
        off[rng.randrange(dim)] = rng.choice([-1, 1]) * 8 * unit          # make use of the full offset range
    return lam, off


def gen_bad_interval(rng, params, var="y"):
    """intervals with badly scaled end points (dyadic): tiny upper / lower bound next to a large one, crossing zero
    asymmetrically, nearly equal large bounds; optionally parameter-dependent"""
    from geomgen import PF, c, v
    # float32 values of decimal numbers (NOT dyadic with few bits: `lb + (ub − lb)` then rounds in float32) and dyadic ones
    tiny = rng.choice([Fr(f32(x)) for x in (0.01, 0.001, 0.1, 0.004, 0.03, 0.0007, 0.25, 0.0123)] +
                      [Fr(rng.choice([1, 3, 5]), 2 ** rng.choice([7, 9, 12]))])
    big = rng.choice([Fr(f32(x)) for x in (1, 2, 5, 17, 40, 64, 2.3, 7.7, 0.9)])
    kind = rng.choice(["tiny-ub", "tiny-ub", "tiny-lb", "cross", "near-equal", "tiny-neg-ub"])
    if kind == "tiny-ub":
        lb, ub = -big, tiny
    elif kind == "tiny-neg-ub":
        lb, ub = -big, -tiny
    elif kind == "tiny-lb":
        lb, ub = -tiny, big
    elif kind == "cross":
        lb, ub = -tiny, big * tiny * 64
    else:
        lb, ub = big, big + Fr(rng.choice([1, 3]), rng.choice([8, 16, 32]))
    if params and rng.random() < 0.4:
        t = params[0]
        # [lb − t, ub·t'] style dependence that keeps lb < ub for t in [1/16, 1]
        lo = ("-", c(lb), v(t))
        hi = ("*", c(ub), ("+", c(1), v(t))) if ub > 0 else c(ub)
        return Node("interval", var, [PF([lo]), PF([hi])])
    return Node("interval", var, [PF([c(lb)]), PF([c(ub)])])


def gen_touching(rng, conf=None, flagged=None):
    """Boolean nodes built with the `contained` / `disjoint` flags (and without), incl. touching configurations: the
    second operand is given in barycentric coordinates of the parallelogram A"""
    from geomgen import PF, c, dy
    # A is an axis-parallel rectangle with dyadic corners (either orientation / sign of the edge directions): every
    # comparison the membership tests make on the shared pieces is then exact in float32, so what the unchanged library does
    # on touching configurations is deterministic (on slanted shared edges it depends on rounding — those stay skipped)
    o = [dy(rng, -2, 2), dy(rng, -2, 2)]
    w_, h_ = rng.choice([-1, 1]) * dy(rng, 1, 3), rng.choice([-1, 1]) * dy(rng, 1, 3)
    d1, d2 = ([w_, Fr(0)], [Fr(0), h_]) if rng.random() < 0.5 else ([Fr(0), h_], [w_, Fr(0)])
    def at(s_, t_):
        return [o[0] + s_ * d1[0] + t_ * d2[0], o[1] + s_ * d1[1] + t_ * d2[1]]
    def pf(pt):
        return PF([c(pt[0]), c(pt[1])])
    A = Node("par", "x", [pf(at(0, 0)), pf(at(1, 0)), pf(at(0, 1))])
    e8 = lambda lo, hi: Fr(rng.randint(lo, hi), 8)
    conf = conf or rng.choice(["edge", "edge", "corner", "hole", "tri-on-edge", "adjacent", "adjacent"])
    if conf == "edge":
        a, b1, b2 = e8(1, 4), e8(1, 3), e8(1, 4)
        Bn = Node("par", "x", [pf(at(a, 0)), pf(at(a + b1, 0)), pf(at(a, b2))])
    elif conf == "corner":
        b1, b2 = e8(1, 4), e8(1, 4)
        Bn = Node("par", "x", [pf(at(0, 0)), pf(at(b1, 0)), pf(at(0, b2))])
    elif conf == "hole":
        a1, a2, b1, b2 = e8(1, 3), e8(1, 3), e8(1, 3), e8(1, 3)
        Bn = Node("par", "x", [pf(at(a1, a2)), pf(at(a1 + b1, a2)), pf(at(a1, a2 + b2))])
    elif conf == "tri-on-edge":
        a, b1, b2 = e8(1, 4), e8(1, 3), e8(1, 4)
        Bn = Node("tri", "x", [pf(at(a, 0)), pf(at(a + b1, 0)), pf(at(a, b2))])
    else:
        a2, b1, b2 = e8(0, 3), e8(2, 8), e8(2, 4)
        Bn = Node("par", "x", [pf(at(1, a2)), pf(at(1 + b1, a2)), pf(at(1, a2 + b2))])
    if rng.random() < 0.3:
        Bn.pfs[1], Bn.pfs[2] = Bn.pfs[2], Bn.pfs[1]          # other vertex orientation
    if conf == "adjacent":
        flags = {"disjoint": True} if (rng.random() < 0.6 if flagged is None else flagged) else {}
        return Node("union", None, [], [A, Bn] if rng.random() < 0.5 else [Bn, A], flags), conf
    flags = {"contained": True} if (rng.random() < 0.7 if flagged is None else flagged) else {}
    return Node("cut", None, [], [A, Bn], flags), conf


FLIP_ROWS = [Fr(0), Fr(1, 8), Fr(1, 4), Fr(3, 8), Fr(5, 8), Fr(3, 4), Fr(7, 8), Fr(1)]


def gen_bool(g, rng, depth, var, envs, top=None):
    """nested union / cut / intersection of primitives whose operands really overlap (checked with floats on the
    first parameter row): the composite boundary then has pieces of both operands"""
    if depth <= 1:
        return g.prim(var)
    for _ in range(30):
        op = top or rng.choice(["union", "cut", "inter", "cut"])
        a = gen_bool(g, rng, depth - 1 if rng.random() < 0.6 else 1, var, envs)
        b = gen_bool(g, rng, depth - 1 if rng.random() < 0.4 else 1, var, envs)
        node = Node(op, None, [], [a, b])
        # overlap test: some boundary point of b inside a and some outside (or vice versa)
        ok = True
        for env in envs[:1]:
            ins = outs = 0
            for lf in leaves(b):
                for p, _ in leaf_boundary_points(lf, env, rng, 6):
                    pf = [float(x) for x in p]
                    if py_mem(a, env, pf):
                        ins += 1
                    else:
                        outs += 1
            ok = ins > 0 and outs > 0
        if ok:
            return node
    return node


def make_case(ctx, idx):
    rng = ctx.rng
    mode = rng.choice(["prim2", "prim2", "prim1", "prim3", "bool2", "bool2", "bool2", "bool2", "bool1", "bool3",
                       "flip2", "flip2", "overinter", "badint", "badint", "touch", "touch", "scaled", "scaled", "scaled"])
    params = rng.choice([[], [], ["t"], ["t"], ["t", "D"]])
    if mode == "flip2":
        params = ["t"]
    g = Gen(rng, params=params, allow_rotate=False, allow_translate=False)
    k = rng.choice([1, 2, 3]) if params else 0
    envs = [{p: [Fr(rng.randint(0, 16), 16)] for p in params} for _ in range(max(k, 1))]
    wrap = "bdry"
    depth = rng.choice([2, 2, 3]) if ctx.quick else rng.choice([2, 3, 3, 4])
    if mode == "flip2":
        # both vertex orientations among the parameter rows of ONE call
        k = rng.choice([2, 3, 4])
        while True:
            ts = [rng.choice(FLIP_ROWS) for _ in range(k)]
            if min(ts) < Fr(1, 2) < max(ts):
                break
        envs = [{"t": [t_]} for t_ in ts]
        node, o, size = gen_flip_prim(rng)
        if rng.random() < 0.4:
            # Boolean over the flipping primitive: a disc around the common corner `origin` overlaps it for every row
            from geomgen import PF, c
            r = Fr(max(1, int(size * 4)), 8)
            disc = Node("circle", "x", [PF([c(o[0]), c(o[1])]), PF([c(r)])])
            op = rng.choice(["union", "cut", "inter"])
            node = Node(op, None, [], [node, disc] if rng.random() < 0.6 else [disc, node])
    elif mode == "badint":
        a = gen_bad_interval(rng, params)
        node = a
        if rng.random() < 0.4:
            # union / cut / intersection with an overlapping ordinary interval around one of its end points
            from geomgen import PF, c
            l0 = a.pfs[0].eval(envs[0])[0]; u0 = a.pfs[1].eval(envs[0])[0]
            w = (u0 - l0) / 4
            m = Fr(int((l0 + (u0 - l0) * rng.choice([Fr(1, 2), Fr(3, 4)])) * 1024), 1024)
            other = Node("interval", "y", [PF([c(m)]), PF([c(m + Fr(int((u0 - l0) * 1024) + 1, 1024))])])
            op = rng.choice(["union", "cut", "inter"])
            node = Node(op, None, [], [a, other])
        wrap = rng.choice(["bdry", "bdry", "bdry", "bdryL", "bdryR"]) if node is a else "bdry"
    elif mode == "scaled":
        # shapes across scales and offsets: every modelled primitive and Boolean nodes over them
        var = rng.choice(["x", "x", "x", "y", "z"])
        base = g.prim(var) if rng.random() < 0.6 else gen_bool(g, rng, 2, var, envs)
        polygonal = any(k_ in ("par", "tri") for k_ in base.kinds())
        # single parallelograms / triangles go far below size / offset = 1/40 (coordinate-relative tolerance of the library);
        # nested expressions stay where every leaf has the tolerance 1e-5 (the model evaluates with one τ.batol)
        for _try in range(20):
            lam, off = gen_scale(rng, geomgen.DIM[var], (Fr(1, 512) if base.is_prim() else Fr(1, 10)) if polygonal else Fr(1, 64))
            node = scale_node(base, lam, off)
            if base.is_prim() or all(eff_batol(node, e_) == {Fr(1, 100000)} for e_ in envs):
                break
        else:
            node = base
    elif mode == "touch":
        params, envs = [], [{}]
        node, _conf = gen_touching(rng)
    elif mode == "overinter":
        # union / cut built on top of an intersection
        inner = gen_bool(g, rng, 2, "x", envs, top="inter")
        for _ in range(20):
            other = g.prim2("x")
            op = rng.choice(["union", "cut"])
            node = Node(op, None, [], [inner, other])
            env = envs[0]
            flags = [py_mem(inner, env, [float(x) for x in p_]) for lf in leaves(other) for p_, _ in leaf_boundary_points(lf, env, rng, 6)]
            if any(flags) and not all(flags):
                break
    elif mode == "prim2":
        node = g.prim2("x")
    elif mode == "prim1":
        node = g.prim1("y")
        wrap = rng.choice(["bdry", "bdry", "bdryL", "bdryR"])
    elif mode == "prim3":
        node = g.prim3("z")
    elif mode == "bool2":
        node = gen_bool(g, rng, depth, "x", envs)
    elif mode == "bool1":
        node = gen_bool(g, rng, 2, "y", envs)
    else:
        node = gen_bool(g, rng, 2, "z", envs)
    return dict(id=idx, mode=mode, wrap=wrap, dom=node.describe(), params=params,
                envs=[{p: [str(a) for a in v] for p, v in e.items()} for e in envs],
                n=rng.choice([1, 2, 7, 16, 24]) if mode.startswith("prim") else rng.choice([8, 16, 24]),
                seed=rng.randint(0, 2 ** 31 - 1), m=ctx.scale(4, 6))


def to_tp_flags(node, tp):
    """like geomgen.Node.to_tp, but honours flags={'contained': True} / {'disjoint': True} through the operation classes
    (they are not exported from tp.domains)"""
    if node.kind in ("union", "cut", "inter"):
        a, b = to_tp_flags(node.kids[0], tp), to_tp_flags(node.kids[1], tp)
        if node.kind == "union":
            if node.flags.get("disjoint"):
                from torchphysics.problem.domains.domainoperations.union import UnionDomain
                return UnionDomain(a, b, disjoint=True)
            return a + b
        if node.kind == "cut":
            if node.flags.get("contained"):
                from torchphysics.problem.domains.domainoperations.cut import CutDomain
                return CutDomain(a, b, contained=True)
            return a - b
        return a & b
    return node.to_tp(tp)


def boundary_of(solid, wrap, tp):
    d = to_tp_flags(solid, tp)
    return d.boundary if wrap == "bdry" else d.boundary_left if wrap == "bdryL" else d.boundary_right


def parse_envs(case):
    return [{p: [Fr(a) for a in v] for p, v in e.items()} for e in case["envs"]]


def param_points(tp, torch, case, envs, rows_env_idx):
    params = case["params"]
    if not params:
        return tp.spaces.Points.empty()
    pspace = None
    for p in params:
        s = tp.spaces.R1(p)
        pspace = s if pspace is None else pspace * s
    return tp.spaces.Points(torch.tensor([[float(envs[i][p][0]) for p in params] for i in rows_env_idx],
                                         dtype=torch.float32), pspace)


# ---------------------------------------------------------------------------------------------
# implementation run

def run_impl(case, rep, fixed_points=None):
    """returns list of rows dict(p=[float32 values], env=index, src=..., n=[floats] or None if raised)"""
    import random
    tp = common.use_repo()
    import torch
    solid = geomgen.from_json(case["dom"])
    B = boundary_of(solid, case["wrap"], tp)
    envs = parse_envs(case)
    var = solid.vars()[0]
    rows = []
    if case["mode"] == "history" and fixed_points is None:
        broadcastify(solid)
        B = boundary_of(solid, case["wrap"], tp)
        return history_rows(case, rep, tp, torch, B, solid, envs)
    if fixed_points is not None:
        rows = [dict(p=[float(Fr(a)) for a in p], env=e, src="replay") for p, e in fixed_points]
    else:
        n = case["n"]
        pr = param_points(tp, torch, case, envs, range(len(envs)))
        torch.manual_seed(case["seed"])
        for how in ("random", "grid"):
            try:
                fn = B.sample_random_uniform if how == "random" else B.sample_grid
                s = common.call_with_timeout(3, fn, n=n, params=pr)
            except common.CallTimeout:
                rep.count("sampler-timeout:" + how)      # non-termination belongs to C01
                continue
            except Exception:
                rep.count("sampler-raised:" + how)       # sampling defects belong to C01 / C02
                continue
            t = s.as_tensor
            if tuple(t.shape) != (n * len(envs), geomgen.DIM[var]):
                rep.count("sampler-wrong-count:" + how)
                continue
            if not bool(torch.isfinite(t).all()):
                rep.count("sampler-nan:" + how)
                continue
            for i, r in enumerate(t.tolist()):
                rows.append(dict(p=r, env=i // n, src=how))
        # density mode (random and grid) for a single parameter row
        if len(envs) == 1:
            try:
                vol = float(torch.as_tensor(common.call_with_timeout(3, B.volume, pr)).reshape(-1)[0])
            except Exception:
                vol = None
            if vol is not None and math.isfinite(vol) and vol > 0:
                dens = max(n, 6) / vol
                for how in ("drandom", "dgrid"):
                    try:
                        fn = B.sample_random_uniform if how == "drandom" else B.sample_grid
                        s = common.call_with_timeout(3, fn, d=dens, params=pr)
                    except common.CallTimeout:
                        rep.count("sampler-timeout:" + how)
                        continue
                    except Exception:
                        rep.count("sampler-raised:" + how)
                        continue
                    t = s.as_tensor
                    if t.ndim != 2 or t.shape[1] != geomgen.DIM[var] or not bool(torch.isfinite(t).all()):
                        rep.count("sampler-bad-output:" + how)
                        continue
                    for r in t.tolist()[:40]:
                        rows.append(dict(p=r, env=0, src=how))
        # constructed points on the leaves' boundaries, kept if the boundary's own membership test accepts them
        if case["wrap"] == "bdry":
            lrng = random.Random(case["seed"])
            cand = []
            for ei, env in enumerate(envs):
                for lf in leaves(solid):
                    for p, what in leaf_boundary_points(lf, env, lrng, case["m"]):
                        cand.append(dict(p=[f32(a) for a in p], env=ei, src="constructed-" + what))
            if cand:
                pts = tp.spaces.Points(torch.tensor([c["p"] for c in cand], dtype=torch.float32), solid.space(tp))
                try:
                    ok = B._contains(pts, param_points(tp, torch, case, envs, [c["env"] for c in cand])).reshape(-1).tolist()
                except Exception:
                    ok = [False] * len(cand)
                    rep.count("bdry-contains-raised")
                rows += [c for c, o in zip(cand, ok) if o]
    if not rows:
        return rows
    pts = tp.spaces.Points(torch.tensor([r["p"] for r in rows], dtype=torch.float32), solid.space(tp))
    pr = param_points(tp, torch, case, envs, [r["env"] for r in rows])
    try:
        nv = B.normal(pts, pr)
        nv = torch.as_tensor(nv)
        if tuple(nv.shape) != (len(rows), geomgen.DIM[var]):
            for r in rows:
                r["error"] = f"normal returned shape {tuple(nv.shape)} for {len(rows)} points of dimension {geomgen.DIM[var]}"
        else:
            for r, v in zip(rows, nv.to(torch.float64).tolist()):
                r["n"] = v
    except Exception as e:  # noqa
        for r in rows:
            r["error"] = f"normal raised {type(e).__name__}: {str(e)[:160]}"
    if case["params"] and fixed_points is None:
        rows += evaluated_rows(case, rep, tp, torch, B, solid, envs, rows)
    return rows


class PFB(geomgen.PF):
    """parameter function whose Python callable broadcasts over its arguments (a fixed default of one row next to n parameter
    rows): every component is `expr + 0·(sum of all variables)` — what a user function of several variables has to do itself,
    because `UserFunction` hands a fixed default through as it was given"""

    def py(self, scalar=False, matrix=False):
        vs = self.vars()
        if not vs:
            return super().py(scalar=scalar, matrix=matrix)
        import torch
        zero = " + ".join(f"0.0 * {v_}[:, :1]" for v_ in vs)
        comps = [f"(({geomgen.pt_py(t_) if geomgen.pt_vars(t_) else repr(float(geomgen.pt_eval(t_, {})))}) + {zero})" for t_ in self.terms]
        src = f"def _f({', '.join(vs)}):\n    return torch.column_stack([{', '.join(comps)}])\n"
        ns = {"torch": torch}
        exec(src, ns)
        f = ns["_f"]
        f._src = src
        return f


def broadcastify(node):
    node.pfs = [PFB(pf.terms) for pf in node.pfs]
    for k_ in node.kids:
        broadcastify(k_)


def history_rows(case, rep, tp, torch, B, solid, envs):
    """object histories: several partially evaluated copies made from ONE parent (shape functions of the two variables t, D;
    `B(t=…)` leaves D open), and the EARLIER copy and the parent used again after a sibling was made.
    envs[0] = (t = v1, D = d), envs[1] = (t = v2, D = d).  Every row is judged at the parameter values its object was made for."""
    var = solid.vars()[0]
    n = case["n"]
    dim = geomgen.DIM[var]
    def tval(env):
        return torch.tensor([[float(env["t"][0])]], dtype=torch.float32)
    pD = tp.spaces.Points(torch.tensor([[float(envs[0]["D"][0])]], dtype=torch.float32), tp.spaces.R1("D"))
    def pDn(k):
        return tp.spaces.Points(torch.full((k, 1), float(envs[0]["D"][0]), dtype=torch.float32), tp.spaces.R1("D"))
    rows = []
    def sample(obj, how, env_i, tag):
        try:
            fn = obj.sample_random_uniform if how == "random" else obj.sample_grid
            s_ = common.call_with_timeout(3, fn, n=n, params=pD)
            t_ = s_.as_tensor
            if tuple(t_.shape) != (n, dim) or not bool(torch.isfinite(t_).all()):
                rep.count("sampler-bad-output:" + how + "@" + tag)
                return None
            return t_
        except Exception:
            rep.count("sampler-raised:" + how + "@" + tag)
            return None
    def normals(obj, pts_t, env_i, src, params=None):
        if pts_t is None:
            return
        mine = [dict(p=r_, env=env_i, src=src) for r_ in pts_t.tolist()]
        try:
            pts = tp.spaces.Points(pts_t.clone(), solid.space(tp))
            nv = torch.as_tensor(obj.normal(pts, params if params is not None else pDn(len(mine))))
            if tuple(nv.shape) != (len(mine), dim):
                for r_ in mine:
                    r_["error"] = f"normal returned shape {tuple(nv.shape)} for {len(mine)} points"
            else:
                for r_, v_ in zip(mine, nv.to(torch.float64).tolist()):
                    r_["n"] = v_
        except Exception as e:  # noqa
            for r_ in mine:
                r_["error"] = f"normal raised {type(e).__name__}: {str(e)[:160]}"
        rows.extend(mine)
    try:
        torch.manual_seed(case["seed"])
        first = B(t=tval(envs[0]))
        P1 = sample(first, "random", 0, "first")
        normals(first, P1, 0, "random@first")
        second = B(t=tval(envs[1]))                       # a sibling made from the same parent
        P2 = sample(second, "grid", 1, "second")
        normals(second, P2, 1, "grid@second")
        normals(first, P1, 0, "random@first-after-sibling")        # the EARLIER copy again, same points
        P1c = sample(first, "grid", 0, "first-after-sibling")
        normals(first, P1c, 0, "grid@first-after-sibling")
        if P1 is not None:                                        # the parent with explicit parameters, after its children
            full = param_points(tp, torch, case, envs, [0] * len(P1))
            normals(B, P1, 0, "random@parent-after-children", params=full)
        third = first(D=torch.tensor([[float(envs[0]["D"][0])]], dtype=torch.float32))   # second step of the first copy
        normals(third, P1, 0, "random@first-fully-evaluated", params=tp.spaces.Points.empty())
        rep.count("histories")
    except Exception as e:  # noqa
        rep.count("history-raised:" + type(e).__name__)
    return rows


def gen_history(rng):
    """shape functions of BOTH variables t and D: every position is `base + (a·t, b·D)`; alone or as the moving operand of a
    Boolean node over a constant shape"""
    from geomgen import PF, c, v, dy
    g0 = Gen(rng, params=[], allow_rotate=False, allow_translate=False)
    base = g0.prim2("x")
    a, b = rng.choice([-1, 1]) * dy(rng, 0.25, 1, 4), rng.choice([-1, 1]) * dy(rng, 0.25, 1, 4)
    def pos(pf):
        return PF([("+", pf.terms[0], ("*", c(a), v("t"))), ("+", pf.terms[1], ("*", c(b), v("D")))])
    if base.kind == "circle":
        moving = Node("circle", "x", [pos(base.pfs[0]), base.pfs[1]])
    else:
        moving = Node(base.kind, "x", [pos(pf) for pf in base.pfs])
    t1 = Fr(rng.randint(0, 4), 8)
    t2 = t1 + Fr(rng.randint(8, 24), 8) * rng.choice([-1, 1])
    envs = [{"t": [t1], "D": [Fr(rng.randint(0, 8), 8)]}]
    envs.append({"t": [t2], "D": envs[0]["D"]})
    node = moving
    if rng.random() < 0.4:
        for _ in range(20):
            other = g0.prim2("x")
            op = rng.choice(["cut", "union", "inter"])
            node = Node(op, None, [], [other, moving] if op == "cut" or rng.random() < 0.5 else [moving, other])
            flags = [[py_mem(other, e_, [float(x) for x in p_]) for lf in leaves(moving) for p_, _ in leaf_boundary_points(lf, e_, rng, 6)]
                     for e_ in envs]
            if all(any(f_) and not all(f_) for f_ in flags):
                break
        else:
            node = moving
    return node, envs


def evaluated_rows(case, rep, tp, torch, B, solid, envs, rows):
    """normals asked of the PARTIALLY EVALUATED boundary object `B(**values)` (one step, or one variable after the other):
    the same points with the values of their parameter row fixed, plus own samples of the evaluated object.
    `normal(B(ρ))(p) = normal(B)(p, ρ)` (Lean: peval_normal), so these rows go through the same oracles and model comparison."""
    import random
    lrng = random.Random(case["seed"] + 1)
    var = solid.vars()[0]
    out = []
    for ei, env in enumerate(envs):
        vals = {p_: torch.tensor([[float(env[p_][0])]], dtype=torch.float32) for p_ in case["params"]}
        try:
            if len(vals) > 1 and lrng.random() < 0.5:
                Be = B
                for k_ in lrng.sample(sorted(vals), len(vals)):      # one variable after the other
                    Be = Be(**{k_: vals[k_]})
                how = "steps"
            else:
                Be = B(**vals)
                how = "once"
        except Exception:
            rep.count("evaluation-raised")          # B(**values) itself belongs to C17
            continue
        rep.count("evaluated-boundary:" + how)
        mine = [dict(p=r["p"], env=ei, src=r["src"] + "@eval") for r in rows if r["env"] == ei and "error" not in r][:5]
        try:
            torch.manual_seed(case["seed"] + 7 + ei)
            s_ = common.call_with_timeout(3, Be.sample_random_uniform, n=3)
            t_ = s_.as_tensor
            if tuple(t_.shape) == (3, geomgen.DIM[var]) and bool(torch.isfinite(t_).all()):
                mine += [dict(p=r_, env=ei, src="random@eval") for r_ in t_.tolist()]
        except Exception:
            rep.count("sampler-raised:random@eval")
        if not mine:
            continue
        pts = tp.spaces.Points(torch.tensor([r["p"] for r in mine], dtype=torch.float32), solid.space(tp))
        try:
            nv = torch.as_tensor(Be.normal(pts))
            if tuple(nv.shape) != (len(mine), geomgen.DIM[var]):
                for r in mine:
                    r["error"] = f"normal of the evaluated boundary returned shape {tuple(nv.shape)} for {len(mine)} points"
            else:
                for r, v_ in zip(mine, nv.to(torch.float64).tolist()):
                    r["n"] = v_
        except Exception as e:  # noqa
            for r in mine:
                r["error"] = f"normal of the evaluated boundary B(**{ {k_: float(v_) for k_, v_ in vals.items()} }) raised {type(e).__name__}: {str(e)[:160]}"
        out += mine
    return out


def eff_batol(solid, env):
    """the barycentric tolerance the library uses (parallelogram.py: _bary_atol, since /repo 20d0b69), computed exactly:
    max(BARY_ATOL, 2.5e-7 · largest |coordinate| · max(|dir_1|₁, |dir_2|₁) / |det|) per parallelogram / triangle leaf.
    The Lean model has ONE τ.batol per evaluation: the value is passed when all such leaves of the expression agree
    (always for a single primitive; nested expressions are generated so that every leaf has 1e-5), else the largest one
    (counted as `mixed-batol`)."""
    vals = set()
    for lf in leaves(solid):
        if lf.kind in ("par", "tri"):
            o, c1, c2 = [pf.eval(env) for pf in lf.pfs]
            d1 = [c1[0] - o[0], c1[1] - o[1]]; d2 = [c2[0] - o[0], c2[1] - o[1]]
            det = abs(d1[0] * d2[1] - d1[1] * d2[0])
            if det == 0:
                continue
            largest = max(abs(a) for a in o + c1 + c2)
            L = max(abs(d1[0]) + abs(d1[1]), abs(d2[0]) + abs(d2[1]))
            vals.add(max(Fr(1, 100000), Fr(1, 4000000) * largest * L / det))
    return vals or {Fr(1, 100000)}


def far_small_polygonal(solid, env):
    """a parallelogram / triangle leaf whose smallest side is below 1/40 of its largest coordinate: the float32 rounding of its
    barycentric coordinates exceeds BARY_ATOL (known finding bary_tolerance_far_small_shapes)"""
    for lf in leaves(solid):
        if lf.kind in ("par", "tri"):
            _, segs, scale = leaf_geom(lf, env)
            big = max(abs(c_) for a_, _ in segs for c_ in a_)
            if scale < big / 40:
                return True
    return False


def is_sampler(src):
    return src.split("@")[0] in SAMPLER_SOURCES


# ---------------------------------------------------------------------------------------------
# validity guard of the step test

def step_plan(solid, env, p):
    """('ok', eps, info) or ('skip', reason)"""
    lvs = leaves(solid)
    geoms = [leaf_geom(lf, env) for lf in lvs]
    eta = 1e-6 * max([1.0] + [abs(a) for a in p])          # float32 position noise of a sample (≈ 16 ulp)
    on, other = [], []
    for gi, g in enumerate(geoms):
        for pi, d in enumerate(pieces_dist(g, p)):
            (on if d <= 1e-4 * g[2] + eta else other).append((gi, pi, d))
    if not on:
        return "skip", "off-boundary"
    if len({gi for gi, _, _ in on}) > 1:
        return coincident_plan(lvs, geoms, on, other, p, eta)
    gi = on[0][0]
    kind, data, scale = geoms[gi]
    eps = 4e-3 * scale
    sharp = 1.0
    if len(on) == 2:
        (a0, b0), (a1, b1) = data[on[0][1]], data[on[1][1]]
        shared = [c for c in (a0, b0) if c in (a1, b1)]
        # a corner only if the point IS the vertex (within 2 ulp): the code's corner zone (1e-5 in barycentric units) is
        # of the size of float32 noise, and near — not at — an acute corner a correct edge normal fails any fixed ε
        if not shared or math.dist(p, shared[0]) > 2e-7 * max([1.0] + [abs(a) for a in p]):
            return "skip", "near-corner"
        u = (b0[0] - a0[0], b0[1] - a0[1]); w = (b1[0] - a1[0], b1[1] - a1[1])
        # the edges are listed head to tail: the interior angle α has cos α = −(u·w)/(|u||w|)
        cosang = -(u[0] * w[0] + u[1] * w[1]) / (math.hypot(*u) * math.hypot(*w))
        alpha = math.acos(max(-1.0, min(1.0, cosang)))
        sharp = math.sin(alpha / 2)
    elif len(on) > 2:
        return "skip", "degenerate"
    if other:
        eps = min(eps, 0.4 * min(d for _, _, d in other))
    if eps * sharp < 10 * eta:
        return "skip", "crowded-or-sharp"
    # direction from the centre of the (convex) leaf through p: leaves the leaf at p
    if kind == "interval":
        ctr = [(data[0] + data[1]) / 2]
    elif kind in ("circle", "sphere"):
        ctr = list(data[0])
    else:
        vs = [a for a, _ in data]
        ctr = [sum(c[0] for c in vs) / len(vs), sum(c[1] for c in vs) / len(vs)]
    dn = math.dist(p, ctr)
    if dn == 0:
        return "skip", "degenerate"
    return "ok", eps, dict(leaf=lvs[gi].kind, corner=len(on) == 2, u=[(a - b) / dn for a, b in zip(p, ctr)])


def coincident_plan(lvs, geoms, on, other, p, eta):
    """boundary pieces of several leaves meet at p.  If they all lie on ONE straight line (2-D: collinear edges, p in the
    interior of each) or are end points of intervals (1-D), the neighbourhood of p is split into two sides and the question
    "is p on the boundary of the composite" is still decided exactly by the membership on the two sides; crossings stay skipped"""
    kinds = {geoms[gi][0] for gi, _, _ in on}
    scale = min(geoms[gi][2] for gi, _, _ in on)
    extra = [d for _, _, d in other]
    if kinds <= {"interval"}:
        u = [1.0]
    elif kinds <= {"par", "tri"}:
        segs = [geoms[gi][1][pi] for gi, pi, _ in on]
        (a0, b0) = segs[0]
        d0 = (b0[0] - a0[0], b0[1] - a0[1])
        L0 = math.hypot(*d0)
        for a, b in segs[1:]:
            dd = (b[0] - a[0], b[1] - a[1])
            if abs(d0[0] * dd[1] - d0[1] * dd[0]) > 1e-9 * L0 * math.hypot(*dd):
                return "skip", "junction"
        if d0[0] != 0 and d0[1] != 0:
            # slanted shared line: whether the library sees p inside or outside a partner depends on float32 rounding
            return "skip", "junction"
        for a, b in segs:
            extra += [math.dist(p, a), math.dist(p, b)]          # p must be inside every one of the coincident segments
        u = [-d0[1] / L0, d0[0] / L0]
    else:
        return "skip", "junction"
    eps = 4e-3 * scale
    if extra:
        eps = min(eps, 0.4 * min(extra))
    if eps < 10 * eta:
        return "skip", "junction"
    return "ok", eps, dict(leaf="+".join(sorted(lvs[gi].kind for gi in {g_ for g_, _, _ in on})), corner=False, u=u,
                           coincident=sorted({gi for gi, _, _ in on}))


def lca_kinds(solid, idxs):
    """kinds of the lowest common ancestors of the given leaves (indices into leaves(solid)), pairwise"""
    lvs = leaves(solid)
    def path(node, target, acc):
        if node is target:
            return acc + [node]
        for k_ in node.kids:
            r_ = path(k_, target, acc + [node])
            if r_:
                return r_
        return None
    out = set()
    ps = [path(solid, lvs[i], []) for i in idxs]
    for i in range(len(ps)):
        for j in range(i + 1, len(ps)):
            common_ = [a for a, b in zip(ps[i], ps[j]) if a is b]
            out.add(common_[-1].kind)
    return sorted(out)


def perp_plan(solid, env, p):
    """direction the normal must be perpendicular (segment) / parallel (radial) to, or None when the point is not
    clearly on exactly one smooth boundary piece (corner, junction, near-corner)"""
    lvs = leaves(solid)
    geoms = [leaf_geom(lf, env) for lf in lvs]
    eta = 1e-6 * max([1.0] + [abs(a) for a in p])
    on, other = [], []
    for gi, g in enumerate(geoms):
        for pi, d in enumerate(pieces_dist(g, p)):
            (on if d <= 1e-4 * g[2] + eta else other).append((gi, pi, d))
    if len(on) != 1:
        return None
    gi, pi, _ = on[0]
    kind, data, scale = geoms[gi]
    if kind == "interval":
        return None
    big = scale if kind in ("circle", "sphere") else max(math.dist(a, b) for a, b in data)
    if other and min(d for _, _, d in other) < 2e-3 * big:
        return None
    if kind in ("circle", "sphere"):
        c, r = data
        if r <= 0:
            return None
        return dict(kind="radial", dir=[(a - b) / r for a, b in zip(p, c)])
    a, b = data[pi]
    L = math.dist(a, b)
    return dict(kind="segment", dir=[(b[0] - a[0]) / L, (b[1] - a[1]) / L])


def to_fr(x):
    return Fr(float(x))


# ---------------------------------------------------------------------------------------------

def evaluate(ctx, rep, cases, fixed=None):
    lines, plan = [], []
    for ci, cs in enumerate(cases):
        solid = geomgen.from_json(cs["dom"])
        bt = f"{cs['wrap']} {solid.tokens()}"
        st = solid.tokens()
        envs = parse_envs(cs)
        var = solid.vars()[0]
        rows = run_impl(cs, rep, None if fixed is None else fixed[ci])
        rep.count("mode:" + cs["mode"])
        rep.count("wrap:" + cs["wrap"])
        rep.count("depth:%d" % solid.depth())
        rep.count("param-rows:%d" % (len(envs) if cs["params"] else 0))
        for kd in set(solid.kinds()):
            rep.count("node:" + kd)
        for r in rows:
            env = envs[r["env"]]
            pe = {var: [to_fr(a) for a in r["p"]]}
            ent = dict(case=ci, row=r, a=len(lines))
            eb = eff_batol(solid, env)
            if len(eb) > 1:
                rep.count("mixed-batol")
            if max(eb) > Fr(1, 100000):
                rep.count("effective-batol-above-1e-5")
            BATOL = q(max(eb))
            head = f"{ATOL} {RTOL} {BATOL} {bt}"
            lines.append(f"normal {head} {env_tokens(pe)} {env_tokens(env)}")
            delta = Fr(4, 10 ** 6) * max([Fr(1)] + [abs(a) for a in pe[var]])
            for i in range(len(pe[var])):
                for sg in (1, -1):
                    q_ = list(pe[var]); q_[i] += sg * delta
                    lines.append(f"normal {head} {env_tokens({var: q_})} {env_tokens(env)}")
            ent["b"] = len(lines)
            # step test
            ent["step"] = None
            nv = r.get("n")
            if nv is not None and all(math.isfinite(a) for a in nv):
                pl = step_plan(solid, env, r["p"])
                if pl[0] == "ok":
                    eps = Fr(int(pl[1] * 2 ** 30), 2 ** 30)
                    nf = [to_fr(a) for a in nv]
                    out = [a + eps * b for a, b in zip(pe[var], nf)]
                    inn = [a - eps * b for a, b in zip(pe[var], nf)]
                    ent["step"] = dict(eps=float(eps), info={k_: v_ for k_, v_ in pl[2].items() if k_ != "u"}, at=len(lines))
                    if pl[2].get("coincident"):
                        ent["step"]["info"]["lca"] = lca_kinds(solid, pl[2]["coincident"])
                    lines.append(f"contains {ATOL} {RTOL} {BATOL} {st} {env_tokens({var: out})} {env_tokens(env)}")
                    lines.append(f"contains {ATOL} {RTOL} {BATOL} {st} {env_tokens({var: inn})} {env_tokens(env)}")
                    # guard: is p on the composite's boundary at all?  membership must flip across p along the ray from
                    # the centre of the (convex) leaf — geometry computed by the harness, not by the implementation
                    uf = [to_fr(a) for a in pl[2]["u"]]
                    lines.append(f"contains {ATOL} {RTOL} {BATOL} {st} {env_tokens({var: [a + eps * b for a, b in zip(pe[var], uf)]})} {env_tokens(env)}")
                    lines.append(f"contains {ATOL} {RTOL} {BATOL} {st} {env_tokens({var: [a - eps * b for a, b in zip(pe[var], uf)]})} {env_tokens(env)}")
                else:
                    ent["skip"] = pl[1]
                ent["perp"] = perp_plan(solid, env, r["p"])
            plan.append(ent)
        if not rows:
            rep.count("case-without-points")
    replies = common.run_driver("C06", lines)
    per_case = {}
    for ent in plan:
        per_case.setdefault(ent["case"], []).append(ent)
    for ci, cs in enumerate(cases):
        solid = geomgen.from_json(cs["dom"])
        ents = per_case.get(ci, [])
        nontrivial = len(ents) > 0 and (solid.depth() > 1 or bool(solid.free_vars()) or cs["mode"] != "prim1")
        first = ents[0] if ents else None
        rep.case(dict(dom=cs["dom"], wrap=cs["wrap"], envs=cs["envs"], pts=[e["row"]["p"] for e in ents[:4]]), nontrivial,
                 sample=None if first is None else dict(expression=f"{cs['wrap']} {solid.tokens()}", point=first["row"]["p"],
                                                        params=cs["envs"][first["row"]["env"]], source=first["row"]["src"],
                                                        implementation=first["row"].get("n", first["row"].get("error")),
                                                        model=decode(replies[first["a"]])[0]),
                 kind=cs["mode"])
        for ent in ents:
            ent["row0"] = ents[0]["row"]
            judge(rep, cs, solid, ent, replies)


def decode(reply):
    """→ (vector or None, margin)"""
    if reply == "none":
        return None, None
    t = reply.split()
    if t[0] == "bad-op":
        raise common.DriverFailure("driver C06: " + reply)
    n = int(t[0])
    return [common.unfbits(x) for x in t[1:1 + n]], (None if t[1 + n] == "inf" else common.unfbits(t[1 + n]))


def judge(rep, cs, solid, ent, replies):
    r = ent["row"]
    inp = dict(dom=cs["dom"], wrap=cs["wrap"], expression=f"{cs['wrap']} {solid.tokens()}", params=cs["params"],
               env=cs["envs"][r["env"]], point=[str(to_fr(a)) for a in r["p"]], point_float=r["p"], source=r["src"],
               call_row0=dict(point=[str(to_fr(a)) for a in ent["row0"]["p"]], env=cs["envs"][ent["row0"]["env"]]))
    if is_sampler(r["src"]) or "@" in r["src"]:
        inp["case"] = cs          # sampler-returned point: the replay re-runs the samplers of this case (seeded)
    rep.count("points")
    rep.count("src:" + r["src"].split("-")[0])
    if "error" in r:
        rep.fail(f"normal() gives no normal vectors at boundary points accepted by the boundary's own membership test: {r['error']}", inp)
        return
    nv = r["n"]
    # ---- property oracles (independent of the model of `normal`)
    fk = None
    finite = all(math.isfinite(a) for a in nv)
    if not finite:
        rep.fail(f"normal() returned a non-finite vector {nv} at a boundary point ({r['src']})", inp, detail=dict(normal=nv), finding=fk)
    else:
        ln = math.sqrt(sum(a * a for a in nv))
        if abs(ln - 1) > UNIT_TOL:
            rep.fail(f"normal() returned {nv} of length {ln:.6g}, not a unit vector ({r['src']})", inp, detail=dict(normal=nv), finding=fk)
        st = ent["step"]
        on_boundary = False
        from_sampler = is_sampler(r["src"])
        if st is None:
            rep.count("step-skipped:" + ent.get("skip", "?"))
            if ent.get("skip") == "off-boundary" and from_sampler:
                rep.fail(f"the boundary sampler ({r['src']}) returned the point {r['p']}, which is farther than 1e-4 of the shape's size from "
                         f"every boundary piece of the expression; normal() returned {nv} there, which cannot be an outward normal", inp,
                         detail=dict(normal=nv))
        else:
            gu, gd = replies[st["at"] + 2].split()[0], replies[st["at"] + 3].split()[0]
            on_boundary = {gu, gd} == {"0", "1"}
            if not on_boundary:
                # the exact membership does not change across the point: not a boundary point of the composite
                rep.count("step-skipped:not-on-composite-boundary")
                if "inter" in st["info"].get("lca", []) and gu == "0":
                    # the two operands of an intersection only touch along this piece: locally the set has no interior
                    rep.count("step-skipped:degenerate-touching-intersection")
                elif from_sampler:
                    o, i = replies[st["at"]].split()[0], replies[st["at"] + 1].split()[0]
                    shared = "union" in st["info"].get("lca", []) and gu == "1"
                    if shared:
                        rep.count("points-on-interior-shared-piece-of-a-union")
                    rep.fail(f"the boundary sampler ({r['src']}) returned the point {r['p']} that is not on the boundary of the domain (exact "
                             f"membership is {'inside' if gu == '1' else 'outside'} on both sides of it, ε = {st['eps']:.3g}); normal() returned {nv} "
                             f"there, which is not outward: p + εn inside = {o}, p − εn inside = {i}", inp,
                             detail=dict(normal=nv, eps=st["eps"], plus=o, minus=i),
                             finding="union_shared_boundary_piece" if shared else None)
        if on_boundary:
            o, i = replies[st["at"]].split()[0], replies[st["at"] + 1].split()[0]
            rep.count("step-tested")
            rep.count("step-tested:" + st["info"]["leaf"] + (":corner" if st["info"]["corner"] else "") +
                      (":coincident" if st["info"].get("coincident") else ""))
            if o != "0" or i != "1":
                what = []
                if o != "0":
                    what.append("p + εn is still inside the domain")
                if i != "1":
                    what.append("p − εn is outside the domain")
                rep.fail(f"normal {nv} at boundary point {r['p']} does not point outwards: {' and '.join(what)} "
                         f"(ε = {st['eps']:.3g}, exact membership; no other boundary piece within 2.5ε; {r['src']})",
                         inp, detail=dict(normal=nv, eps=st["eps"], plus=o, minus=i), finding=fk)
            pp = ent.get("perp")
            if pp is not None:
                rep.count("perpendicularity-tested")
                along = sum(a * b for a, b in zip(nv, pp["dir"]))
                if pp["kind"] == "segment" and abs(along) > 5e-4:
                    rep.fail(f"normal {nv} at the interior point {r['p']} of a straight edge is not perpendicular to the edge "
                             f"(component {along:.4g} along the edge direction {pp['dir']}; {r['src']})", inp,
                             detail=dict(normal=nv, edge=pp["dir"]), finding=fk)
                if pp["kind"] == "radial":
                    off = math.sqrt(sum((a - along * b) ** 2 for a, b in zip(nv, pp["dir"])))
                    if off > 2e-3:
                        rep.fail(f"normal {nv} at the point {r['p']} of a circle line / sphere is not radial "
                                 f"(tangential component {off:.4g}; {r['src']})", inp, detail=dict(normal=nv, radial=pp["dir"]), finding=fk)
    # ---- correspondence with the Lean model
    mv, _ = decode(replies[ent["a"]])
    stable = True
    for j in range(ent["a"] + 1, ent["b"]):
        pv, _ = decode(replies[j])
        if (pv is None) != (mv is None) or (pv is not None and max(abs(a - b) for a, b in zip(pv, mv)) > VEC_TOL / 4):
            stable = False
            break
    if not stable:
        rep.count("corr-skipped(decision within float32 noise)")
        return
    rep.count("corr-compared")
    if mv is None:
        if finite:
            rep.disagree("drivers/C06.lean normal: model has no finite normal here, implementation has", inp, nv, "none")
        return
    if not finite or max(abs(a - b) for a, b in zip(nv, mv)) > VEC_TOL:
        rep.disagree("drivers/C06.lean normal: vectors differ by more than 1e-4", inp, nv, mv)


BAD_INTERVALS = [(-5, 0.01), (-1, 0.001), (-40, 0.1), (-17, 0.004), (-64, 0.03), (-2.3, 0.0007), (-7.7, -0.0123),
                 (-0.002, 9.0), (100.0, 100.03), (-3.0, 0.0)]


def bad_interval_cases(ctx):
    """fixed stream: intervals whose end points differ by orders of magnitude (float32 values of decimal numbers), alone, with
    a parameter-dependent variant `[lb − t, ub·(1 + t)]`, and inside a union / cut"""
    from geomgen import PF, c, v
    rng = ctx.rng
    out = []
    for i, (lb, ub) in enumerate(BAD_INTERVALS):
        lb, ub = Fr(f32(lb)), Fr(f32(ub))
        plain = Node("interval", "y", [PF([c(lb)]), PF([c(ub)])])
        dep = Node("interval", "y", [PF([("-", c(lb), v("t"))]), PF([("*", c(ub), ("+", c(1), v("t")))])])
        mid = Fr(f32(float(lb + (ub - lb) * Fr(3, 4))))
        other = Node("interval", "y", [PF([c(mid)]), PF([c(Fr(f32(float(ub + (ub - lb) / 2))))])])
        variants = [(plain, [], [{}]), (Node(rng.choice(["union", "cut", "inter"]), None, [], [plain, other]), [], [{}])]
        if ub > 0:
            variants.append((dep, ["t"], [{"t": [str(Fr(rng.randint(1, 16), 16))]} for _ in range(rng.choice([1, 2]))]))
        for node, params, envs in variants:
            wraps = ["bdry"] if not params else ["bdry", "bdryL", "bdryR"]
            for wrap_ in wraps:
              out.append(dict(id=10000 + len(out), mode="badint-fixed", wrap=wrap_, dom=node.describe(), params=params,
                            envs=[{k_: [str(a) for a in v_] for k_, v_ in e.items()} for e in envs], n=rng.choice([4, 7, 8]),
                            seed=rng.randint(0, 2 ** 31 - 1), m=2))
    # regular positive cases: far-small parallelogram / triangle (size 2^-7 near (1, 2); size 1/4 near (−40, 90)), where the
    # library's barycentric tolerance is the coordinate-relative one (/repo 20d0b69)
    from geomgen import PF as PF_, c as c_
    for kind_, base_, lam in (("par", (Fr(1), Fr(2)), Fr(1, 128)), ("tri", (Fr(-40), Fr(90)), Fr(1, 4)), ("tri", (Fr(1), Fr(2)), Fr(1, 128))):
        far = Node(kind_, "x", [PF_([c_(base_[0]), c_(base_[1])]), PF_([c_(base_[0] + lam * Fr(7, 8)), c_(base_[1] + lam * Fr(3, 8))]),
                                PF_([c_(base_[0] - lam * Fr(3, 8)), c_(base_[1] + lam * Fr(3, 4))])])
        out.append(dict(id=10000 + len(out), mode="far-small-fixed", wrap="bdry", dom=far.describe(), params=[], envs=[{}], n=24,
                        seed=rng.randint(0, 2 ** 31 - 1), m=2))
    # vertex orientation flipping between the parameter rows of one call (fixed share, independent of the random modes)
    for ts in ([Fr(1, 8), Fr(7, 8)], [Fr(3, 4), Fr(1, 4), Fr(1)]):
        node, _, _ = gen_flip_prim(rng)
        out.append(dict(id=10000 + len(out), mode="flip-fixed", wrap="bdry", dom=node.describe(), params=["t"],
                        envs=[{"t": [str(t_)]} for t_ in ts], n=8, seed=rng.randint(0, 2 ** 31 - 1), m=2))
    # object histories (several evaluated copies of one parent, earlier copies reused)
    for _ in range(ctx.scale(8, 60)):
        node, envs_h = gen_history(rng)
        out.append(dict(id=10000 + len(out), mode="history", wrap="bdry", dom=node.describe(), params=["t", "D"],
                        envs=[{k_: [str(a) for a in v_] for k_, v_ in e.items()} for e in envs_h], n=rng.choice([6, 10]),
                        seed=rng.randint(0, 2 ** 31 - 1), m=0))
    # fixed touching configurations built with the `contained` / `disjoint` flags
    for conf, flagged in (("edge", True), ("corner", True), ("tri-on-edge", True), ("hole", True), ("adjacent", True), ("edge", False)):
        node, _ = gen_touching(rng, conf, flagged)
        out.append(dict(id=10000 + len(out), mode="touch-fixed", wrap="bdry", dom=node.describe(), params=[], envs=[{}],
                        n=rng.choice([12, 16, 24]), seed=rng.randint(0, 2 ** 31 - 1), m=3))
    return out


def run(ctx, rep, cases=None):
    rep.rule = ("boundary expressions from the public constructors: boundaries of interval / parallelogram / triangle (both vertex "
                "orientations) / disc / ball and of nested unions, cuts, intersections of them with really overlapping operands, "
                "parameter-dependent shapes with 1-4 parameter rows incl. triangles / parallelograms whose vertex orientation flips between the "
                "rows of one call, unions / cuts on top of intersections; points = the library's own boundary samples in all four sampler modes "
                "(random / grid × number n / density d, density for single parameter rows) plus "
                "constructed edge / corner / arc points accepted by the boundary's membership test; non-trivial = at least one boundary "
                "point was obtained and the expression is not a bare constant interval; distinct = distinct (expression, rows, points)")
    if cases is None:
        cases = [make_case(ctx, i) for i in range(ctx.scale(78, 1300))] + bad_interval_cases(ctx)
    evaluate(ctx, rep, cases)
    opaque_streams(ctx, rep)
    h = rep.hist
    skipped = {k_.split(":", 1)[1]: v_ for k_, v_ in h.items() if k_.startswith("step-skipped:")}
    rep.notes.append(f"modelled expressions: {h.get('points', 0)} boundary points, exact step test on {h.get('step-tested', 0)}, "
                     f"skipped {sum(skipped.values())} ({skipped}); every skipped point still went through the finite / unit-length "
                     f"oracles and the model correspondence; junction = the point lies on the boundary pieces of two different leaves "
                     f"(crossing or shared boundary pieces, cf. C05 finding union_shared_boundary_piece) where no outward direction is defined by the property")


def replay(ctx, obj):
    rep = common.Report(ctx)
    lean = common.lean_check("C06")
    inp = (obj.get("failing_input") or obj.get("first"))["input"]
    if inp.get("kind") == "polygon":
        rings_ = inp.get("rings") or [inp["vertices"]]
        poly_case(rep, [[(Fr(a), Fr(b)) for a, b in r_] for r_ in rings_], 0, 0, fixed=inp["point"], disc=inp.get("disc"))
        rep.case(dict(replay=inp), True)
        return common.finish(ctx, rep, lean)
    if inp.get("kind") == "polyhedron":
        mesh_case(rep, [[Fr(a) for a in v] for v in inp["vertices"]], inp["faces"], 0, 0, fixed=inp["point"])
        rep.case(dict(replay=inp), True)
        return common.finish(ctx, rep, lean)
    if inp.get("case"):
        evaluate(ctx, rep, [inp["case"]])
        return common.finish(ctx, rep, lean)
    # the failing row is replayed in one normal() call together with the first row of the original call (row pairing matters)
    r0 = inp.get("call_row0") or dict(point=inp["point"], env=inp["env"])
    case = dict(id=0, mode="replay", wrap=inp["wrap"], dom=inp["dom"], params=inp["params"], envs=[r0["env"], inp["env"]], n=1, seed=0, m=0)
    evaluate(ctx, rep, [case], fixed=[[(r0["point"], 0), (inp["point"], 1)]])
    return common.finish(ctx, rep, lean)


# ---------------------------------------------------------------------------------------------
# opaque primitives (not modelled in Lean): ShapelyPolygon, TrimeshPolyhedron — property oracles only.
# Membership for the step test is computed by the harness in exact rational arithmetic, independently of
# shapely / trimesh: even-odd crossing number for simple polygons, half-space test for convex polyhedra.

DIRS16 = [(4, 0), (4, 2), (3, 3), (2, 4), (0, 4), (-2, 4), (-3, 3), (-4, 2), (-4, 0), (-4, -2), (-3, -3), (-2, -4),
          (0, -4), (2, -4), (3, -3), (4, -2)]


def poly_contains(verts, q):
    """even-odd rule, exact (q is never on an edge in the step test; returns None if it is).
    `verts` is one ring or a list of rings (exterior + holes): the crossing parity over all rings is the membership"""
    if verts and isinstance(verts[0][0], (list, tuple)):
        res = False
        for ring in verts:
            r_ = poly_contains(ring, q)
            if r_ is None:
                return None
            res = res != r_
        return res
    x, y = q
    inside = False
    n = len(verts)
    for i in range(n):
        (x1, y1), (x2, y2) = verts[i], verts[(i + 1) % n]
        cr = (x2 - x1) * (y - y1) - (y2 - y1) * (x - x1)
        if cr == 0 and min(x1, x2) <= x <= max(x1, x2) and min(y1, y2) <= y <= max(y1, y2):
            return None
        if (y1 > y) != (y2 > y):
            xi = x1 + (y - y1) * (x2 - x1) / (y2 - y1)
            if xi > x:
                inside = not inside
    return inside


def gen_polygon(rng):
    k = rng.choice([3, 4, 5, 6, 7, 8])
    while True:
        idx = sorted(rng.sample(range(16), k))
        # star-shaped around the centre: consecutive directions less than a half turn apart
        if all(((idx[(i + 1) % k] - idx[i]) % 16) < 8 for i in range(k)):
            break
    cx, cy = Fr(rng.randint(-16, 16), 8), Fr(rng.randint(-16, 16), 8)
    verts = []
    for i in idx:
        r = Fr(rng.randint(2, 8), 8)
        verts.append((cx + r * DIRS16[i][0], cy + r * DIRS16[i][1]))
    if rng.random() < 0.5:
        verts.reverse()          # clockwise input is allowed by the constructor
    if rng.random() < 0.6:
        # across scales and offsets: sizes 2^-9 … 2^9, size / offset ratio down to 1/2048
        lam, off = gen_scale(rng, 2, Fr(1, 2048))
        verts = [(lam * a + off[0], lam * b + off[1]) for a, b in verts]
    return verts


def segs_cross(a, b, c_, d):
    """closed segments ab and cd intersect (exact)"""
    def orient(p_, q_, r_):
        v_ = (q_[0] - p_[0]) * (r_[1] - p_[1]) - (q_[1] - p_[1]) * (r_[0] - p_[0])
        return (v_ > 0) - (v_ < 0)
    def on(p_, q_, r_):
        return min(p_[0], q_[0]) <= r_[0] <= max(p_[0], q_[0]) and min(p_[1], q_[1]) <= r_[1] <= max(p_[1], q_[1])
    o1, o2, o3, o4 = orient(a, b, c_), orient(a, b, d), orient(c_, d, a), orient(c_, d, b)
    if o1 != o2 and o3 != o4:
        return True
    return (o1 == 0 and on(a, b, c_)) or (o2 == 0 and on(a, b, d)) or (o3 == 0 and on(c_, d, a)) or (o4 == 0 and on(c_, d, b))


def ring_edges(ring):
    return [(ring[i], ring[(i + 1) % len(ring)]) for i in range(len(ring))]


def ring_is_simple(ring):
    """no two non-adjacent edges of the ring meet (exact)"""
    es = ring_edges(ring)
    n = len(es)
    for i in range(n):
        for j in range(i + 1, n):
            if j == i + 1 or (i == 0 and j == n - 1):
                continue
            if segs_cross(es[i][0], es[i][1], es[j][0], es[j][1]):
                return False
    return True


def gen_polygon_rings(rng):
    """exterior ring plus 0 … 4 holes (each a small star-shaped polygon with its own vertex count and orientation, strictly
    inside the exterior and disjoint from the other holes — checked exactly)"""
    ext = gen_polygon(rng)
    while not ring_is_simple(ext):
        ext = gen_polygon(rng)
    rings = [ext]
    want = rng.choice([0, 1, 2, 2, 3, 3, 4])
    if want == 0:
        return rings
    xs = [a for a, _ in ext]; ys = [b for _, b in ext]
    w_, h_ = max(xs) - min(xs), max(ys) - min(ys)
    for _ in range(60):
        if len(rings) - 1 >= want:
            break
        k = rng.choice([3, 4, 5, 6])
        idx = sorted(rng.sample(range(16), k))
        if not all(((idx[(i + 1) % k] - idx[i]) % 16) < 8 for i in range(k)):
            continue
        cx = min(xs) + w_ * Fr(rng.randint(2, 14), 16)
        cy = min(ys) + h_ * Fr(rng.randint(2, 14), 16)
        size = min(w_, h_) * Fr(rng.randint(1, 3), 64)
        hole = [(cx + size * Fr(rng.randint(4, 8), 8) * DIRS16[i][0], cy + size * Fr(rng.randint(4, 8), 8) * DIRS16[i][1]) for i in idx]
        if not ring_is_simple(hole) or not all(poly_contains(ext, v_) is True for v_ in hole):
            continue
        others = [e_ for r_ in rings for e_ in ring_edges(r_)]
        if any(segs_cross(a, b, c_, d) for a, b in ring_edges(hole) for c_, d in others):
            continue
        if any(poly_contains(r_, hole[0]) is not False for r_ in rings[1:]) or any(poly_contains(hole, r_[0]) is not False for r_ in rings[1:]):
            continue          # nested holes
        if rng.random() < 0.5:
            hole.reverse()
        rings.append(hole)
    return rings


def opaque_point_oracles(rep, what, inp, p, nv, pieces, contains, src):
    """pieces: list of (distance from p, id); contains(q: list of Fraction) -> bool|None"""
    rep.count(what + ":points")
    if not all(math.isfinite(a) for a in nv):
        rep.fail(f"{what}: normal() returned a non-finite vector {nv} at a boundary point ({src})", inp, detail=dict(normal=nv))
        return
    ln = math.sqrt(sum(a * a for a in nv))
    if abs(ln - 1) > UNIT_TOL:
        rep.fail(f"{what}: normal() returned {nv} of length {ln:.6g}, not a unit vector ({src})", inp, detail=dict(normal=nv))
    scale = inp["_scale"]
    eta = 1e-6 * max([1.0] + [abs(a) for a in p])
    on = [d for d in pieces if d <= 1e-4 * scale + eta]
    other = [d for d in pieces if d > 1e-4 * scale + eta]
    if len(on) != 1:
        rep.count(f"{what}:step-skipped:" + ("off-boundary" if not on else "edge-or-corner"))
        return
    eps = 4e-3 * scale
    if other:
        eps = min(eps, 0.4 * min(other))
    if eps < 10 * eta:
        rep.count(f"{what}:step-skipped:crowded")
        return
    e = Fr(int(eps * 2 ** 30), 2 ** 30)
    pf = [to_fr(a) for a in p]; nf = [to_fr(a) for a in nv]
    o = contains([a + e * b for a, b in zip(pf, nf)])
    i = contains([a - e * b for a, b in zip(pf, nf)])
    rep.count(what + ":step-tested")
    if o is not False or i is not True:
        rep.fail(f"{what}: normal {nv} at boundary point {p} does not point outwards: p + εn inside = {o}, p − εn inside = {i} "
                 f"(ε = {eps:.3g}, exact membership computed by the harness; no other edge / face within 2.5ε; {src})",
                 {k_: v_ for k_, v_ in inp.items() if not k_.startswith("_")}, detail=dict(normal=nv, eps=eps))


def poly_case(rep, verts, seed, n, fixed=None, disc=None):
    tp = common.use_repo()
    import torch
    from torchphysics.problem.domains.domain2D.shapely_polygon import ShapelyPolygon
    X = tp.spaces.R2("x")
    rings = verts if isinstance(verts[0][0], (list, tuple)) else [verts]
    verts = rings
    if len(rings) == 1:
        P = ShapelyPolygon(X, vertices=[[float(a), float(b)] for a, b in rings[0]])
    else:
        import shapely.geometry as s_geo
        P = ShapelyPolygon(X, shapely_polygon=s_geo.Polygon([(float(a), float(b)) for a, b in rings[0]],
                                                            [[(float(a), float(b)) for a, b in r_] for r_ in rings[1:]]))
    D = P
    if disc is not None:
        # union / cut / intersection of the polygon (with its holes) and a disc
        op, dcx, dcy, dr = disc[0], Fr(disc[1]), Fr(disc[2]), Fr(disc[3])
        C = tp.domains.Circle(X, [float(dcx), float(dcy)], float(dr))
        D = P + C if op == "union" else P - C if op == "cut" else P & C
    B = D.boundary
    segs = []
    for r_ in rings:
        fl = [(float(a), float(b)) for a, b in r_]
        segs += [(fl[i], fl[(i + 1) % len(fl)]) for i in range(len(fl))]
    scale = min(math.dist(a, b) for a, b in segs)
    rows = []
    if fixed is not None:
        rows = [([float(Fr(a)) for a in fixed], "replay")]
    else:
        torch.manual_seed(seed)
        for how in ("random", "grid"):
            try:
                fn = B.sample_random_uniform if how == "random" else B.sample_grid
                s = common.call_with_timeout(5, fn, n=n)
                t = s.as_tensor
                if tuple(t.shape) != (n, 2) or not bool(torch.isfinite(t).all()):
                    rep.count("polygon:sampler-wrong-output:" + how)
                    continue
                rows += [(r, how) for r in t.tolist()]
            except Exception:
                rep.count("polygon:sampler-raised:" + how)
        # edge midpoints (exact dyadic points of the boundary); with a disc: only those the boundary's membership test accepts
        mids = [([(a[0] + b[0]) / 2, (a[1] + b[1]) / 2], "constructed-edge") for a, b in segs]
        if disc is not None and mids:
            try:
                ok_ = B._contains(tp.spaces.Points(torch.tensor([m_ for m_, _ in mids], dtype=torch.float32), X)).reshape(-1).tolist()
                mids = [m_ for m_, o_ in zip(mids, ok_) if o_]
            except Exception:
                mids = []
        rows += mids
    if not rows:
        return 0
    pts = tp.spaces.Points(torch.tensor([r for r, _ in rows], dtype=torch.float32), X)
    base = dict(kind="polygon", rings=[[[str(a), str(b)] for a, b in r_] for r_ in rings])
    if disc is not None:
        base["disc"] = [disc[0], str(dcx), str(dcy), str(dr)]
    def member(q):
        inp_ = poly_contains(verts, q)
        if disc is None or inp_ is None:
            return inp_
        d2 = (q[0] - dcx) ** 2 + (q[1] - dcy) ** 2
        if d2 == dr * dr:
            return None
        inc = d2 < dr * dr
        return (inp_ or inc) if op == "union" else (inp_ and not inc) if op == "cut" else (inp_ and inc)
    try:
        nv = torch.as_tensor(B.normal(pts)).to(torch.float64).tolist()
    except Exception as e:  # noqa
        rep.fail(f"polygon: normal() raised {type(e).__name__}: {str(e)[:160]} at points of its own boundary", dict(base, point=[str(to_fr(a)) for a in rows[0][0]]))
        return len(rows)
    for (p, src), v in zip(rows, nv):
        p32 = [f32(a) for a in p]
        ds_ = [seg_dist(p32, a, b) for a, b in segs]
        sizes_ = [math.dist(a, b) for a, b in segs]
        if disc is not None:
            ds_.append(abs(math.dist(p32, [float(dcx), float(dcy)]) - float(dr)))
            sizes_.append(float(dr))
        near = min(range(len(ds_)), key=lambda i_: ds_[i_])
        # size of the piece the point lies on (holes can be much smaller than the exterior ring)
        inp = dict(base, point=[str(to_fr(a)) for a in p32], point_float=p32, source=src, _scale=sizes_[near])
        opaque_point_oracles(rep, "polygon" if disc is None else "polygon-boolean", inp, p32, v, ds_, member, src)
    return len(rows)


def gen_body(rng):
    """convex polyhedra with dyadic vertices: boxes and tetrahedra; faces as vertex index triples"""
    o = [Fr(rng.randint(-8, 8), 4) for _ in range(3)]
    if rng.random() < 0.5:
        ext = [Fr(rng.randint(2, 12), 4) for _ in range(3)]
        V = [[o[0] + a * ext[0], o[1] + b * ext[1], o[2] + c_ * ext[2]] for a in (0, 1) for b in (0, 1) for c_ in (0, 1)]
        F = [[0, 1, 3], [0, 3, 2], [4, 6, 7], [4, 7, 5], [0, 4, 5], [0, 5, 1], [2, 3, 7], [2, 7, 6], [0, 2, 6], [0, 6, 4], [1, 5, 7], [1, 7, 3]]
    else:
        while True:
            V = [o] + [[o[j] + Fr(rng.randint(-8, 8), 4) for j in range(3)] for _ in range(3)]
            a, b, c_ = [[V[i][j] - V[0][j] for j in range(3)] for i in (1, 2, 3)]
            det = a[0] * (b[1] * c_[2] - b[2] * c_[1]) - a[1] * (b[0] * c_[2] - b[2] * c_[0]) + a[2] * (b[0] * c_[1] - b[1] * c_[0])
            if abs(det) >= 2:
                break
        F = [[0, 1, 2], [0, 1, 3], [0, 2, 3], [1, 2, 3]]
    if rng.random() < 0.5:
        F = [f[::-1] for f in F]     # either winding; the constructor calls fix_normals()
    return V, F


def gen_polyhedron(rng):
    """one to three separate convex solids in ONE mesh, every solid with its own face winding (outward or inward):
    the constructor's fix_normals() has to orient every body on its own"""
    if rng.random() < 0.25:
        # a solid with a cavity: a box nested strictly inside a box, each with its own winding
        o = [Fr(rng.randint(-8, 8), 4) for _ in range(3)]
        ext = [Fr(rng.randint(8, 16), 4) for _ in range(3)]
        lo_ = [Fr(rng.randint(2, 3), 8) for _ in range(3)]; hi_ = [Fr(rng.randint(5, 6), 8) for _ in range(3)]
        tri12 = [[0, 1, 3], [0, 3, 2], [4, 6, 7], [4, 7, 5], [0, 4, 5], [0, 5, 1], [2, 3, 7], [2, 7, 6], [0, 2, 6], [0, 6, 4], [1, 5, 7], [1, 7, 3]]
        V = [[o[0] + a * ext[0], o[1] + b * ext[1], o[2] + c_ * ext[2]] for a in (0, 1) for b in (0, 1) for c_ in (0, 1)]
        V += [[o[0] + (lo_[0], hi_[0])[a] * ext[0], o[1] + (lo_[1], hi_[1])[b] * ext[1], o[2] + (lo_[2], hi_[2])[c_] * ext[2]]
              for a in (0, 1) for b in (0, 1) for c_ in (0, 1)]
        F = [f[::-1] if rng.random() < 0.5 else list(f) for f in [tri12]][0]
        w1, w2 = rng.random() < 0.5, rng.random() < 0.5
        F = [(f[::-1] if w1 else list(f)) for f in tri12] + [[i + 8 for i in (f[::-1] if w2 else f)] for f in tri12]
        return V, F
    nb = rng.choice([1, 1, 2, 2, 3])
    V, F, shift = [], [], Fr(0)
    for _ in range(nb):
        v, f = gen_body(rng)
        lo = min(a[0] for a in v); hi = max(a[0] for a in v)
        off = shift - lo
        base = len(V)
        V += [[a[0] + off, a[1], a[2]] for a in v]
        F += [[i + base for i in tri] for tri in f]
        shift += (hi - lo) + Fr(rng.randint(4, 12), 4)
    return V, F


def bodies_of(V, F):
    """connected components (vertex index sets) of the mesh"""
    parent = list(range(len(V)))
    def find(i):
        while parent[i] != i:
            parent[i] = parent[parent[i]]
            i = parent[i]
        return i
    for f in F:
        for i in f[1:]:
            parent[find(i)] = find(f[0])
    comps = {}
    for f in F:
        comps.setdefault(find(f[0]), []).append(f)
    return list(comps.values())


def planes_of(V, F):
    """outward (un-normalised, exact) face planes of a convex polyhedron: (normal, point)"""
    ctr = [sum(v[j] for v in V) / len(V) for j in range(3)]
    out = []
    for f in F:
        a, b, c_ = V[f[0]], V[f[1]], V[f[2]]
        u = [b[j] - a[j] for j in range(3)]; w = [c_[j] - a[j] for j in range(3)]
        nrm = [u[1] * w[2] - u[2] * w[1], u[2] * w[0] - u[0] * w[2], u[0] * w[1] - u[1] * w[0]]
        if sum(nrm[j] * (ctr[j] - a[j]) for j in range(3)) > 0:
            nrm = [-x for x in nrm]
        out.append((nrm, a))
    return out


def mesh_case(rep, V, F, seed, n, fixed=None):
    tp = common.use_repo()
    import torch
    from torchphysics.problem.domains.domain3D.trimesh_polyhedron import TrimeshPolyhedron
    Z = tp.spaces.R3("z")
    P = TrimeshPolyhedron(Z, vertices=[[float(a) for a in v] for v in V], faces=F)
    B = P.boundary
    # per body: distinct outward face planes (two triangles of a box side share one) and the bounding box
    bodies = []
    for faces_b in bodies_of(V, F):
        idx = sorted({i for f in faces_b for i in f})
        Vb = [V[i] for i in idx]
        remap = {i: k_ for k_, i in enumerate(idx)}
        uniq = []
        for nrm, a in planes_of(Vb, [[remap[i] for i in f] for f in faces_b]):
            L = math.sqrt(sum(float(x) ** 2 for x in nrm))
            key = tuple(round(float(x) / L, 9) for x in nrm) + (round(sum(float(nrm[j]) * float(a[j]) for j in range(3)) / L, 9),)
            if key not in [k for k, _, _ in uniq]:
                uniq.append((key, nrm, a))
        box = [(float(min(v[j] for v in Vb)), float(max(v[j] for v in Vb))) for j in range(3)]
        bodies.append((uniq, box))
    scale = min(math.dist([float(x) for x in V[f[i]]], [float(x) for x in V[f[(i + 1) % 3]]]) for f in F for i in range(3))
    rows = []
    if fixed is not None:
        rows = [([float(Fr(a)) for a in fixed], "replay")]
    else:
        torch.manual_seed(seed)
        import numpy as np
        np.random.seed(seed % (2 ** 31))
        for how in ("random", "grid"):
            try:
                fn = B.sample_random_uniform if how == "random" else B.sample_grid
                s = common.call_with_timeout(10, fn, n=n)
                t = s.as_tensor
                if t.ndim != 2 or t.shape[1] != 3 or not bool(torch.isfinite(t).all()):
                    rep.count("polyhedron:sampler-wrong-output:" + how)
                    continue
                rows += [(r, how) for r in t.tolist()[: 2 * n]]
            except Exception:
                rep.count("polyhedron:sampler-raised:" + how)
        for f in F:      # face centroids
            rows.append(([float(sum(V[i][j] for i in f) / 3) for j in range(3)], "constructed-face"))
    if not rows:
        return 0
    pts = tp.spaces.Points(torch.tensor([r for r, _ in rows], dtype=torch.float32), Z)
    base = dict(kind="polyhedron", vertices=[[str(a) for a in v] for v in V], faces=F)
    try:
        nv = torch.as_tensor(B.normal(pts)).to(torch.float64).tolist()
    except Exception as e:  # noqa
        rep.fail(f"polyhedron: normal() raised {type(e).__name__}: {str(e)[:160]} at points of its own boundary", dict(base, point=[str(to_fr(a)) for a in rows[0][0]]))
        return len(rows)

    def contains(q):
        # parity of the number of (convex) bodies that contain q: separate solids and cavities alike
        res = False
        for uniq, _ in bodies:
            vals = [sum(nrm[j] * (q[j] - a[j]) for j in range(3)) for _, nrm, a in uniq]
            if all(v <= 0 for v in vals):
                if any(v == 0 for v in vals):
                    return None
                res = not res
        return res
    for (p, src), v in zip(rows, nv):
        p32 = [f32(a) for a in p]
        dists = []
        for uniq, box in bodies:
            # distance to the body's box: a face plane of a far away body that happens to pass near p is no neighbour
            far = math.sqrt(sum(max(lo - p32[j], 0.0, p32[j] - hi) ** 2 for j, (lo, hi) in enumerate(box)))
            for _, nrm, a in uniq:
                L = math.sqrt(sum(float(x) ** 2 for x in nrm))
                dists.append(max(far, abs(sum(float(nrm[j]) * (p32[j] - float(a[j])) for j in range(3))) / L))
        inp = dict(base, point=[str(to_fr(a)) for a in p32], point_float=p32, source=src, _scale=scale)
        opaque_point_oracles(rep, "polyhedron", inp, p32, v, dists, contains, src)
    return len(rows)


def opaque_streams(ctx, rep):
    rng = ctx.rng
    for i in range(ctx.scale(14, 120)):
        rings = gen_polygon_rings(rng)
        seed = rng.randint(0, 2 ** 31 - 1)
        disc = None
        if rng.random() < 0.3:
            # a disc centred on the middle of an exterior edge: crosses the exterior ring (and possibly holes)
            a_, b_ = rng.choice(ring_edges(rings[0]))
            xs_ = [v_[0] for v_ in rings[0]]; ys_ = [v_[1] for v_ in rings[0]]
            disc = (rng.choice(["union", "cut", "inter"]), (a_[0] + b_[0]) / 2, (a_[1] + b_[1]) / 2,
                    min(max(xs_) - min(xs_), max(ys_) - min(ys_)) * Fr(rng.randint(2, 5), 16))
            rep.count("polygon:boolean-with-disc:" + disc[0])
        k = poly_case(rep, rings, seed, rng.choice([6, 12, 20]), disc=disc)
        rep.count("mode:polygon")
        rep.count("polygon:holes:%d" % (len(rings) - 1))
        rep.case(dict(polygon=[[[str(a), str(b)] for a, b in r_] for r_ in rings]), k > 0, kind="polygon",
                 sample=dict(expression="ShapelyPolygon", rings=[[[float(a), float(b)] for a, b in r_] for r_ in rings], points=k))
    for i in range(ctx.scale(8, 60)):
        V, F = gen_polyhedron(rng)
        if rng.random() < 0.5:
            lam, off = gen_scale(rng, 3, Fr(1, 32), kmax=6)
            V = [[lam * a[j] + off[j] for j in range(3)] for a in V]
        seed = rng.randint(0, 2 ** 31 - 1)
        k = mesh_case(rep, V, F, seed, rng.choice([6, 12]))
        rep.count("mode:polyhedron")
        rep.case(dict(polyhedron=[[str(a) for a in v] for v in V], faces=F), k > 0, kind="polyhedron",
                 sample=dict(expression="TrimeshPolyhedron", vertices=[[float(a) for a in v] for v in V], faces=F, points=k))
